import scenic, random, numpy
random.seed(1); numpy.random.seed(1)
for label, code in {
 "earlier-random": """
ego = new Object at (0,0), with allowCollisions Uniform(True, False)
b = new Object at (0.2,0)
""",
 "later-random": """
ego = new Object at (0,0)
b = new Object at (0.2,0), with allowCollisions Uniform(True, False)
""",
}.items():
    try:
        sc = scenic.scenarioFromString(code, mode2D=True)
        bad = 0
        for i in range(20):
            try:
                scene, _ = sc.generate(maxIterations=200)
            except Exception as e:
                print(label, "generate raised", type(e).__name__, e); break
            a, b = scene.objects
            if not (a.allowCollisions or b.allowCollisions):
                bad += 1
        print(label, "ok; violations:", bad)
    except Exception as e:
        print(label, "compile raised", type(e).__name__, e)
