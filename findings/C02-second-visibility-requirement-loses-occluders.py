"""C02: only the first `visible from` requirement of a scenario takes occluders into account.

Scenario.generateDefaultRequirements (src/scenic/core/scenarios.py) builds
    possible_occluders = filter(lambda x: ..., self.objects)
and passes this *iterator* to every VisibilityRequirement / NonVisibilityRequirement.  The first
requirement's constructor exhausts it (tuple(...) in VisibilityRequirement.__init__), so every
later requirement is built with no occluders at all.

Below, t2 must be `visible from p2`, but a 8 m x 8 m wall stands between p2 and every allowed
position of t2.  The scenario has no valid scene; Scenic nevertheless returns one at once.
(Swap the two `new Object ... visible from` lines' order and generation fails as it should.)
"""
import random

import numpy
import scenic
from scenic.core.distributions import RejectionException

SRC = """
p1 = new Point at (0, 0, 0)
p2 = new Point at (60, 0, 0)
t1 = new Object at (Range(-3, 3), 10, 0), visible from p1
wall = new Object at (60, 5, 0), with width 8, with length 0.2, with height 8
t2 = new Object at (60 + Range(-1, 1), Range(7, 12), 0), visible from p2
"""
random.seed(0)
numpy.random.seed(0)
sc = scenic.scenarioFromString(SRC)
for r in sc.checker.requirements:
    if type(r).__name__ == "VisibilityRequirement":
        print("VisibilityRequirement for", r.target, "potential occluders:", len(r.potential_occluders))
try:
    scene, its = sc.generate(maxIterations=50)
except RejectionException:
    print("no scene (correct)")
else:
    p2, wall, t2 = scene.objects[0], scene.objects[1], scene.objects[2]
    print("scene returned after", its, "iteration(s); t2 at", tuple(round(x, 2) for x in scene.objects[2].position))
    print("DEFECT: t2 is required to be visible from p2 but is completely hidden behind the wall")
