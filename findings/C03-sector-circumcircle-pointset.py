"""SectorRegion.circumcircle is the disc whose diameter is the bisecting radius scaled by
cos(angle/2): it does not contain the sector.  The point-set x region sampler pre-selects the
points inside `other.circumcircle`, so members of (point set & sector) are never drawn."""
import math, random
from scenic.core.regions import PointSetRegion, SectorRegion
from scenic.core.vectors import Vector
sec = SectorRegion(Vector(0, 0, 0), 10, 0.0, math.radians(90))      # heading +Y, 90 degrees wide
pts = [(0, 1, 0), (0, 5, 0), (0, 9.5, 0), (3, 8, 0), (-5, 6, 0)]
print("all points are in the sector:", all(sec.containsPoint(Vector(*p)) for p in pts))
print("circumcircle:", sec.circumcircle[0], "radius", round(sec.circumcircle[1], 3))
inter = PointSetRegion("ps", pts).intersect(sec)
random.seed(0)
drawn = sorted({tuple(float(c) for c in inter.uniformPointInner()) for _ in range(400)})
print("distinct points drawn in 400 samples:", drawn)
