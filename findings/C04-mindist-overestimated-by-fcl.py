"""C04: Object.minimumDistanceTo over-estimates the gap between two disjoint boxes by 16 %,
and the result depends on the argument order.

Two boxes, one lying (yaw -90 deg, roll 180 deg), one upright and axis-aligned, about 2.4 m
apart.  The exact gap (closest points of the two convex polytopes; checked with an LP/QP and by
exhaustive triangle-pair distance) is 2.36363...  a.minimumDistanceTo(b) returns 2.74500 while
b.minimumDistanceTo(a) returns 2.36363.  MeshVolumeRegion.minimumDistanceTo
(src/scenic/core/regions.py) returns fcl.distance(...) unchanged; FCL's GJK iteration for
Convex-Convex pairs stops early here (third-party defect reached through Scenic).  Smaller
over-estimates (1e-6 .. 2e-4 of the object size) are frequent: about 3 % of disjoint pairs.
"""
import math

from scenic.core.object_types import Object
from scenic.core.vectors import Vector

a = Object._with(position=Vector(-39.78072, -39.83256, 40.0), yaw=-math.pi / 2, pitch=0.0,
                 roll=math.pi, width=2.3885708, length=0.2109172, height=0.5673012)
b = Object._with(position=Vector(-42.2562351746228, -39.83256, 37.31427982616791),
                 width=0.2017864, length=0.4030496, height=3.481031)
dab, dba = a.minimumDistanceTo(b), b.minimumDistanceTo(a)
print("a.minimumDistanceTo(b) =", dab)
print("b.minimumDistanceTo(a) =", dba)
# exact: a spans x in [-39.886, -39.675], z in [39.716, 40.284]; b spans x in [-42.357, -42.155],
# z in [35.574, 39.055]; their y ranges overlap, so the gap is the distance between the edge
# (x=-39.886, z=39.716) of a and the edge (x=-42.155, z=39.055) of b
exact = math.hypot(-39.8861786 + 42.15534197, 39.7163494 - 39.05479533)
print("exact gap              =", exact)
if abs(dab - exact) > 1e-3 or abs(dab - dba) > 1e-3:
    print("DEFECT: minimum distance wrong by %.1f %% and asymmetric" % (100 * (dab - exact) / exact))
