"""C04: Object.minimumDistanceTo is positive although the two objects overlap.

A small box lies wholly inside one arm of an L-shaped (non-convex) object.  `intersects`
correctly reports the overlap, but `minimumDistanceTo` returns the distance between the two
*surfaces* (0.36 here), because MeshVolumeRegion.minimumDistanceTo hands a non-convex mesh to FCL as a
BVHModel (a triangle soup without interior) and returns fcl.distance unchanged
(src/scenic/core/regions.py: MeshVolumeRegion.minimumDistanceTo / _fclData).
Expected: a value <= 0 (or 0) whenever the objects overlap.
"""
import trimesh
from scenic.core.object_types import Object
from scenic.core.shapes import BoxShape, MeshShape

# L-shaped prism: 2x1x1 bar plus a 1x1x1 cube on top of its left end
a = trimesh.creation.box((2, 1, 1))
b = trimesh.creation.box((1, 1, 1))
b.apply_translation((-0.5, 0, 1))
L = trimesh.boolean.union([a, b])
assert L.is_volume and not L.is_convex
big = Object._with(position=(10, 20, 5), shape=MeshShape(L), width=2, length=1, height=2)
# centre of the bar's right half, in world coordinates: (10.5, 20, 4.5)
small = Object._with(position=(10.5, 20, 4.5), shape=BoxShape(), width=0.2, length=0.2,
                     height=0.2, yaw=0.3, pitch=0.2)
print("intersects:", big.intersects(small), small.intersects(big))
d1, d2 = big.minimumDistanceTo(small), small.minimumDistanceTo(big)
print("minimumDistanceTo:", d1, d2)
if big.intersects(small) and d1 > 0:
    print("DEFECT: overlapping objects have a positive minimum distance")
