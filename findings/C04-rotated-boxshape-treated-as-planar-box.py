"""C04: a BoxShape created with an initial_rotation is still treated as an upright rectangle
by the planar-box fast paths.

MeshShape.__init__ (src/scenic/core/shapes.py) applies initial_rotation to the unit cube and then
rescales the result to unit extents: BoxShape(initial_rotation=(45 deg, 0, 0)) is a diamond prism
|x| + |y| <= 1/2 in the object's frame, not a box.  Object._isPlanarBox
(src/scenic/core/object_types.py) only tests isinstance(shape, BoxShape) and pitch == roll == 0,
so Object.intersects / _boundingPolygon (hence footprint containment and the 2D branch of
minimumDistanceTo) use the full width x length rectangle.  Below, a small box sits in a cut-off
corner of the diamond: the solids are 0.35 apart, the general mesh test says disjoint, but
Object.intersects says True (a valid scene would be rejected; `A intersects B` is wrong).
"""
import math

from scenic.core.object_types import Object
from scenic.core.shapes import BoxShape

a = Object._with(shape=BoxShape(initial_rotation=(math.pi / 4, 0, 0)), position=(10, 20, 0),
                 width=2, length=2, height=1)
b = Object._with(position=(10.85, 20.85, 0), width=0.2, length=0.2, height=1)
v = a.occupiedSpace.mesh.vertices
print("a's solid: x+y <= %.3f on the corner side; b's nearest corner has x+y = %.3f"
      % (max(p[0] + p[1] for p in v), 10.75 + 20.75))
print("a.intersects(b)                         :", a.intersects(b))
print("a.occupiedSpace.intersects(b.occupied..):", bool(a.occupiedSpace.intersects(b.occupiedSpace)))
print("a.occupiedSpace.minimumDistanceTo       : %.4f" % a.occupiedSpace.minimumDistanceTo(b.occupiedSpace))
print("a.minimumDistanceTo(b)                  : %.4f" % a.minimumDistanceTo(b))
if a.intersects(b) and not a.occupiedSpace.intersects(b.occupiedSpace):
    print("DEFECT: planar-box fast path disagrees with the object's own solid")
