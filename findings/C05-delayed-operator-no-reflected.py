"""Operators on a lazily evaluated value have no reflected fallback: an int-valued delayed
value combined with a float evaluates to the object `NotImplemented` (int.__add__(0.5)).
lazy_eval.makeDelayedOperatorHandler calls getattr(value, '__add__')(other) directly."""
import scenic

src = """
vf = VectorField("vf", lambda p: 0.5 * p.x)
ego = new Object at (3, 0), with lz (0.25 relative to vf).yaw, with foo round((0.25 relative to vf).yaw) + 0.5
"""
ego = scenic.scenarioFromString(src).generate()[0].egoObject
print("lz =", ego.lz, " round(lz) + 0.5 =", ego.foo, " expected", round(ego.lz) + 0.5)
print("DEFECT REPRODUCED" if ego.foo is NotImplemented else "not reproduced")
