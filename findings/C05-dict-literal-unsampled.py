"""A dict literal with random values used as a param / property value is never sampled:
distributions.toDistribution wraps tuples, lists and slices but not dicts, so the generated
scene still contains the Distribution objects (tuples, lists and namedtuples are fine)."""
import scenic

scene, _ = scenic.scenarioFromString("x = Range(0, 1)\nparam d = {'a': x}\nparam t = (x, 2)\nego = new Object with foo {'k': x}\n").generate()
print("tuple param:", scene.params["t"])
print("dict  param:", scene.params["d"], "  dict property:", scene.egoObject.foo)
print("DEFECT REPRODUCED" if not isinstance(scene.params["d"]["a"], float) else "not reproduced")
