"""DiscreteRange with an endpoint that needs lazy evaluation cannot be used in a specifier:
DiscreteRange does not implement evaluateInner (Range, Normal, Options ... do), so the default
returns the unevaluated distribution and LazilyEvaluable.evaluateIn's assertion fails.
"""
import scenic

src = """
vf = VectorField("vf", lambda p: 0.01 * p.x)
ego = new Object at (Range(0, 10), 0), with n DiscreteRange(0, 3 + (0.5 relative to vf).yaw)
"""
try:
    scene, _ = scenic.scenarioFromString(src).generate()
    print("ok", scene.egoObject.n)
except AssertionError as e:
    print("AssertionError in evaluateIn\nDEFECT REPRODUCED")
