"""`x // 1` on a float-valued random x is simplified to x itself.

distributions.makeOperatorHandler treats `arg == 1` as the identity of __floordiv__ (together
with __truediv__ and __pow__), but x // 1 == floor(x), not x, for non-integers.
"""
import scenic

scene, _ = scenic.scenarioFromString("x = Range(2, 9)\nparam x = x\nparam y = x // 1\nego = new Object\n").generate()
x, y = scene.params["x"], scene.params["y"]
print("x =", x, " x // 1 =", y, " plain Python:", x // 1)
print("DEFECT REPRODUCED" if y != x // 1 else "not reproduced")
