"""Calling a random callable / method of a random object with a *keyword* argument that needs
lazy evaluation (e.g. depends on a vector field at the object's position) raises NameError.

OperatorDistribution.evaluateInner builds the evaluated keyword operands with
`{key: valueInContext(arg, context) for key, kwarg in ...}`: `arg` is not defined there.
"""
import scenic

src = """
def double(u, bonus=0):
    return 2 * u + bonus
vf = VectorField("vf", lambda p: 0.01 * p.x)
f = Uniform(double, double)
ego = new Object at (Range(0, 10), 0), with foo f(3, bonus=(0.5 relative to vf).yaw)
"""
try:
    scene, _ = scenic.scenarioFromString(src).generate()
    print("ok", scene.egoObject.foo)
except NameError as e:
    print("NameError:", e, "\nDEFECT REPRODUCED")
