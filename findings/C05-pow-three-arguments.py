"""pow(x, y, mod) with a random x raises TypeError at compile time: the __pow__ handler installed
by distributions.makeOperatorHandler accepts exactly one operand."""
import scenic

try:
    sc = scenic.scenarioFromString("param p = pow(DiscreteRange(1, 3), 2, 5)\nego = new Object\n")
    print("ok", sc.generate()[0].params["p"])
except TypeError as e:
    print("TypeError:", e, "\nDEFECT REPRODUCED")
