"""A reverse operator whose left operand's type has no __r<op>__ method fails at sampling time:
`'x' + Uniform('a', 'b')` becomes OperatorDistribution('__radd__', dist, ('x',)) and sampleGiven
does getattr('a', '__radd__') -> AttributeError (str, tuple and list define no __radd__)."""
import scenic

for expr in ["'x' + Uniform('a', 'b')", "(0,) + Uniform((1, 2), (3, 4))", "[0] + Uniform([1], [2])"]:
    try:
        scene, _ = scenic.scenarioFromString(f"param p = {expr}\nego = new Object\n").generate()
        print(expr, "->", scene.params["p"])
    except AttributeError as e:
        print(expr, "-> AttributeError:", e, "  <-- DEFECT")
