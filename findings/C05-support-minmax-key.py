"""supportInterval(min(x, y, key=f)) / max(...) ignores the key function: the bounds are computed
as if min/max were monotonic in their arguments (monotonicDistributionFunction passes key=None,
because `None in kwmins` tests the dict's *keys*), so sampled values fall outside them."""
import scenic
from scenic.core.distributions import supportInterval

sc = scenic.scenarioFromString("x = Range(-11, -9)\ny = Range(7, 8)\nparam m = min(x, y, key=abs)\nego = new Object\n")
lo, hi = supportInterval(sc.params["m"])
v = sc.generate()[0].params["m"]
print("supportInterval =", (lo, hi), " sampled value =", v)
bad = (lo is not None and v < lo) or (hi is not None and v > hi)
print("DEFECT REPRODUCED" if bad else "not reproduced")
