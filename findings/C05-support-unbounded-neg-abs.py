"""supportInterval(-x) / supportInterval(abs(x)) raise TypeError when x has an unknown bound
(e.g. a Normal): OperatorDistribution.supportInterval negates / compares None."""
import scenic
from scenic.core.distributions import Normal, Range, supportInterval

for name, d in (("-Normal(0,1)", -Normal(0, 1)), ("abs(Normal(0,1))", abs(Normal(0, 1))),
                ("abs(Range(-2,1))", abs(Range(-2, 1)))):
    try:
        print(name, "->", supportInterval(d))
    except TypeError as e:
        print(name, "-> TypeError:", e, "  <-- DEFECT")
