"""Vector.cross always raises NameError: it unpacks `bx, by, ba = other...` and then uses `bz`."""
from scenic.core.vectors import Vector

try:
    print(Vector(1, 0, 0).cross(Vector(0, 1, 0)))
except NameError as e:
    print("NameError:", e, "\nDEFECT REPRODUCED")
