"""A vector operator applied to a *constant* Vector with a lazily evaluated argument fails:
vectors.vectorOperator's helper delays the call with makeDelayedFunctionCall(helper, args)
without `self`, so at evaluation time the first argument is taken as the vector."""
import scenic

src = """
vf = VectorField("vf", lambda p: 0.5 * p.x)
ego = new Object at (3, 0), with foo Vector(0, 2, 0).applyRotation(0.25 relative to vf)
"""
try:
    print("ok", scenic.scenarioFromString(src).generate()[0].egoObject.foo)
except Exception as e:
    print(f"{type(e).__name__}: {e}\nDEFECT REPRODUCED")
