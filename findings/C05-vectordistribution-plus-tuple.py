"""Adding a tuple/list to a *random vector expression* raises AttributeError at compile time:
`(v + w) + (1, 2, 3)` or `(0, 0, 0) + (v + w)`.  vectors.makeVectorOperatorHandler's
zero-identity shortcut reads `args[0].coordinates`, which only a Vector has (the non-random
Vector.__add__ accepts tuples, lists and arrays)."""
import scenic

for expr in ["Vector(x, 1, 2) + (1, 2, 3)", "(Vector(x, 1, 2) + Vector(x, 0, 0)) + (1, 2, 3)",
             "(0, 0, 0) + (Vector(x, 1, 2) + Vector(x, 0, 0))"]:
    try:
        scene, _ = scenic.scenarioFromString(f"x = Range(0, 1)\nparam p = {expr}\nego = new Object\n").generate()
        print(f"{expr:55s} -> {scene.params['p']}")
    except AttributeError as e:
        print(f"{expr:55s} -> AttributeError: {e}   <-- DEFECT")
