"""Ambiguity between two specifiers of equal priority is detected only against the *current
best* specifier of the property, so whether it is reported depends on the order written.

docs/reference/specifiers.rst, Specifier Resolution step 1: "If a property is specified at the
same priority level by multiple specifiers in S, an ambiguity error is raised."
`visible from A` and `not visible from B` both specify position with priority 3; `at P` with 1.
object_types.Constructible._resolveSpecifiers compares each specifier only with
priorities[prop] (the best so far): once `at` (1) has been seen the two 3s never meet.
(Second, unrelated slip in the same function: the "modified twice" error message formats an
undefined variable `name` -> NameError instead of SpecifierError; reachable only with two
different ModifyingSpecifiers, i.e. not from Scenic syntax.)
"""
import itertools
import scenic

specs = ["at (1, 2)", "visible from A", "not visible from B"]
for perm in itertools.permutations(specs):
    src = f"""
workspace = Workspace(RectangularRegion((0, 0), 0, 100, 100))
A = new Point at (5, 5)
B = new Point at (-5, -5)
ego = new Object {', '.join(perm)}
"""
    try:
        scenic.scenarioFromString(src)
        print("accepted :", ", ".join(perm))
    except Exception as e:
        print(f"{type(e).__name__:13s}:", ", ".join(perm), "--", str(e).split("\n")[-1][:70])
