"""`apparent heading of X [from P]` fails with TypeError when X's position or heading is random.

veneer.ApparentHeading calls geometry.apparentHeadingAtPoint, a plain function doing math.atan2
on the coordinates, directly on (possibly random) values; unlike `relative heading of`, `angle
to`, ... it is not lifted to distributions.
"""
import scenic

src = """
ego = new Object at (0, 0)
a = new Object at (Range(5, 6), 10), facing 20 deg
param r = apparent heading of a
"""
try:
    scene, _ = scenic.scenarioFromString(src).generate()
    print("ok", scene.params["r"])
except Exception as e:
    print(f"{type(e).__name__}: {e}\nDEFECT REPRODUCED")
