"""`apparently facing H [from P]` ignores parentOrientation.

docs/reference/specifiers.rst: "Sets the yaw of the object so that it has the given heading with
respect to the line of sight from ego (or the from vector)"; the specifier declares a dependency
on parentOrientation but veneer.ApparentlyFacing never uses it: yaw (which is *local* to
parentOrientation) is set to the global line-of-sight azimuth + H.
"""
import math
import scenic

src = """
ego = new Object at (0, -10, 0)
a = new Object at (0, 10, 0), with parentOrientation 30 deg, apparently facing 20 deg
param ah = apparent heading of a
"""
scene, _ = scenic.scenarioFromString(src).generate()
a = scene.objects[1]
print("requested apparent heading 20 deg; got", math.degrees(scene.params["ah"]), "deg")
print("DEFECT REPRODUCED" if abs(scene.params["ah"] - math.radians(20)) > 1e-9 else "not reproduced")
