"""`beyond X by D from Y` never inherits Y's orientation.

docs/reference/specifiers.rst (beyond): "The value of parentOrientation is specified to be the
orientation of the third argument if it is an OrientedPoint (including Objects such as ego);
otherwise the global coordinate system is used."
veneer.Beyond coerces `fromPt` to a Vector *before* testing `isA(fromPt, OrientedPoint)`, so the
test is always false and parentOrientation is always the global orientation.
"""
import scenic

src = """
ego = new Object at (0, 0, 0), facing 90 deg
ref = new OrientedPoint at (10, 0, 0), facing 45 deg
a = new Object beyond (5, 5, 0) by 2, with allowCollisions True             # from ego
b = new Object beyond (5, 5, 0) by 2 from ref, with allowCollisions True    # from an OrientedPoint
"""
scene, _ = scenic.scenarioFromString(src).generate()
ego, a, b = scene.objects
print("ego heading", ego.heading, "-> a.parentOrientation", a.parentOrientation, "(expected yaw pi/2)")
print("ref heading 0.785 -> b.parentOrientation", b.parentOrientation, "(expected yaw pi/4)")
bad = abs(a.heading - ego.heading) > 1e-9 or abs(b.heading - 0.7853981633974483) > 1e-9
print("DEFECT REPRODUCED" if bad else "not reproduced")
