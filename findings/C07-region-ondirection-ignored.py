"""The `onDirection` default of a mesh region is never used by the modifying `on` specifier.

specifiers.rst (on): "If onDirection is not specified, a default value is inferred from the
region. A region can either specify a default value to be used, or for volumes straight up is
used ..."; MeshVolumeRegion/MeshSurfaceRegion document `onDirection: The direction to use if an
object being placed on this region doesn't specify one` and store it, but
MeshRegion.projectVector only looks at the direction passed by the object and otherwise falls
back to straight up / the mean face normal.
"""
import scenic

def run(extra_region, extra_obj):
    src = f"""
box = BoxRegion(dimensions=(6, 8, 4), position=(10, 20, 5){extra_region})
ego = new Object at (25, 19, 5.5), on box{extra_obj}
"""
    try:
        ego = scenic.scenarioFromString(src).generate()[0].egoObject
        return tuple(round(c, 3) for c in ego.position)
    except Exception as e:
        return f"{type(e).__name__}: {str(e).splitlines()[-1][:60]}"

print("direction given by the object :", run("", ", with onDirection (1, 0, 0)"))
r = run(", onDirection=(1, 0, 0)", "")
print("direction given by the region :", r)
print("DEFECT REPRODUCED" if isinstance(r, str) else "not reproduced")
