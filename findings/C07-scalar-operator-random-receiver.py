"""distance/angle/altitude operators (and `apparently facing H from P`) raise
RandomControlFlowError at compile time when the *first* vector has random coordinates and the
second is constant, e.g. an object placed `at (Range(1, 2), 0)`.

vectors.scalarOperator's wrapper only looks at the arguments (`needsSampling(arg)`), not at
`self`; with a constant argument it calls the plain method on a Vector whose coordinates are
distributions, which then tries to unpack `other - self`.
"""
import scenic

for expr in ["distance from ego to (3, 4)", "angle from ego to (3, 4)", "altitude from ego to (3, 4, 1)",
             "distance to (Range(3, 4), 4)", "distance from (3, 4) to ego"]:
    src = f"ego = new Object at (Range(1, 2), 0)\nparam r = {expr}\n"
    try:
        scene, _ = scenic.scenarioFromString(src).generate()
        print(f"{expr:40s} -> {scene.params['r']}")
    except Exception as e:
        print(f"{expr:40s} -> {type(e).__name__}: {e}   <-- DEFECT")
