"""C08 open finding: containment pruning of an object placed `in` a CircularRegion works on the
region's inscribed 128-gon, while the region's own sampler draws from the true disc; a scene
whose sampled base point lies in the sliver between the two (relative area 2e-4) can be generated
without pruning but not with it."""
import math, random
import numpy
import scenic
import scenic.syntax.translator as tr

SRC = """
workspace = Workspace(RectangularRegion((0, 0), 0, 40, 12))
ego = new Object in CircularRegion((0, 0), 9.875), with width 0.5, with length 0.5, with requireVisible False
"""

def build(prune):
    old = tr.usePruning
    tr.usePruning = prune
    try:
        return scenic.scenarioFromString(SRC, mode2D=True)
    finally:
        tr.usePruning = old

pruned = build(True)
region = pruned.objects[0].position._conditioned.region
plain = build(False)
random.seed(0); numpy.random.seed(0)
lost = 0
n = 0
inner = 9.875 * math.cos(math.pi / 128)
for _ in range(60000):
    try:
        scene, _ = plain.generate(maxIterations=1)
    except Exception:
        continue
    n += 1
    p = scene.objects[0].position
    if math.hypot(p.x, p.y) >= inner and not region.containsPoint(p):
        lost += 1
print(f"{lost} of {n} scenes accepted without pruning have a position outside the pruned region")
print("DEFECT REPRODUCED" if lost else "not reproduced")
