"""C09: a class-body statement starting with NAME[...] is rejected.

scenic.gram: scenic_class_property_stmt is tried first for every class-body statement and its
attribute list uses a forced token (&&), so  d["k"] = 1  or  registry[key].append(x)  at class
level raises: expected ("additive" | "dynamic" | "final").
Signature: 'reject:in-ClassDef|ScenicParseError:expected (Q | Q | Q)'."""
import ast, sys, warnings
warnings.simplefilter("ignore")
from scenic.syntax.parser import parse_string
from scenic.syntax.compiler import compileScenicAST


def scenic_tree(src):
    return compileScenicAST(parse_string(src, "exec", filename="<string>"))[0]


def show(src):
    print("source:", repr(src))
    try:
        sc = ast.dump(scenic_tree(src).body[-1], include_attributes=ATTRS)
    except Exception as e:
        sc = f"{type(e).__module__}.{type(e).__name__}: {e}"
    try:
        py = ast.dump(ast.parse(src).body[-1], include_attributes=ATTRS)
    except SyntaxError as e:
        py = f"SyntaxError: {e}"
    print("  CPython:", py)
    print("  Scenic :", sc)
    print("  " + ("SAME" if py == sc else "DIFFERENT"))


ATTRS = False
show("class A:\n    d = {}\n    d[\"k\"] = 1\n")
