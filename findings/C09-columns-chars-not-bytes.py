"""C09: column offsets after non-ASCII text are counted in characters, CPython counts UTF-8 bytes.

The tokenize module reports character columns; CPython's ast col_offset/end_col_offset are UTF-8
byte offsets.  Every node after a non-ASCII character on its line gets smaller columns than in
CPython (error carets and ast.get_source_segment are shifted).
Signature: 'non-ascii-line|column-counted-in-chars-not-utf8-bytes'."""
import ast, sys, warnings
warnings.simplefilter("ignore")
from scenic.syntax.parser import parse_string
from scenic.syntax.compiler import compileScenicAST


def scenic_tree(src):
    return compileScenicAST(parse_string(src, "exec", filename="<string>"))[0]


def show(src):
    print("source:", repr(src))
    try:
        sc = ast.dump(scenic_tree(src).body[-1], include_attributes=ATTRS)
    except Exception as e:
        sc = f"{type(e).__module__}.{type(e).__name__}: {e}"
    try:
        py = ast.dump(ast.parse(src).body[-1], include_attributes=ATTRS)
    except SyntaxError as e:
        py = f"SyntaxError: {e}"
    print("  CPython:", py)
    print("  Scenic :", sc)
    print("  " + ("SAME" if py == sc else "DIFFERENT"))


ATTRS = True
show("f(\"\u00e9\u00e9\", y)\n")
