"""C09: a conditional expression whose else-branch is itself a conditional expression or a lambda is rejected.

scenic.gram, rule expression: a=disjunction "if" b=disjunction "else" c=disjunction -- CPython's
grammar has c=expression.  Valid Python such as  a if b else c if d else e  is a syntax error.
Signature: 'reject:IfExp.orelse|ScenicParseError:invalid syntax'."""
import ast, sys, warnings
warnings.simplefilter("ignore")
from scenic.syntax.parser import parse_string
from scenic.syntax.compiler import compileScenicAST


def scenic_tree(src):
    return compileScenicAST(parse_string(src, "exec", filename="<string>"))[0]


def show(src):
    print("source:", repr(src))
    try:
        sc = ast.dump(scenic_tree(src).body[-1], include_attributes=ATTRS)
    except Exception as e:
        sc = f"{type(e).__module__}.{type(e).__name__}: {e}"
    try:
        py = ast.dump(ast.parse(src).body[-1], include_attributes=ATTRS)
    except SyntaxError as e:
        py = f"SyntaxError: {e}"
    print("  CPython:", py)
    print("  Scenic :", sc)
    print("  " + ("SAME" if py == sc else "DIFFERENT"))


ATTRS = False
show("x = a if b else c if d else e\n")
show("f = g if h else lambda n: n + 1\n")
