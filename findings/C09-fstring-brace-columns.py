"""C09: the literal part of an f-string that contains {{ or }} ends one column early per escaped brace.

Positions come from tokenize's FSTRING_MIDDLE tokens, whose end excludes the second brace of an
escaped pair.  Signature: 'fstring-literal-part|end_col_offset'."""
import ast, sys, warnings
warnings.simplefilter("ignore")
from scenic.syntax.parser import parse_string
from scenic.syntax.compiler import compileScenicAST


def scenic_tree(src):
    return compileScenicAST(parse_string(src, "exec", filename="<string>"))[0]


def show(src):
    print("source:", repr(src))
    try:
        sc = ast.dump(scenic_tree(src).body[-1], include_attributes=ATTRS)
    except Exception as e:
        sc = f"{type(e).__module__}.{type(e).__name__}: {e}"
    try:
        py = ast.dump(ast.parse(src).body[-1], include_attributes=ATTRS)
    except SyntaxError as e:
        py = f"SyntaxError: {e}"
    print("  CPython:", py)
    print("  Scenic :", sc)
    print("  " + ("SAME" if py == sc else "DIFFERENT"))


ATTRS = True
show("s = f\"a{{{b}}}c\"\n")
