"""C09: f"{{{c}}}" is compiled to the string of a *set*: a literal-brace part is taken for an operator.

The tokenizer delivers  FSTRING_MIDDLE '{'  OP '{'  NAME c  OP '}'  FSTRING_MIDDLE '}' ; the grammar's
fstring_replacement_field starts with the literal '{', which pegen matches by token *string*, so the
FSTRING_MIDDLE whose text is exactly "{" opens the replacement field and `{c}` inside it is parsed as
a set display.  Happens whenever a literal part is exactly "{" (i.e. `{{` directly followed by `{`
at the start of the string or after another replacement field).
Signature: 'JoinedStr:brace-literal-taken-as-operator|values[len]'."""
import ast, warnings
warnings.simplefilter("ignore")
from scenic.syntax.parser import parse_string
from scenic.syntax.compiler import compileScenicAST

src = 'c = "ll"\nx = f"{{{c}}}"\n'
tree = compileScenicAST(parse_string(src, "exec", filename="<string>"))[0]
print("CPython:", ast.dump(ast.parse(src).body[-1].value))
print("Scenic :", ast.dump(tree.body[-1].value))
ns = {}
exec(compile(tree, "<string>", "exec"), ns)
print("value computed by the Scenic-compiled code:", repr(ns["x"]), " CPython:", repr(f"{{{'ll'}}}"))
