"""C09/C10: an f-string conversion (!r, !s, !a) crashes Scenic's parser on Python 3.12.

scenic.gram: check_fstring_conversion() reads mark.lineno / mark.col_offset of a tokenize.TokenInfo
(which has .start/.end only) -> AttributeError escapes parse_string; and the action of
fstring_replacement_field calls conversion.decode() on that TokenInfo.
Signatures: C09 'crash|AttributeError@syntax/parser.py:check_fstring_conversion',
C10 'stageA|AttributeError@syntax/parser.py:check_fstring_conversion'."""
import ast, sys, warnings
warnings.simplefilter("ignore")
from scenic.syntax.parser import parse_string
from scenic.syntax.compiler import compileScenicAST


def scenic_tree(src):
    return compileScenicAST(parse_string(src, "exec", filename="<string>"))[0]


def show(src):
    print("source:", repr(src))
    try:
        sc = ast.dump(scenic_tree(src).body[-1], include_attributes=ATTRS)
    except Exception as e:
        sc = f"{type(e).__module__}.{type(e).__name__}: {e}"
    try:
        py = ast.dump(ast.parse(src).body[-1], include_attributes=ATTRS)
    except SyntaxError as e:
        py = f"SyntaxError: {e}"
    print("  CPython:", py)
    print("  Scenic :", sc)
    print("  " + ("SAME" if py == sc else "DIFFERENT"))


ATTRS = False
show("x = f\"{a!r}\"\n")
show("print(f\"value: {a!s:>10}\")\n")
