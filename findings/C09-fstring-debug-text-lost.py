"""C09: the self-documenting form f"{expr=}" loses the 'expr=' text on Python 3.12.

scenic.gram: fstring_replacement_field sets conversion 'r' when '=' is present but never adds the
Constant holding the expression text that CPython inserts before the FormattedValue.
Signature: 'JoinedStr|values[len]'."""
import ast, sys, warnings
warnings.simplefilter("ignore")
from scenic.syntax.parser import parse_string
from scenic.syntax.compiler import compileScenicAST


def scenic_tree(src):
    return compileScenicAST(parse_string(src, "exec", filename="<string>"))[0]


def show(src):
    print("source:", repr(src))
    try:
        sc = ast.dump(scenic_tree(src).body[-1], include_attributes=ATTRS)
    except Exception as e:
        sc = f"{type(e).__module__}.{type(e).__name__}: {e}"
    try:
        py = ast.dump(ast.parse(src).body[-1], include_attributes=ATTRS)
    except SyntaxError as e:
        py = f"SyntaxError: {e}"
    print("  CPython:", py)
    print("  Scenic :", sc)
    print("  " + ("SAME" if py == sc else "DIFFERENT"))


ATTRS = False
show("x = f\"{q=}, {a = }\"\n")
