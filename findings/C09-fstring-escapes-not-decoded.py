"""C09: escape sequences in the literal parts of an f-string are not decoded on Python 3.12.

scenic.gram: fstring_mid / fstring_format_spec build ast.Constant(value=t.string) from the raw
FSTRING_MIDDLE token text, so f"{a}\n" ends with a backslash and an 'n' instead of a newline.
Signature: 'fstring-literal-part|value'."""
import ast, sys, warnings
warnings.simplefilter("ignore")
from scenic.syntax.parser import parse_string
from scenic.syntax.compiler import compileScenicAST


def scenic_tree(src):
    return compileScenicAST(parse_string(src, "exec", filename="<string>"))[0]


def show(src):
    print("source:", repr(src))
    try:
        sc = ast.dump(scenic_tree(src).body[-1], include_attributes=ATTRS)
    except Exception as e:
        sc = f"{type(e).__module__}.{type(e).__name__}: {e}"
    try:
        py = ast.dump(ast.parse(src).body[-1], include_attributes=ATTRS)
    except SyntaxError as e:
        py = f"SyntaxError: {e}"
    print("  CPython:", py)
    print("  Scenic :", sc)
    print("  " + ("SAME" if py == sc else "DIFFERENT"))


ATTRS = False
show("x = f\"? {a}\\n\"\n")
show("x = f\"\\t{a:\\n}\"\n")
ns = {}
exec(compile(scenic_tree("a = 1\nx = f\"{a}\\n\"\n"), "<s>", "exec"), ns)
print("value computed by the Scenic-compiled code:", repr(ns["x"]), "(CPython: \x27" + "1\\n" + "\x27)")
