"""C09: end_col_offset of implicitly concatenated string literals is taken from the first part.

scenic.gram: _concat_strings_in_constant uses end_col_offset=parts[0].end[1] (end_lineno is taken
from parts[-1]); an f-string followed by plain literals inherits the wrong end as well.
Signatures: 'Constant:implicit-concatenation|end_col_offset',
'JoinedStr:implicit-concatenation|end_col_offset'."""
import ast, sys, warnings
warnings.simplefilter("ignore")
from scenic.syntax.parser import parse_string
from scenic.syntax.compiler import compileScenicAST


def scenic_tree(src):
    return compileScenicAST(parse_string(src, "exec", filename="<string>"))[0]


def show(src):
    print("source:", repr(src))
    try:
        sc = ast.dump(scenic_tree(src).body[-1], include_attributes=ATTRS)
    except Exception as e:
        sc = f"{type(e).__module__}.{type(e).__name__}: {e}"
    try:
        py = ast.dump(ast.parse(src).body[-1], include_attributes=ATTRS)
    except SyntaxError as e:
        py = f"SyntaxError: {e}"
    print("  CPython:", py)
    print("  Scenic :", sc)
    print("  " + ("SAME" if py == sc else "DIFFERENT"))


ATTRS = True
show("x = (\"a\"\n     \"bcdef\")\n")
show("x = (f\"{a}\"\n     \"bcdef\")\n")
