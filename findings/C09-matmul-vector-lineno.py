"""C09: the call generated for  X @ Y  carries the location of its enclosing node, not its own line.

compiler.py: visit_VectorOp returns ast.Call(...) without ast.copy_location, so
fix_missing_locations gives it the parent's lineno: in a multi-line expression a run-time error in
the vector constructor is reported on the wrong line.
Signature: 'BinOp:MatMult->vector|line-numbers'."""
import ast, sys, warnings
warnings.simplefilter("ignore")
from scenic.syntax.parser import parse_string
from scenic.syntax.compiler import compileScenicAST


def scenic_tree(src):
    return compileScenicAST(parse_string(src, "exec", filename="<string>"))[0]


def show(src):
    print("source:", repr(src))
    try:
        sc = ast.dump(scenic_tree(src).body[-1], include_attributes=ATTRS)
    except Exception as e:
        sc = f"{type(e).__module__}.{type(e).__name__}: {e}"
    try:
        py = ast.dump(ast.parse(src).body[-1], include_attributes=ATTRS)
    except SyntaxError as e:
        py = f"SyntaxError: {e}"
    print("  CPython:", py)
    print("  Scenic :", sc)
    print("  " + ("SAME" if py == sc else "DIFFERENT"))


ATTRS = True
show("x = (1 +\n     a @ b)\n")
t = scenic_tree("x = (1 +\n     a @ b)\n")
call = [n for n in ast.walk(t) if isinstance(n, ast.Call)][0]
print("the `a @ b` on line 2 became a call with lineno", call.lineno)
