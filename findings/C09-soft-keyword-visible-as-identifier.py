"""C09: the soft keyword `visible` used as a plain Python identifier is silently parsed as the Scenic operator.

docs/reference/general.rst lists `visible` among the soft keywords that "are still available for
use as identifiers" and says using them "inside pure-Python helper functions is fine".  But
`visible[0]`, `visible(0)`, `visible + 1` and `not visible[0]` are compiled to
Visible([0]) / Visible(0) / Visible(+1) / NotVisible([0]) in any context, without any error
(met in matplotlib/tests/test_subplots.py: check(axs, visible['x'][xo], ...)).
Signature: 'soft-keyword-as-identifier:visible|type->Call'."""
import ast, warnings
warnings.simplefilter("ignore")
from scenic.syntax.parser import parse_string
from scenic.syntax.compiler import compileScenicAST

for src in ("def helper(visible):\n    return visible[0]\n", "y = visible(0)\n", "y = visible + 1\n",
            "y = not visible[0]\n", "y = visible.x\n"):
    tree = compileScenicAST(parse_string(src, "exec", filename="<string>"))[0]
    a, b = ast.dump(ast.parse(src).body[-1]), ast.dump(tree.body[-1])
    print(repr(src), "same" if a == b else "DIFFERENT")
    if a != b:
        print("   CPython:", a[:200])
        print("   Scenic :", b[:200])
