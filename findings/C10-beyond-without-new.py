"""C10: `Object beyond A by B` (instance creation without `new`) crashes with AttributeError.

scenic.gram: the beyond specifier is built as s.BeyondSpecifier(position=v, offset=o, base=b) without
LOCATIONS; invalid_scenic_instance_creation then reports 'Perhaps you forgot new?' over the range of
the specifiers and reads .end_lineno of that node.
Signature: 'stageA|AttributeError@syntax/parser.py:raise_syntax_error_known_range'."""
import warnings
warnings.simplefilter("ignore")
import scenic
from scenic.core.errors import ScenicSyntaxError


def attempt(src):
    print("program:", repr(src))
    try:
        scenic.scenarioFromString(src)
        print("  compiled")
    except ScenicSyntaxError as e:
        print(f"  located Scenic syntax error (line {e.lineno}): {e}")
    except Exception as e:
        print(f"  INTERNAL ERROR ESCAPES: {type(e).__module__}.{type(e).__name__}: {e}")


attempt("x = Object beyond 3 by 4\n")
attempt("x = Object with foo 3\n")  # for comparison: properly reported
