"""C10 (also C09): an empty tuple/list as assignment, for, with or del target crashes after parsing.

scenic.gram: star_atom and del_t_atom build ast.Tuple(elts=a, ...) / ast.List(elts=a, ...) where
`a` is None for `()` / `[]`, so the valid Python statements  () = f()   [] = x   del ()
for () in x: ...  produce a tree with elts=None; ast.unparse (translator.astToSource) and compile()
then raise TypeError.
Signatures: 'stageA|TypeError@syntax/translator.py:astToSource:object of type Q has no len()',
'stageA|TypeError@syntax/translator.py:astToSource:Q object is not iterable'."""
import warnings
warnings.simplefilter("ignore")
import scenic
from scenic.core.errors import ScenicSyntaxError


def attempt(src):
    print("program:", repr(src))
    try:
        scenic.scenarioFromString(src)
        print("  compiled")
    except ScenicSyntaxError as e:
        print(f"  located Scenic syntax error (line {e.lineno}): {e}")
    except Exception as e:
        print(f"  INTERNAL ERROR ESCAPES: {type(e).__module__}.{type(e).__name__}: {e}")


attempt("x = []\n[] = x\n")
attempt("x = ()\n() = x\n")
attempt("del ()\n")
attempt("for () in [()]:\n    pass\n")
