"""C10: a syntax error whose span crosses a blank line inside brackets crashes with KeyError.

scenic.gram: _build_syntax_error asks the tokenizer for every line of the span
(self._tokenizer.get_lines(range(start, end + 1))); pegen's tokenizer keeps no entry for blank
lines inside a bracketed expression.  Signature: 'stageA|KeyError@syntax/parser.py:_build_syntax_error'."""
import warnings
warnings.simplefilter("ignore")
import scenic
from scenic.core.errors import ScenicSyntaxError


def attempt(src):
    print("program:", repr(src))
    try:
        scenic.scenarioFromString(src)
        print("  compiled")
    except ScenicSyntaxError as e:
        print(f"  located Scenic syntax error (line {e.lineno}): {e}")
    except Exception as e:
        print(f"  INTERNAL ERROR ESCAPES: {type(e).__module__}.{type(e).__name__}: {e}")


attempt("x = (d\n\nn)\n")
attempt("x = (d\nn)\n")  # for comparison: properly reported
