"""C10: walrus, annotated assignment and type alias on a local of a behavior/monitor/scenario crash in compile().

compiler.py: visit_Name rewrites every local variable of a behavior, monitor or scenario block into
an attribute of the behavior object, also where Python requires a plain Name (NamedExpr.target,
AnnAssign with simple=1, TypeAlias.name); compile() then raises TypeError, which
translator.compileTranslatedTree does not wrap (it only catches SyntaxError).
Signatures: 'stageA|TypeError@syntax/translator.py:compileTranslatedTree:NamedExpr target must be a Name',
'...:AnnAssign with simple non-Name target', '...:TypeAlias with non-Name name'."""
import warnings
warnings.simplefilter("ignore")
import scenic
from scenic.core.errors import ScenicSyntaxError


def attempt(src):
    print("program:", repr(src))
    try:
        scenic.scenarioFromString(src)
        print("  compiled")
    except ScenicSyntaxError as e:
        print(f"  located Scenic syntax error (line {e.lineno}): {e}")
    except Exception as e:
        print(f"  INTERNAL ERROR ESCAPES: {type(e).__module__}.{type(e).__name__}: {e}")


attempt("behavior B():\n    while (d := self.speed) < 5:\n        wait\n")
attempt("behavior B():\n    y: int = 3\n    wait\n")
attempt("scenario S():\n    setup:\n        type X = int\n        ego = new Object\n")
