"""C10: malformed number / string literals escape as raw Python exceptions located in the literal, not in the program.

scenic.gram calls ast.literal_eval(token.string) unguarded (atom, signed_number, ensure_real,
ensure_imaginary, _concat_strings_in_constant): SyntaxError('<unknown>', line 1) escapes for 05,
"\\x", b"\u00e9"; mixing bytes and str literals gives TypeError, bytes next to an f-string gives
ValueError from ast.unparse.  None is a ScenicSyntaxError and none names the right line.
Signatures: 'stageA|SyntaxError@syntax/parser.py:atom', '...:signed_number',
'stageA|SyntaxError@syntax/parser.py:_concat_strings_in_constant',
'stageA|TypeError@syntax/parser.py:_concat_strings_in_constant',
'stageA|ValueError@syntax/translator.py:astToSource:Unexpected node inside JoinedStr, N'."""
import warnings
warnings.simplefilter("ignore")
import scenic
from scenic.core.errors import ScenicSyntaxError


def attempt(src):
    print("program:", repr(src))
    try:
        scenic.scenarioFromString(src)
        print("  compiled")
    except ScenicSyntaxError as e:
        print(f"  located Scenic syntax error (line {e.lineno}): {e}")
    except Exception as e:
        print(f"  INTERNAL ERROR ESCAPES: {type(e).__module__}.{type(e).__name__}: {e}")


attempt("ego = new Object\n\nx = 05\n")
attempt('ego = new Object\n\nx = "\\x"\n')
attempt("x = b\"\u00e9\"\n")
attempt("x = \"a\" b\"b\"\n")
attempt("x = b\"a\" f\"{x}\"\n")
attempt("match x:\n    case -05:\n        pass\n")
