"""C10 (stage C): the reference shows  record *value* [every ..] [after ..] [as *name*] [to *recorder*]  but as+to together is rejected.

docs/reference/statements.rst shows both clauses as independently optional and does not say they
exclude each other; compiler.py visit_Record raises: cannot use both "as" and "to".
Signature: 'stageC:statements:record *value* [every *duration*] [after *duration*] [as *na|documented-form-rejected'."""
import warnings
warnings.simplefilter("ignore")
import scenic
from scenic.core.errors import ScenicSyntaxError


def attempt(src):
    print("program:", repr(src))
    try:
        scenic.scenarioFromString(src)
        print("  compiled")
    except ScenicSyntaxError as e:
        print(f"  located Scenic syntax error (line {e.lineno}): {e}")
    except Exception as e:
        print(f"  INTERNAL ERROR ESCAPES: {type(e).__module__}.{type(e).__name__}: {e}")


attempt("record 3 as n to \"out.mp4\"\n")
attempt("record 3 as n\n")
attempt("record 3 to \"out.mp4\"\n")
