"""C10: require[p] with a hexadecimal / binary / imaginary literal crashes with ValueError.

scenic.gram, scenic_require_stmt: the probability is computed as float(a.string) for any NUMBER
token.  Signature: 'stageA|ValueError@syntax/parser.py:_tmp'."""
import warnings
warnings.simplefilter("ignore")
import scenic
from scenic.core.errors import ScenicSyntaxError


def attempt(src):
    print("program:", repr(src))
    try:
        scenic.scenarioFromString(src)
        print("  compiled")
    except ScenicSyntaxError as e:
        print(f"  located Scenic syntax error (line {e.lineno}): {e}")
    except Exception as e:
        print(f"  INTERNAL ERROR ESCAPES: {type(e).__module__}.{type(e).__name__}: {e}")


attempt("require[0x10] x\n")
attempt("require[1j] x\n")
attempt("require[x] y\n")  # for comparison: properly reported
