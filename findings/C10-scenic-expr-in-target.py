"""C10: a Scenic-only expression in an assignment / del / for / with target position crashes the parser.

scenic.gram: get_expr_name() looks the node type up in EXPR_NAME_MAPPING and raises ValueError for
anything else; Scenic AST nodes (New, DegOp, PositionOfOp, RelativeToOp, ...) are not in the table,
so the invalid_* rules that want to say 'cannot assign to ...' die with
ValueError('unexpected expression in assignment New (line 1).').
Signature: 'stageA|ValueError@syntax/parser.py:get_expr_name'."""
import warnings
warnings.simplefilter("ignore")
import scenic
from scenic.core.errors import ScenicSyntaxError


def attempt(src):
    print("program:", repr(src))
    try:
        scenic.scenarioFromString(src)
        print("  compiled")
    except ScenicSyntaxError as e:
        print(f"  located Scenic syntax error (line {e.lineno}): {e}")
    except Exception as e:
        print(f"  INTERNAL ERROR ESCAPES: {type(e).__module__}.{type(e).__name__}: {e}")


attempt("new Object = 3\n")
attempt("for 3 deg in x:\n    pass\n")
attempt("del (front of ego)\n")
attempt("with a as (x relative to y):\n    pass\n")
attempt("4 = 2\n")  # for comparison: a Python expression is reported properly
