"""C10: a temporal operator nested in a conditional expression of a requirement crashes with AssertionError.

scenic.gram accepts  require always x if y else z  (scenic_temporal_expression has an IfExp
alternative over scenic_until); compiler.py PropositionTransformer only descends through
and/or/not/implies/until, so the Always/Next/UntilOp node inside the IfExp reaches
ScenicToPythonTransformer.generic_visit: assert False, 'Scenic AST node "Always" needs visitor'.
Signature: 'stageA|AssertionError@syntax/compiler.py:generic_visit'."""
import warnings
warnings.simplefilter("ignore")
import scenic
from scenic.core.errors import ScenicSyntaxError


def attempt(src):
    print("program:", repr(src))
    try:
        scenic.scenarioFromString(src)
        print("  compiled")
    except ScenicSyntaxError as e:
        print(f"  located Scenic syntax error (line {e.lineno}): {e}")
    except Exception as e:
        print(f"  INTERNAL ERROR ESCAPES: {type(e).__module__}.{type(e).__name__}: {e}")


attempt("require always x if y else z\n")
attempt("require x until y if a else b\n")
attempt("require always (x and y)\n")  # for comparison
