"""C11 finding: a temporal `require` executed inside a compose block is never monitored
(sub-scenario) or crashes (top-level scenario).

veneer.require -> DynamicScenario._addDynamicRequirement appends to self._temporalRequirements,
but the monitors actually checked (`_requirementMonitors`) were built from that list once, in
DynamicScenario._start (src/scenic/core/dynamics/scenarios.py:195 / :443-446).  A requirement
added while the scenario is running therefore has no effect; for the top-level scenario
`_temporalRequirements` is the scene's *tuple* (line 138) and `.append` raises AttributeError.
"""
import scenic
from scenic.core.simulators import DummySimulator

SUB = """
scenario Sub():
    compose:
        require always False          # can never hold
        wait for 2 steps
scenario Main():
    setup:
        ego = new Object
    compose:
        do Sub()
"""
TOP = """
scenario Main():
    setup:
        ego = new Object
    compose:
        require eventually simulation().currentTime == 1
        wait for 3 steps
"""
for name, prog in (("sub-scenario compose, `require always False`", SUB),
                   ("top-level compose, `require eventually t == 1`", TOP)):
    scene, _ = scenic.scenarioFromString(prog).generate(maxIterations=1)
    try:
        sim = DummySimulator().simulate(scene, maxSteps=5, maxIterations=1)
        print(f"{name}: {'ACCEPTED' if sim is not None else 'rejected'}")
    except Exception as e:
        print(f"{name}: raised {type(e).__name__}: {e}")
print("expected: first rejected, second accepted")
