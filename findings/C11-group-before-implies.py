"""C11 finding: a parenthesised temporal formula cannot be the hypothesis of `implies`
(nor be followed by `as name`).

grammar rule scenic_temporal_group (src/scenic/syntax/scenic.gram:1711) only matches when the
token after ')' is one of  until | or | and | ) | ; | NEWLINE.  `implies` (and `as`) are missing,
so `(always A) implies B` -- the very example of docs/reference/statements.rst ("require
(always A) implies B requires that if A is true at every time step, then B must be true at time
step zero") -- falls back to an ordinary Python parenthesised expression and is a syntax error.
Since `always A implies B` means always (A implies B), there is no other way to write it.
"""
import scenic

for req in ("(always x > 0) implies y > 0", "(x > 0 until y > 0) implies y > 0",
            "(x > 0 implies y > 0) implies y > 0", "(always x > 0) as positive",
            "(always x > 0) or y > 0"):
    prog = f"x = 1\ny = 1\nego = new Object\nrequire {req}\n"
    try:
        scenic.scenarioFromString(prog)
        print(f"require {req:40s}: compiles")
    except Exception as e:
        print(f"require {req:40s}: {type(e).__name__}: {str(e).splitlines()[0]}")
print("expected: all five compile")
