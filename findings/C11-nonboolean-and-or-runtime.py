"""C11 finding: a `require X and Y` / `X or Y` without temporal operators that is executed during
a simulation combines its operands with the *bitwise* operators.

propositions.And.evaluate / Or.evaluate (src/scenic/core/propositions.py:184-185, 201-202) are
`reduce(operator.and_, [...], True)` / `reduce(operator.or_, [...], False)`.  With truthy
operands that are not bool this is not Boolean `and`/`or`: 1 & 2 == 0 (rejected), True & 'x'
raises TypeError out of simulate().  The monitor path (same condition under a temporal operator,
or at top level) uses truth values, so the two disagree on the same condition.
"""
import scenic
from scenic.core.simulators import DummySimulator

PROG = """
behavior B():
    x, y, s = 1, 2, 'x'
    require {F}
    take 1
ego = new Object with behavior B
"""
for f in ("x and y", "always (x and y)", "s or x", "x and s"):
    scene, _ = scenic.scenarioFromString(PROG.format(F=f)).generate(maxIterations=1)
    try:
        sim = DummySimulator().simulate(scene, maxSteps=2, maxIterations=1, verbosity=0)
        print(f"require {f:18s}:", "accepted" if sim is not None else "REJECTED")
    except Exception as e:
        print(f"require {f:18s}: raised {type(e).__name__}: {e}")
print("expected: all accepted (1 and 2, 'x' or 1, 1 and 'x' are all true in Python)")
