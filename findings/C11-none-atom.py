"""C11 finding: an atomic condition that evaluates to None (falsy) desynchronises the monitor.

rv_ltl's AtomicMonitor._update_internal only appends values that are `not None`
(site-packages/rv_ltl/monitor.py) and PropositionMonitor.update passes the raw value of the
condition through (src/scenic/core/propositions.py:18-29).  The atom's history then has one
entry less than the number of steps: the next evaluation raises IndexError out of
Simulator.simulate / Scenario.generate, or -- when a later value fills the gap -- the values are
read one position too early and the verdict is wrong.  Typical sources of None: `dict.get`,
`re.match`, a function falling off its end.
"""
import scenic
from scenic.core.simulators import DummySimulator

PROG = """
import scenic.syntax.veneer as _v
def val():
    t = _v.currentSimulation.currentTime if _v.currentSimulation else 0
    return TRACE[t]
TRACE = {T}
ego = new Object
require {F}
"""
for f, trace, expected in (("always val()", [True, None, True], "rejected"),
                           ("next (not val())", [True, None, True], "accepted"),
                           ("(not val()) until val()", [None, 0, 1, 0], "accepted"),
                           ("eventually val()", [None, 0, 0, 0], "rejected")):
    try:
        scene, _ = scenic.scenarioFromString(PROG.format(T=trace, F=f)).generate(maxIterations=1)
        sim = DummySimulator().simulate(scene, maxSteps=len(trace) - 1, maxIterations=1,
                                        verbosity=0)
        got = "accepted" if sim is not None else "rejected"
    except Exception as e:
        got = f"raised {type(e).__name__}: {e}"
    print(f"require {f:24s} trace {str(trace):22s}: {got}   (expected: {expected})")
