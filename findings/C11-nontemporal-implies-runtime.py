"""C11 finding: `require A implies B` without temporal operators crashes when executed at run time.

propositions.Implies defines no `evaluate` (src/scenic/core/propositions.py:221-233, compare
And/Or/Not), so veneer.require's run-time branch (`req.evaluate()`, veneer.py:766) falls through to
PropositionNode.evaluate, which raises RuntimeError("This proposition contains temporal
operators ...") although the formula has none.  Hit by any `require X implies Y` in a behavior,
monitor, compose block, or the setup block of a scenario invoked with `do`.
"""
import scenic
from scenic.core.simulators import DummySimulator

PROG = """
behavior B():
    require True implies True
    take 1
ego = new Object with behavior B
"""
scene, _ = scenic.scenarioFromString(PROG).generate(maxIterations=1)
try:
    sim = DummySimulator().simulate(scene, maxSteps=2, maxIterations=1)
    print("accepted" if sim is not None else "rejected")
except Exception as e:
    print(f"raised {type(e).__name__}: {e}")
print("expected: accepted (`not True or True` in the same place is)")
