"""C11 finding: `until` nested under a temporal operator is evaluated on the wrong index range.

rv_ltl (third-party, /venv/lib/python3.12/site-packages/rv_ltl/monitor.py, UntilMonitor._evaluate_at)
checks the left operand on `range(i, min(i + k, self._last_index))` instead of `range(i, k)`.
For i == 0 both coincide; for i > 0 (until below next/always/eventually/until) the left operand
is also demanded at and after the step where the right operand became true.

Trace (steps 0..2):  a = F F F,  b = F T F.   `next (a until b)` holds: at step 1 b is true.
Scenic rejects the simulation; the un-nested `a until b` on the same trace shifted by one step
is accepted.
"""
import scenic
from scenic.core.simulators import DummySimulator

A = [False, False, False, False]
B = [False, True, False, False]
PROG = """
import scenic.syntax.veneer as _v
def now():   # current step; 0 while the initial scene is checked
    return _v.currentSimulation.currentTime if _v.currentSimulation else 0
A = {A}
B = {B}
ego = new Object
require {F}
"""


def run(formula, a, b, steps):
    sc = scenic.scenarioFromString(PROG.format(A=a, B=b, F=formula))
    scene, _ = sc.generate(maxIterations=1)
    sim = DummySimulator().simulate(scene, maxSteps=steps, maxIterations=1)
    return "accepted" if sim is not None else "REJECTED"


now = "now()"
print("next (a until b), a=FFF b=FTF :", run(f"next (A[{now}] until B[{now}])", A, B, 2),
      "  (expected: accepted)")
print("a until b on the shifted trace  :", run(f"A[{now}] until B[{now}]", A[1:], B[1:], 1),
      "  (expected: accepted)")
print("always (a until b), a=TFF b=FTT :",
      run(f"always (A[{now}] until B[{now}])", [True, False, False, False],
          [False, True, True, True], 2), "  (expected: accepted)")
