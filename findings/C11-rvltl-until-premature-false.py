"""C11 finding: `until` whose right operand contains a temporal operator can be rejected early
although the formula is satisfied by how the simulation continues.

rv_ltl (third-party, site-packages/rv_ltl/monitor.py, UntilMonitor._evaluate_at) takes the *first
position k whose right operand is currently truthy* and returns FALSE if the left operand failed
before k -- ignoring earlier positions whose right operand is only PRESUMABLY_FALSE and may still
become true (the code comment says "take the best value among all k", the code returns at the
first).  Scenic rejects a simulation as soon as a monitor says FALSE
(src/scenic/core/dynamics/scenarios.py:234-238), so the run is thrown away.

    require a until (a or eventually b)      a = F T F,  b = F F T
At step 0 the right operand already holds (b eventually becomes true), so the formula is
satisfied whatever `a` does.  At step 1 the monitor sees: right operand at 0 "presumably false",
at 1 true, left operand false at 0  ->  FALSE  ->  simulation rejected in step 1.
"""
import scenic
from scenic.core.simulators import DummySimulator

PROG = """
import scenic.syntax.veneer as _v
def now():   # current step; 0 while the initial scene is checked
    return _v.currentSimulation.currentTime if _v.currentSimulation else 0
A = [False, True, False, False]
B = [False, False, True, False]
ego = new Object
require {F}
"""
for f in ("A[now()] until (A[now()] or eventually B[now()])",
          "(A[now()] or eventually B[now()])"):
    scene, _ = scenic.scenarioFromString(PROG.format(F=f)).generate(maxIterations=1)
    sim = DummySimulator().simulate(scene, maxSteps=2, maxIterations=1, verbosity=0)
    print(f"require {f:50s}:", "accepted" if sim is not None else "REJECTED")
print("expected: both accepted (the second is the right operand alone: true at step 0, "
      "which makes the `until` true at step 0)")
