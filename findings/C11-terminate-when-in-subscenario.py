"""Side finding met while building C11 (belongs to C12: where simulations stop):
`terminate when C` in the setup of a scenario invoked with `do` acts as `require always C`.

veneer.makeRequirement's run-time branch (veneer.py:898-899) sends *every* requirement type to
DynamicScenario._addDynamicRequirement, which files it under _temporalRequirements whatever its
type (dynamics/scenarios.py:443-446); it never reaches _terminationConditions.  So the
sub-scenario is rejected in the first step where C is false and never terminated when C is true.
tests/syntax/test_modular.py::test_subscenario_terminate_when expects a rejection for another
reason and passes by accident.
"""
import scenic
from scenic.core.simulators import DummySimulator

PROG = """
scenario Sub():
    setup:
        terminate when simulation().currentTime >= {N}
    compose:
        while True:
            wait
scenario Main():
    setup:
        ego = new Object
    compose:
        do Sub()
        wait
"""
for n in (2, 0):
    scene, _ = scenic.scenarioFromString(PROG.format(N=n)).generate(maxIterations=1)
    sim = DummySimulator().simulate(scene, maxSteps=6, maxIterations=1)
    print(f"terminate when t >= {n}:",
          "rejected" if sim is None else f"accepted, ran {sim.currentTime} steps")
print("expected: accepted, ran 3 steps (Sub ends in step 2, Main waits once); accepted, ran 1 step")
