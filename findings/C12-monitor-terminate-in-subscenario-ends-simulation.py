"""C12 finding: `terminate` executed by a monitor that was instantiated in a *sub-scenario* ends
the whole simulation (terminationType terminatedByMonitor).

docs/reference/dynamic_scenarios.rst step 3: "If it executes terminate, stop the scenario which
instantiated it as in step (1e) above.  If it executes terminate simulation, set the termination
flag"; statements.rst, terminate: "if this statement is used in a modular scenario which was
invoked from another scenario, only the current scenario will end, not the entire simulation."

Root cause: scenic/core/dynamics/scenarios.py:393-399 (DynamicScenario._runMonitors) returns
`terminationReason or endScenario`; the parent scenario treats any non-None value returned by a
sub-scenario as a reason to terminate the simulation (lines 394-396), and Simulation._run
(simulators.py:448-451) then stops with terminatedByMonitor.
"""
import scenic
from scenic.core.simulators import DummySimulator

src = """
monitor StopSub():
    wait
    terminate                      # at step 1: ends Sub only
scenario Main():
    setup:
        ego = new Object
    compose:
        do Sub()
        wait
        wait
        wait
scenario Sub():
    setup:
        new Object at (10, 0)
        require monitor StopSub()
"""
scene, _ = scenic.scenarioFromString(src, scenario="Main").generate()
sim = DummySimulator().simulate(scene, maxSteps=10)
r = sim.result
print("observed  : ended at step", sim.currentTime, "with", r.terminationType.name)
print("documented: Sub ends at step 1, Main waits 3 more steps and completes at step 5 with "
      "scenarioComplete")
bad = (sim.currentTime, r.terminationType.name) != (5, "scenarioComplete")
print("DEFECT REPRODUCED" if bad else "not reproduced")
