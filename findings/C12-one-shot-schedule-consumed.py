"""C12 finding: `Simulation.scheduleForAgents` is documented to return "An iterable which is a
permutation of self.agents".  When a simulator interface returns a one-shot iterable (an
iterator / generator), Simulation._run uses it up while validating it
(scenic/core/simulators.py:482-484: `set(self.agents) == set(schedule)`) and the following
`for agent in schedule` loop runs *no behaviour at all*: every agent silently takes no action
in every step.
"""
import scenic
from scenic.core.simulators import DummySimulation, DummySimulator


class Sim(DummySimulation):
    def scheduleForAgents(self):
        return iter(list(reversed(self.agents)))


class Simulator(DummySimulator):
    def createSimulation(self, scene, **kw):
        return Sim(scene, **kw)


src = """
behavior B(k):
    while True:
        take k
ego = new Object with behavior B(1)
new Object at (10, 0), with behavior B(2)
"""
scene, _ = scenic.scenarioFromString(src).generate()
sim = Simulator().simulate(scene, maxSteps=2)
got = [sorted(v for v in step.values()) for step in sim.result.actions]
print("observed actions per step  :", got)
print("documented actions per step:", [[(1,), (2,)], [(1,), (2,)]])
print("DEFECT REPRODUCED" if got != [[(1,), (2,)], [(1,), (2,)]] else "not reproduced")
