"""C12 finding: `terminate when`, `terminate simulation when`, `record`, `record initial` and
`record final` written in the setup block of a sub-scenario (one started with `do` while the
simulation runs) are registered as *temporal requirements*.

docs/reference/statements.rst, "terminate when": "If this statement is used in a modular
scenario which was invoked from another scenario, only the current scenario will end, not the
entire simulation."  Observed instead: the condition is evaluated once when the sub-scenario
starts; if it is false the *simulation is rejected*, if it is true nothing happens (the
sub-scenario is never terminated by it); `record` statements never produce a record.

Root cause: scenic/syntax/veneer.py makeRequirement(): when currentSimulation is not None every
requirement-like statement goes to DynamicScenario._addDynamicRequirement (scenarios.py:443),
which appends it to _temporalRequirements whatever its RequirementType is.
"""
import scenic
from scenic.core.simulators import DummySimulator


def run(stmt, maxSteps=6):
    src = f"""
scenario Main():
    setup:
        ego = new Object
    compose:
        do Sub()
        wait
        wait
scenario Sub():
    setup:
        new Object at (10, 0)
        {stmt}
        terminate after 3 steps
"""
    scene, _ = scenic.scenarioFromString(src, scenario="Main").generate()
    sim = DummySimulator().simulate(scene, maxSteps=maxSteps)
    if sim is None:
        return "REJECTED"
    return f"ended at step {sim.currentTime}, records={dict(sim.result.records)}"


bad = 0
# Sub should end at step 2 (then Main waits 2 steps: simulation ends at step 4)
r = run("terminate when simulation().currentTime == 2")
print("terminate when t == 2       ->", r, "   [documented: ended at step 4]")
bad += r != "ended at step 4, records={}"
# condition true at once: Sub should end at step 0 -> simulation ends at step 2
r = run("terminate when simulation().currentTime <= 2")
print("terminate when t <= 2       ->", r, "   [documented: ended at step 2]")
bad += not r.startswith("ended at step 2")
r = run("terminate simulation when simulation().currentTime == 2")
print("terminate simulation when   ->", r, "   [documented: ended at step 2]")
bad += not r.startswith("ended at step 2")
r = run("record simulation().currentTime as st")
print("record t as st              ->", r, "   [documented: a time series 'st']")
bad += "st" not in r
r = run("record simulation().currentTime + 1 as st")
print("record t+1 as st            ->", r, "   [documented: a time series 'st']")
bad += "'st'" not in r
print("DEFECT REPRODUCED" if bad else "not reproduced")
