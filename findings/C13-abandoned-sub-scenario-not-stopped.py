"""C13 finding: a sub-scenario started with `do` under a block of a try-interrupt statement in a
compose block is not stopped when the statement is abandoned (a handler executes `abort`,
`break`, `continue` or `return`).  It is never stepped again (its compose block, its
`terminate after` limit no longer advance) but it stays registered as running: its monitors keep
running (and can reject or terminate the simulation), until the parent starts its next `do`.

C13: "sub-behaviours started under a block that is abandoned are stopped"; for sub-behaviours
Behavior._invokeInner does this in a `finally`, and `do ... until/for` stops its sub-scenarios
explicitly; docs/reference/statements.rst: `abort` "terminate[s] the current try-interrupt
statement", and a `do` "does not return until all invoked sub-behaviors/scenarios have completed"
-- after the statement has terminated nothing documented keeps half of a scenario alive.

Root cause: scenic/core/dynamics/scenarios.py DynamicScenario._invokeInner has no clean-up when
the generator it runs in is abandoned; runTryInterrupt (invocables.py) just drops the block.
"""
import scenic
from scenic.core.simulators import DummySimulator

LOG = []
src = """
import __main__ as host
monitor M():
    while True:
        host.LOG.append(simulation().currentTime)
        wait
scenario Sub():
    setup:
        require monitor M()
scenario Main():
    setup:
        ego = new Object
    compose:
        try:
            do Sub()
        interrupt when simulation().currentTime == 2:
            abort
        while True:
            wait
"""
scene, _ = scenic.scenarioFromString(src, scenario="Main").generate()
DummySimulator().simulate(scene, maxSteps=6)
print("steps at which the monitor of Sub ran:", LOG)
print("documented (Sub abandoned at step 2) : [0, 1]")
print("DEFECT REPRODUCED" if LOG != [0, 1] else "not reproduced")
