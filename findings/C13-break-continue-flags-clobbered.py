"""C13 finding (listed in DESIGN 1.7): ScenicToPythonTransformer.usedBreak / usedContinue are
one pair of attributes for the whole compilation.  visit_TryInterrupt (scenic/syntax/
compiler.py:643-644) clears them when it starts and never restores them, so a nested
try-interrupt statement (a) wipes what the enclosing statement has seen so far and (b) leaks
what it has seen itself.

(a) a `break` in a handler is lost when a later handler contains a nested try-interrupt;
(b) a legal `break` of an inner statement (it leaves a loop *inside* the outer handler) makes the
    outer statement fail to compile: "'break' outside loop".
"""
import scenic
from scenic.core.simulators import DummySimulator


def actions(src, n):
    scene, _ = scenic.scenarioFromString(src).generate()
    sim = DummySimulator().simulate(scene, maxSteps=n)
    return [list(a.values())[0] for a in sim.result.actions]


A = """
behavior Foo():
    while True:
        try:
            take 1
            take 1
        interrupt when simulation().currentTime == 1:
            take 2
            break                     # must leave the while loop: nothing is done afterwards
        interrupt when simulation().currentTime == 99:
            try:
                take 5
            interrupt when False:
                take 6
ego = new Object with behavior Foo
"""
got = actions(A, 4)
print("(a)", got, "  [documented: [(1,), (2,), (), ()]]")
bad = got != [(1,), (2,), (), ()]

B = """
behavior Foo():
    try:
        take 1
    interrupt when simulation().currentTime == 0:
        for i in range(2):
            try:
                take 2
            interrupt when simulation().currentTime == 1:
                take 3
                break                 # legal: leaves the for loop above
    take 4
ego = new Object with behavior Foo
"""
try:
    got = actions(B, 4)
    print("(b)", got)
except Exception as e:
    print("(b) does not compile:", type(e).__name__, e, "  [documented: a legal program]")
    bad = True
print("DEFECT REPRODUCED" if bad else "not reproduced")
