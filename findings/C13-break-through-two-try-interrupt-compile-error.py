"""C13 finding: a `break` / `continue` that has to cross two try-interrupt statements to reach
its loop cannot be compiled ("'break' outside loop"), although the program is legal (the
statement is lexically inside the loop, exactly as in test_interrupt_break).

Root cause: scenic/syntax/compiler.py:700-707.  The inner statement is followed by the generated
`if result is BREAK: break`; that `break` is emitted inside the block function of the outer
statement (not inside a loop of that function) and is not translated into `return BREAK` again,
nor is the outer statement told that it has to honour a break.
"""
import scenic

src = """
behavior Foo():
    while True:
        take 1
        try:
            take 2
        interrupt when simulation().currentTime == 1:
            try:
                take 3
            interrupt when simulation().currentTime == 2:
                take 4
                break          # leaves the while loop
ego = new Object with behavior Foo
"""
try:
    scenic.scenarioFromString(src)
    print("compiles: not reproduced")
except Exception as e:
    print("does not compile:", type(e).__name__, e)
    print("DEFECT REPRODUCED")
