"""C13 finding (same area and fix as C13-abandoned-sub-scenario-not-stopped): a scenario keeps ONE
list `_subScenarios`, which every `do` in its compose block replaces
(scenic/core/dynamics/scenarios.py, DynamicScenario._invokeInner).  When a `do Sub()` in the try
block is pre-empted and the interrupt handler itself executes a `do`, the suspended `do Sub()`
finds the handler's (by then empty) list when it is resumed and returns at once: Sub is neither
continued nor stopped, and while it is suspended its monitors no longer run.

docs/reference/statements.rst (try-interrupt): "Once the interrupt handler is complete, control is
returned to the statement that was being executed under the try block"; C13: "a pre-empted block
later resumes exactly where it stopped".
"""
import scenic
from scenic.core.simulators import DummySimulator

LOG = []
src = """
import __main__ as host
monitor M(tag):
    while True:
        host.LOG.append((tag, simulation().currentTime))
        wait
scenario Sub():
    setup:
        require monitor M("sub")
        terminate after 4 steps
scenario Other():
    setup:
        require monitor M("other")
scenario Main():
    setup:
        ego = new Object
    compose:
        try:
            do Sub()
        interrupt when simulation().currentTime == 1:
            do Other() for 1 steps
        host.LOG.append(("after do Sub", simulation().currentTime))
        while True:
            wait
"""
scene, _ = scenic.scenarioFromString(src, scenario="Main").generate()
DummySimulator().simulate(scene, maxSteps=7)
print("observed  :", LOG)
print("documented: Sub is resumed at step 2 and runs on until its own time limit (step 4 or 5,")
print("            depending on whether the suspended step counts); its monitor runs meanwhile")
after = [t for tag, t in LOG if tag == "after do Sub"]
print("DEFECT REPRODUCED" if after and after[0] < 4 else "not reproduced")
