"""C13 finding: inside a try-interrupt statement (and therefore inside `do X for ...` and
`do X until ...`, which are compiled to one) the invariants of the *invoking* behaviour are
checked at every time step while the sub-behaviour runs.

docs/reference/statements.rst (behavior definition): invariants are checked at every time step
"while the behavior is executing (including time step zero, like preconditions, but *not*
including time spent inside sub-behaviors: this allows sub-behaviors to break and restore
invariants before they return)"; dynamic_scenarios.rst step 5a: "If the behavior is not
currently running a sub-behavior (with do), check its invariants".

Root cause: scenic/core/dynamics/invocables.py:188 (runTryInterrupt) calls
behavior.checkInvariants(...) after *every* yield that passes through the statement, also when
the yield came from a sub-behaviour running in the try block.
"""
import gc

import scenic
import scenic.syntax.veneer as veneer
from scenic.core.dynamics import GuardViolation
from scenic.core.simulators import DummySimulator


def run(body):
    src = f"""
behavior Sub():
    take 1
    take 2
    take 3
behavior Main():
    invariant: simulation().currentTime != 1    # broken while Sub runs, restored before it returns
{body}
    take 9
ego = new Object with behavior Main
"""
    scene, _ = scenic.scenarioFromString(src).generate()
    try:
        sim = DummySimulator().simulate(scene, maxSteps=5, raiseGuardViolations=True)
        r = [list(a.values())[0] for a in sim.result.actions]
    except GuardViolation as e:
        r = f"{type(e).__name__}: {e}"
    gc.collect()
    veneer.currentBehavior = None   # (left dirty by the failed run; not the point here)
    return r


want = [(1,), (2,), (3,), (9,), ()]
bad = 0
for body in ["    do Sub()",
             "    do Sub() for 3 steps",
             "    do Sub() until simulation().currentTime == 3",
             "    try:\n        do Sub()\n    interrupt when False:\n        wait"]:
    r = run(body)
    print(body.strip().replace("\n", " ; "), "->", r)
    bad += r != want
print("documented result in all four cases:", want)
print("DEFECT REPRODUCED" if bad else "not reproduced")
