"""C13 finding: a try-interrupt statement nested in a block of another one cannot be compiled
when it has more `interrupt when` clauses than every try-interrupt statement at the top level of
the behaviour: "no binding for nonlocal '_Scenic_interrupt_condition_1' found".

docs/reference/statements.rst explicitly allows nesting ("if try-interrupt statements are nested,
the outermost statement takes precedence ...").

Root cause: scenic/syntax/compiler.py:646-652 (makeInterruptBlock) declares every name assigned in
a block `nonlocal` so that the block shares the behaviour's locals; LocalFinder also returns the
compiler-generated names of a nested statement (`_Scenic_interrupt_condition_i`, ...), for which
the enclosing function has a binding only if one of its own statements has at least as many
clauses.
"""
import scenic

src = """
behavior Foo():
    try:
        take 1
    interrupt when simulation().currentTime == 1:
        try:
            take 2
        interrupt when simulation().currentTime == 2:
            take 3
        interrupt when simulation().currentTime == 3:
            take 4
ego = new Object with behavior Foo
"""
try:
    scenic.scenarioFromString(src)
    print("compiles: not reproduced")
except Exception as e:
    print("does not compile:", type(e).__name__, e)
    print("DEFECT REPRODUCED")
