"""C13 finding: `return` inside a try-interrupt statement that is itself nested in a block of
another try-interrupt statement does not end the behaviour; it only terminates the *enclosing*
try-interrupt statement (as `abort` would), and the behaviour goes on with the statements that
follow it.

docs/reference/statements.rst: "Behaviors end naturally when their body finishes executing (or
if they return): ... the agent performing the behavior will take no actions for the rest of the
scenario"; tests/syntax/test_dynamics.py::test_interrupt_return pins this for one level.

Root cause: scenic/syntax/compiler.py:708-712 appends to every statement
`if result is RETURN: return result.return_value`.  For a nested statement this code lives inside
the generated block function `_Scenic_interrupt_handler_i` / `_Scenic_interrupt_body` of the outer
statement, so it returns the plain value (None) from that function; runTryInterrupt
(invocables.py:180-185) sees a concluded block whose result is not a BlockConclusion and returns
it, and the outer statement's own RETURN test does not fire.
"""
import scenic
from scenic.core.simulators import DummySimulator

src = """
behavior Foo():
    try:
        take 1
        take 1
        take 1
    interrupt when simulation().currentTime == 1:
        try:
            take 2
            take 2
        interrupt when simulation().currentTime == 2:
            take 3
            return
    take 9
    take 9
ego = new Object with behavior Foo
"""
scene, _ = scenic.scenarioFromString(src).generate()
sim = DummySimulator().simulate(scene, maxSteps=6)
got = [list(a.values())[0] for a in sim.result.actions]
want = [(1,), (2,), (3,), (), (), ()]
print("observed  ", got)
print("documented", want)
print("DEFECT REPRODUCED" if got != want else "not reproduced")
