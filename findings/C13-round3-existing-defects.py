"""Reproducers for C13 violations present on the UNCHANGED worktree.

Exits 0 if both programs behave as documented, 1 otherwise (it exits 1 on the unchanged
tree).
"""

import random
import sys
import textwrap

import numpy

import scenic
from scenic.core.simulators import DummySimulator


def egoActions(code, maxSteps):
    random.seed(0)
    numpy.random.seed(0)
    scenario = scenic.scenarioFromString(textwrap.dedent(code))
    scene, _ = scenario.generate(maxIterations=1)
    sim = DummySimulator().simulate(
        scene, maxSteps=maxSteps, maxIterations=1, raiseGuardViolations=True
    )
    assert sim is not None, "simulation unexpectedly rejected"
    ego = scene.egoObject
    return tuple((step.get(ego) or (None,))[0] for step in sim.result.actions)


CASES = []

# A. Invariants are re-checked while the behavior sits in "wait until"/"wait for" (the
#    waiting behavior itself is executing), but Invocable._invokeSubBehavior calls
#    checkInvariants(None, ...): the agent is passed as None, so any invariant that
#    mentions `self` blows up with AttributeError instead of being evaluated.
#    (src/scenic/core/dynamics/invocables.py, scheduler() in _invokeSubBehavior.)
CASES.append(
    (
        "invariant mentioning self + wait until",
        """
        behavior Foo():
            invariant: self.position.x > -100
            take 1
            wait until simulation().currentTime >= 3
            take 2
        ego = new Object with behavior Foo
        """,
        5,
        (1, None, None, 2, None),
    )
)
CASES.append(
    (
        "invariant mentioning self + wait for",
        """
        behavior Foo():
            invariant: self.position.x > -100
            take 1
            wait for 2 steps
            take 2
        ego = new Object with behavior Foo
        """,
        5,
        (1, None, None, 2, None),
    )
)

# B. `break` in the else clause of a loop belongs to whatever encloses the loop.  In an
#    interrupt handler that is the try-interrupt statement, i.e. it should break the loop
#    enclosing the statement (docs: break/continue in a handler act on the enclosing
#    loop).  visit_For/visit_While keep inLoop=True for the else clause too, so a plain
#    Python `break` is emitted into the handler's block function and the program fails
#    to compile: "'break' outside loop".  (src/scenic/syntax/compiler.py)
CASES.append(
    (
        "break in the else clause of a loop inside a handler",
        """
        behavior Foo():
            while True:
                take 9
                try:
                    for i in range(3):
                        take 1
                interrupt when simulation().currentTime == 2:
                    for j in range(2):
                        take 2
                    else:
                        break
                    take 3
        ego = new Object with behavior Foo
        """,
        6,
        (9, 1, 2, 2, None, None),
    )
)


def main():
    bad = 0
    for name, code, steps, expected in CASES:
        try:
            got = egoActions(code, steps)
        except Exception as e:
            got = f"{type(e).__name__}: {e}"
        ok = got == expected
        print(f"[{'ok' if ok else 'VIOLATION'}] {name}\n    expected {expected}\n    got      {got}")
        bad += not ok
    return 1 if bad else 0


if __name__ == "__main__":
    sys.exit(main())
