"""C13 finding: when a precondition or invariant of the *top-level* scenario is violated at the
start of a simulation, the simulation is rejected as documented -- but the compiled scenario is
left marked as running, so that every later simulation of it (including the next iteration of
the same `simulate(..., maxIterations=n)` call, which the reference promises: "the simulation is
rejected, requiring a new simulation to be sampled") dies with an AssertionError.

Root cause: scenic/core/dynamics/scenarios.py:180-185 (DynamicScenario._start) sets
`_isRunning = True` through Invocable._start() and only then checks the delayed preconditions;
when they raise, the scenario is not yet in veneer.runningScenarios (startScenario is called at
line 197), so the clean-up in Simulation.__init__ (simulators.py:418-419) never stops it.
"""
import scenic
from scenic.core.simulators import DummySimulator

src = """
import random
scenario Main():
    precondition: random.random() < 0.5      # fails for about half of the simulations
    setup:
        ego = new Object
"""
import random

random.seed(3)
scenario = scenic.scenarioFromString(src, scenario="Main")
scene, _ = scenario.generate()
sim = DummySimulator()
bad = False
try:
    for i in range(20):
        r = sim.simulate(scene, maxSteps=2, maxIterations=50)
        assert r is not None
    print("20 simulations with up to 50 iterations each all succeeded: not reproduced")
except AssertionError:
    import traceback

    tb = traceback.format_exc().strip().splitlines()
    print("simulate(maxIterations=50) raised AssertionError after a rejected iteration:")
    print("   ", tb[-3].strip())
    print("   ", tb[-2].strip())
    bad = True
print("DEFECT REPRODUCED" if bad else "not reproduced")
