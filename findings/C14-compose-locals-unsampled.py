"""(Outside C14's statement, met while building its generator.)  In a compose block, a variable
assigned in the setup block still names the *unsampled* object when that object has random
properties: passing it to a sub-scenario that overrides it fails with a bare AssertionError
(`assert not needsSampling(self)` in Constructible._override); only `ego` is re-bound to the
sampled object.  With a non-random object the same program works.
"""
import scenic
from scenic.core.simulators import DummySimulator

template = """
scenario Main():
    setup:
        ego = new Object at (0, 0, 0), with behavior B
        other = new Object at ({x}, 5, 0), with foo 1
    compose:
        do Sub(other)
scenario Sub(obj):
    setup:
        override obj with foo 2
        terminate after 2 steps
behavior B():
    while True:
        wait
"""
for x in ("3", "Range(3, 4)"):
    scenario = scenic.scenarioFromString(template.format(x=x), scenario="Main")
    scene, _ = scenario.generate()
    try:
        DummySimulator().simulate(scene, maxSteps=3)
        print(f"other at x = {x}: ok")
    except Exception as e:
        print(f"other at x = {x}: {type(e).__name__} {e}\nDEFECT REPRODUCED")
