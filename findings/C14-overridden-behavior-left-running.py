"""After a run that is rejected (or raises) while a sub-scenario overrides an agent's behavior,
the agent's ORIGINAL behavior object is left running and the scene cannot be simulated again
(InvalidScenarioError: tried to reuse behavior object ...).

Simulation.__init__'s `finally` (as reordered by commit 18dd7d56) first stops
`agent.behavior` of every agent -- at that moment the *overriding* behavior --, then stops
the running scenarios, whose reverts put the original (suspended, still running) behavior
back, and nobody stops that one.  Behaviors have to be stopped again after the reverts.
"""
import scenic
from scenic.core.simulators import DummySimulator
code = '''
scenario Main():
    setup:
        ego = new Object with behavior Base
        terminate after 6 steps
    compose:
        wait
        do Sub()
scenario Sub():
    setup:
        override ego with behavior Alt()
    compose:
        wait
        wait
        require False
        wait
behavior Base():
    while True:
        take 1
behavior Alt():
    while True:
        take 2
'''
sc = scenic.scenarioFromString(code, scenario="Main")
scene, _ = sc.generate()
sim = DummySimulator().simulate(scene, maxSteps=8)
print("first:", sim)
b = scene.egoObject.behavior
print("behavior running after rejected run:", b._isRunning, b._agent is not None)
try:
    sim = DummySimulator().simulate(scene, maxSteps=2)
    print("second:", sim and [tuple(a.values()) for a in sim.result.actions])
except Exception as e:
    print("second run:", type(e).__name__, e, "\nDEFECT REPRODUCED")
