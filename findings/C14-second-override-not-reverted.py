"""A second `override` statement on the same object in one scenario is never reverted.

DynamicScenario._override (core/dynamics/scenarios.py) stores the old values only when the
object has no entry in self._overrides yet, so the old values gathered by every later
`override` statement on that object are dropped and `_stop` cannot restore them: the
overridden value stays visible for the rest of the simulation, although the reference says
"The properties will revert to their previous values when the current scenario terminates."

If the simulation is aborted by an exception while a *nested* scenario has overridden the same
property again, the damage even reaches the Scene: Simulation.__init__'s `finally` disables the
dynamic proxies before it stops the running scenarios, so the nested scenario's revert writes
the (never reverted) outer value into the real object.
"""
import scenic
from scenic.core.simulators import DummySimulator

code = """
scenario Main():
    setup:
        ego = new Object with foo 1, with bar 2, with behavior Show
        terminate after 4 steps
    compose:
        do Sub()
        wait
        wait
scenario Sub():
    setup:
        override ego with foo 10
        override ego with bar 20
        terminate after 2 steps
behavior Show():
    while True:
        take (self.foo, self.bar)
"""
scenario = scenic.scenarioFromString(code, scenario="Main")
scene, _ = scenario.generate()
sim = DummySimulator().simulate(scene, maxSteps=4)
seen = [tuple(acts[scene.egoObject]) for acts in sim.result.actions]
print("ego (foo, bar) per step:", seen)
if seen[-1] != (1, 2):
    print("expected (1, 2) after Sub ended; `bar` kept the overridden value\nDEFECT REPRODUCED")
