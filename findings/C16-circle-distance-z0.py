"""CircularRegion.distanceTo takes its 2D shortcut when the *point* is at z = 0 instead of when
the point is in the plane of the circle."""
from scenic.core.regions import CircularRegion
from scenic.core.vectors import Vector
c = CircularRegion(Vector(0, 0, 10), 1)
print("circle at z=10, radius 1; distance to (3,0,0):", c.distanceTo(Vector(3, 0, 0)),
      " expected hypot(2,10) =", (2 ** 2 + 10 ** 2) ** 0.5)
print("distance to (0,0,0):", c.distanceTo(Vector(0, 0, 0)), " expected 10")
