"""CircularRegion.intersects(CircularRegion) compares the 3D distance of the centres with the sum
of the radii: two discs in different parallel planes 'intersect'."""
from scenic.core.regions import CircularRegion
from scenic.core.vectors import Vector
a, b = CircularRegion(Vector(0, 0, 0), 2), CircularRegion(Vector(1, 0, 3), 2)
print("discs at z=0 and z=3: intersects ->", a.intersects(b), "; intersect ->", a.intersect(b))
