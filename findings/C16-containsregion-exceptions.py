"""containsRegion of three region classes fails with internal errors instead of an answer or a
documented NotImplementedError/TypeError."""
from scenic.core.regions import (PolygonalFootprintRegion, PolygonalRegion, PolylineRegion,
                                 MeshSurfaceRegion, BoxRegion)
sq = PolygonalRegion(points=[(0, 0), (4, 0), (4, 4), (0, 4)])
small = PolygonalRegion(points=[(1, 1), (2, 1), (2, 2), (1, 2)])
for what, f in (("footprint.containsRegion(polygon)", lambda: sq.footprint.containsRegion(small)),
                ("polyline.containsRegion(polyline)",
                 lambda: PolylineRegion(points=[(0, 0), (4, 0)]).containsRegion(PolylineRegion(points=[(1, 0), (2, 0)])))):
    try:
        print(what, "->", f())
    except Exception as e:
        print(what, "raised", type(e).__name__ + ":", e)
# behind the NameError (visible once `other` is renamed to `reg`): MeshSurfaceRegion has no _shape
surf = BoxRegion(dimensions=(1, 1, 1), position=(2, 2, 0)).getSurfaceRegion()
try:
    surf._boundingPolygonHull
except Exception as e:
    print("MeshSurfaceRegion._boundingPolygonHull raised", type(e).__name__ + ":", e)
