"""PolygonalFootprintRegion.approxBoundFootprint pads the cached slab to
100 * max(1, centerZ) * height.  Multiplying by centerZ (a position, not a size) makes the prism
millions of units tall for an operand far from z = 0, and the mesh Boolean computed with such a
prism loses precision: a later, small operand meeting the SAME footprint object gets a wrong
difference/intersection (errors of centimetres on a 2 m region).  A fresh footprint is right."""
import warnings; warnings.filterwarnings("ignore")
from scenic.core.regions import BoxRegion, PolygonalRegion
from scenic.core.vectors import Vector, Orientation

pts = [(-34.733, 18.581), (-34.362, 20.122), (-36.49, 19.898), (-38.029, 20.443), (-38.994, 18.607),
       (-38.981, 17.277), (-36.825, 16.792), (-35.757, 16.75), (-34.198, 16.836)]
def footprint():
    return PolygonalRegion(points=pts).footprint
tall = BoxRegion(dimensions=(2.719, 1.837, 604.918), position=(-33.992, 18.514, 148.863),
                 rotation=Orientation.fromEuler(0.741, 0, 0))
flat = BoxRegion(dimensions=(5.139, 1.891, 0.26), position=(-34.952, 19.29, 148.875),
                 rotation=Orientation.fromEuler(-0.866, 0, 0))
p = Vector(-34.49836459109172, 17.96206637692167, 148.86673882233018)
F = footprint()
print("p in flat box:", flat.containsPoint(p), "| p in footprint:", F.containsPoint(p),
      "| horizontal distance of p to the footprint:", round(F.distanceTo(p), 4))
print("fresh footprint : p in flat.difference(F):", flat.difference(footprint()).containsPoint(p), "(expected True)")
tall.difference(F)      # an earlier, unrelated operation on the same footprint object
print("cached slab height after the tall operand:", F._bounded_cache[1])
print("same footprint  : p in flat.difference(F):", flat.difference(F).containsPoint(p), "(expected True)")
