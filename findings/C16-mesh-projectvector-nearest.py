"""MeshRegion.projectVector computes ONE norm over all hit points (no axis=1), so argmin is 0 and
the first ray hit is returned, not the nearest one."""
from scenic.core.regions import BoxRegion
from scenic.core.vectors import Vector
surf = BoxRegion(dimensions=(10, 10, 10)).getSurfaceRegion()      # faces at z = +5 and z = -5
p = Vector(0, 0, -4)                                             # 1 below ... 1 above the bottom face
print("from", tuple(p), "along +-z the surface is hit at z=+5 (distance 9) and z=-5 (distance 1)")
print("projectVector ->", tuple(surf.projectVector(p, (0, 0, 1))), " expected (0, 0, -5)")
