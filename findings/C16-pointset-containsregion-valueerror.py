"""PointSetRegion.containsRegion(PointSetRegion) unpacks the (distances, indices) pair returned
by KDTree.query as if it were a sequence of (distance, index) pairs: ValueError for any point
set that does not have exactly 2 points (and a wrong test when it has 2)."""
from scenic.core.regions import PointSetRegion

big = PointSetRegion("big", [(0, 0, 0), (1, 0, 0), (2, 0, 0), (3, 0, 0)])
sub = PointSetRegion("sub", [(0, 0, 0), (1, 0, 0), (2, 0, 0)])
try:
    print("big contains sub:", big.containsRegion(sub, tolerance=1e-6))
except Exception as e:
    print("big.containsRegion(sub) raised", type(e).__name__, e)
two = PointSetRegion("two", [(0, 0, 0), (50, 50, 50)])   # second point is NOT in big
print("big contains {(0,0,0),(50,50,50)}:", big.containsRegion(two, tolerance=1e-6),
      " (expected False: the loop compares [d0, d1] <= tol and [i0, i1] <= tol element-wise ...)")
