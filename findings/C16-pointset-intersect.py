"""PointSetRegion.intersect: (1) with another point set (or a GridRegion) the 'try the other
order first' step never sets triedReversed -> RecursionError; (2) its sampler needs
`other.circumcircle`, which PolygonalRegion, PolylineRegion, PathRegion and
PolygonalFootprintRegion do not have -> AttributeError when sampling; (3) the sampler filters
with containsPoint, which ignores the height of polygonal regions, so points of the set that are
not in the plane of the polygon are drawn."""
import random
from scenic.core.regions import PointSetRegion, PolygonalRegion, RectangularRegion
from scenic.core.vectors import Vector
ps = PointSetRegion("ps", [(0, 0, 0), (1, 1, 0), (1, 1, 1.5), (5, 5, 5)])
try:
    ps.intersect(PointSetRegion("qs", [(1, 1, 0), (2, 2, 2)]))
except RecursionError as e:
    print("pointset.intersect(pointset): RecursionError")
r = ps.intersect(PolygonalRegion(points=[(-1, -1), (3, -1), (3, 3), (-1, 3)], z=0))
try:
    r.uniformPointInner()
except AttributeError as e:
    print("sampling pointset & polygon:", type(e).__name__, e)
random.seed(0)
r = ps.intersect(RectangularRegion(Vector(1, 1, 0), 0, 4, 4))   # rectangle in the plane z = 0
print("samples of pointset & rectangle(z=0):", sorted({tuple(r.uniformPointInner()) for _ in range(50)}),
      " ((1,1,1.5) is 1.5 above the rectangle)")
