"""PolygonalRegion.intersect / union / difference (also reached from CircularRegion, SectorRegion,
RectangularRegion, PolygonalFootprintRegion.intersect and PolylineRegion) rebuild their result
from the shapely geometry alone: the height of the operands is dropped (result at z = 0),
polylines (which only exist at z = 0) are combined with polygons at any height, a polyline
united with a polygon silently vanishes, and a footprint united with a polygon is flattened."""
import random
from scenic.core.regions import (PolygonalRegion, CircularRegion, PolylineRegion,
                                 PolygonalFootprintRegion, RectangularRegion)
from scenic.core.vectors import Vector

random.seed(1)
a = PolygonalRegion(points=[(0, 0), (4, 0), (4, 4), (0, 4)], z=5)
b = CircularRegion(Vector(4, 4, 5), 2)
for op in ("intersect", "union", "difference"):
    r = getattr(a, op)(b)
    p = r.uniformPointInner()
    print(f"polygon(z=5).{op}(circle(z=5)): result z = {r.z}, AABB z = {r.AABB[0][2]}, "
          f"a sample: {tuple(round(c, 2) for c in p)}  (operands live at z = 5)")
line = PolylineRegion(points=[(-1, 2), (9, 2)])          # at z = 0 by definition
print("polygon(z=5).intersects(polyline at z=0):", a.intersects(line), " intersect ->", a.intersect(line))
print("polyline.difference(polygon(z=5)) ->", line.difference(a), "(should be the whole polyline)")
a0 = PolygonalRegion(points=[(0, 0), (4, 0), (4, 4), (0, 4)], z=0)
u = a0.union(line)
print("polygon(z=0).union(polyline) contains the polyline point (8,2,0):", u.containsPoint(Vector(8, 2, 0)),
      " type:", type(u).__name__)
fp = PolygonalFootprintRegion(RectangularRegion(Vector(10, 10, 0), 0, 2, 2).polygons)
uf = fp.union(a)
print("footprint.union(polygon(z=5)) ->", type(uf).__name__, "AABB", uf.AABB,
      "(a footprint is unbounded in z; the polygon was at z = 5)")
