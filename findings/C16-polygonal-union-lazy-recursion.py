"""PolygonalRegion.union drops `triedReversed` in its lazy branch: the union of two polygonal
regions of which one has a random parameter recurses forever."""
from scenic.core.distributions import Range
from scenic.core.regions import CircularRegion, PolygonalRegion
from scenic.core.vectors import Vector
c = CircularRegion(Vector(0, 0, 0), Range(1, 2))
sq = PolygonalRegion(points=[(0, 0), (4, 0), (4, 4), (0, 4)])
for what, f in (("circle(random radius).union(polygon)", lambda: c.union(sq)),
                ("polygon.union(circle(random radius))", lambda: sq.union(c))):
    try:
        print(what, "->", type(f()).__name__)
    except RecursionError:
        print(what, "raised RecursionError")
print("(intersect works:", type(c.intersect(sq)).__name__, ")")
