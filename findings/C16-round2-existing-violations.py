"""Reproducers for C16 violations present on the UNCHANGED tree (prints findings, exits 0)."""
import trimesh

from scenic.core.regions import (
    BoxRegion,
    MeshSurfaceRegion,
    PointSetRegion,
    PolygonalRegion,
)
from scenic.core.vectors import Vector
from scenic.core.workspaces import Workspace

# 1. Workspace.projectVector RAISES the result instead of returning it
w = Workspace(BoxRegion(dimensions=(2, 2, 2)))
try:
    print("1. Workspace.projectVector ->", w.projectVector(Vector(0, 0, 5), Vector(0, 0, 1)))
except TypeError as e:
    print("1. Workspace.projectVector raises TypeError:", e)

# 2. volume.intersects(surface) only looks at the surface's FIRST vertex once the surfaces
#    are known not to collide: a surface with several components is misjudged
block = BoxRegion(dimensions=(6, 6, 6))
slot = BoxRegion(dimensions=(2, 8, 6), position=(0, 0, 2))
u = block.difference(slot)  # non-convex volume
a = trimesh.creation.box((0.5, 0.5, 0.5))
a.apply_translation((20, 20, 20))  # far away
b = trimesh.creation.box((0.5, 0.5, 0.5))
b.apply_translation((-2, 0, 0))  # wholly inside the solid part of u
surf = MeshSurfaceRegion(trimesh.util.concatenate([a, b]), centerMesh=False)
p = Vector(-2, 0, 0.25)
print(
    "2. shared point", tuple(p), "in surface:", surf.containsPoint(p), "in volume:",
    u.containsPoint(p), "but volume.intersects(surface) =", u.intersects(surf),
    "/ surface.intersects(volume) =", surf.intersects(u),
)

# 3. PolygonalRegion membership / containment ignore the polygon's height
P0 = PolygonalRegion([(0, 0), (2, 0), (2, 2), (0, 2)], z=0)
ps = PointSetRegion("ps", [(0.5, 0.5, 5)])
print("3a. point set at z=5 vs polygon at z=0: intersects =", ps.intersects(P0), P0.intersects(ps),
      "(distance from polygon to the point:", P0.distanceTo(Vector(0.5, 0.5, 5)), ")")
P5 = PolygonalRegion([(0.5, 0.5), (1, 0.5), (1, 1)], z=5)
print("3b. polygon(z=0).containsRegion(polygon(z=5)) =", P0.containsRegion(P5))
