"""SectorRegion: the polygon that represents the sector (used by intersect/union/difference,
size, AABB, distanceTo, footprint) is not the sector that containsPoint / uniformPointInner
implement, as soon as the angle exceeds 120 degrees: the quadrilateral mask built in
SectorRegion._makePolygons (centre, two arc ends, one point at 2*radius on the centre line)
cuts parts of the disc sector off.  Self-inconsistency, no external oracle needed."""
import math, random
import shapely
from scenic.core.regions import SectorRegion, RectangularRegion
from scenic.core.vectors import Vector

random.seed(0)
for angle in (math.radians(100), math.radians(150), math.radians(200), math.radians(300)):
    s = SectorRegion(Vector(0, 0, 0), 1.0, 0.0, angle)
    pts = [s.uniformPointInner() for _ in range(4000)]
    assert all(s.containsPoint(p) for p in pts)
    lost = [p for p in pts if not shapely.intersects_xy(s.polygons.buffer(1e-3), p.x, p.y)]
    print(f"angle {math.degrees(angle):5.0f} deg: exact area {angle / 2:.4f}  polygon area (size) "
          f"{s.size:.4f};  {len(lost)}/4000 of the region's own samples lie outside its polygon")
    if lost:
        p = lost[0]
        big = RectangularRegion(Vector(0, 0, 0), 0, 4, 4)
        inter = s.intersect(big)   # should be the sector itself
        print("   sample", tuple(round(c, 3) for c in p), "containsPoint:", s.containsPoint(p),
              " in sector.intersect(big rectangle):", inter.containsPoint(p))
