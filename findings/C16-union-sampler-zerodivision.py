"""UnionRegion.genericSampler divides by the number of operands containing the sampled point; a
point drawn from a PolylineRegion usually fails that region's own exact membership test
(floating point), the count is 0 -> ZeroDivisionError."""
import random
from scenic.core.regions import PolylineRegion, PathRegion
random.seed(0)
u = PolylineRegion(points=[(0, 0), (1, 3)]).union(PathRegion(points=[(5, 5, 5), (6, 7, 8)]))
n_err = 0
for _ in range(200):
    try:
        u.uniformPointInner()
    except ZeroDivisionError:
        n_err += 1
    except Exception:
        pass
print(type(u).__name__, ": ZeroDivisionError in", n_err, "of 200 draws")
