"""C17 finding: a rotated viewer that is not at the origin cannot see a point straight ahead
(and sees objects behind it).

scenic/core/visibility.py, canSee(), branch for Point/Vector targets (lines ~534-539):

    if orientation is not None:
        target_loc = orientation._inverseRotation.apply([target_loc])[0]   # rotates about the ORIGIN
    target_vertex = target_loc - position                                   # ... then subtracts

The target is rotated into the viewer's frame *before* the viewer's position is subtracted, i.e.
about the world origin instead of about the camera.  The view-angle test and the occlusion ray
are computed for  R^T t - p  instead of  R^T (t - p).  The result is right only if the viewer is
at the origin or unrotated - exactly the configurations of the repository's tests.  The Object
branch asks this branch about the target's centre first (`target.shape.containsCenter and
canSee(... target.position ...)`), so objects wholly outside the view volume, or completely
hidden behind a wall, are reported visible too.

Run:  /venv/bin/python findings/C17-point-rotated-about-origin.py
"""
import math

from scenic.core.object_types import Object, OrientedPoint
from scenic.core.vectors import Vector

deg = math.radians
bad = 0

# 1. viewer at (30, 40, 5) facing -X (yaw 90 deg), 40 x 40 degree window, 50 m
viewer = OrientedPoint._with(position=(30, 40, 5), yaw=deg(90), viewAngles=(deg(40), deg(40)),
                             visibleDistance=50)
ahead, behind = Vector(10, 40, 5), Vector(50, 40, 5)
r = viewer.canSee(ahead)
print("point 20 m straight ahead  : canSee =", r, " (expected True;  visibleRegion says",
      viewer.visibleRegion.containsPoint(ahead), ")")
bad += r is not True
print("point 20 m straight behind : canSee =", viewer.canSee(behind), "(expected False)")

# 2. the same viewer moved to the origin is right
v0 = OrientedPoint._with(position=(0, 0, 0), yaw=deg(90), viewAngles=(deg(40), deg(40)),
                         visibleDistance=50)
print("same viewer at the origin  : canSee =", v0.canSee(Vector(-20, 0, 0)), "(expected True)")

# 3. false positive: viewer at (0,-20,0) facing -Y (yaw 180).  A point 10 m BEHIND it, at
#    (0,-10,0), is mapped to R^T t - p = (0,10,0) - (0,-20,0) = (0,30,0): "30 m ahead".
v3 = OrientedPoint._with(position=(0, -20, 0), yaw=deg(180), viewAngles=(deg(40), deg(40)),
                         visibleDistance=50)
r = v3.canSee(Vector(0, -10, 0))
print("point 10 m behind          : canSee =", r, "(expected False)")
bad += r is not False
obj = Object._with(position=(0, -10, 0), width=1, length=1, height=1)
r = v3.canSee(obj)
print("1 m cube 10 m behind       : canSee =", r, "(expected False: wholly outside the window)")
bad += r is not False

# 4. occlusion: the occlusion ray is cast along R (R^T t - p) as well, so a wall that hides the
#    target completely is missed.  Viewer at (0,-20,0) facing +X (yaw -90), target 20 m ahead.
v4 = OrientedPoint._with(position=(0, -20, 0), yaw=deg(-90), viewAngles=(deg(360), deg(180)),
                         visibleDistance=50)
target = Vector(20, -20, 0)
wall = Object._with(position=(10, -20, 0), width=0.5, length=8, height=8)
r = v4.canSee(target, occludingObjects=(wall,))
print("point behind an 8x8 m wall  : canSee =", r, "(expected False)")
bad += r is not False

print("DEFECT REPRODUCED" if bad else "not reproduced")
