"""C17 finding: the visible region of a Point has half the documented radius.

scenic/core/object_types.py, Point.visibleRegion (lines ~790-798):

    dimensions = (self.visibleDistance, self.visibleDistance, self.visibleDistance)
    return SpheroidRegion(position=self.position, dimensions=dimensions)

SpheroidRegion's `dimensions` are full extents (diameters); the docstring and
docs/reference/visibility.rst say "a sphere centered at its position with radius
visibleDistance" (ViewRegion, used for OrientedPoint/Object, correctly passes 2*visibleDistance).
`Point.canSee` uses the full visibleDistance, so `visible from <Point>` samples positions from a
region 8 times smaller than what the point can see, and `X visible from <Point>` /
`not visible from` (region operators) cut regions at half the distance.

Run:  /venv/bin/python findings/C17-point-visible-region-half-radius.py
"""
from scenic.core.object_types import Point
from scenic.core.vectors import Vector

p = Point._with(position=(10, 20, 3), visibleDistance=10)
target = Vector(10, 27, 3)          # 7 m away: inside the visible distance
print("mesh bounds of visibleRegion:", p.visibleRegion.mesh.bounds.tolist(), "(expected 0..20, 10..30, -7..13)")
print("canSee(7 m away)            :", p.canSee(target), "(True)")
r = p.visibleRegion.containsPoint(target)
print("visibleRegion contains it   :", r, "(expected True)")
print("DEFECT REPRODUCED" if not r else "not reproduced")
