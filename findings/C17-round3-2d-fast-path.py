"""Reproducers for C17 violations present on the UNCHANGED tree (2D compatibility mode).

Exit status 1 if any of them reproduces, 0 otherwise.
"""
import math
import sys

import scenic

found = []

# (1) In 2D mode the no-occluder fast path (Point2D._canSee2D, via the 2D
# visibleRegion) uses the legacy scalar `viewAngle`, so a viewer configured with
# `with viewAngles (60 deg, 180 deg)` sees things directly behind it.
src = """
ego = new Object at (0,0), with visibleDistance 50, with viewAngles (60 deg, 180 deg)
target = new Object at (0, -10), with requireVisible False
far = new Object at (-40, 40), with occluding True, with requireVisible False
"""
scene, _ = scenic.scenarioFromString(src, mode2D=True).generate(maxIterations=1, verbosity=0)
ego, target, far = scene.objects
obj_behind = ego.canSee(target)
pt_behind = ego.canSee(target.position)
with_occ = ego.canSee(target, occludingObjects=(far,))
print(f"(1) 60-degree viewer, target directly behind: object {obj_behind}, point {pt_behind}, "
      f"with an irrelevant occluder (3D path) {with_occ}")
if obj_behind or pt_behind:
    found.append("2D mode ignores `viewAngles`: target behind a 60-degree viewer reported visible")

# (2) Monotonicity: the 2D fast path tests the bounding polygon against a 128-gon
# inscribed in the visible disc, the occluded path ray-casts against the exact
# distance.  A target whose nearest face lies between the chord and the arc is NOT
# visible with no occluders but becomes visible when a far-away occluder is added.
src = """
ego = new Object at (0,0), with visibleDistance 50, with viewAngle 360 deg
target = new Object at ({x}, {y}), facing {th} deg, with width 1, with length 1, with requireVisible False
far = new Object at (-40, -40), with occluding True, with requireVisible False
"""
th = 360 / 128 / 2
d = 50 - 0.008 + 0.5
x, y = d * math.cos(math.radians(th)), d * math.sin(math.radians(th))
scene, _ = scenic.scenarioFromString(src.format(x=x, y=y, th=th), mode2D=True).generate(
    maxIterations=1, verbosity=0
)
ego, target, far = scene.objects
free = ego.canSee(target)
occ = ego.canSee(target, occludingObjects=(far,))
print(f"(2) nearest distance {target.distanceTo(ego.position):.4f} (limit 50): "
      f"no occluders {free}, with remote occluder {occ}")
if occ and not free:
    found.append("adding an occluder turned 'not visible' into 'visible' (2D fast path vs ray casting)")

for f in found:
    print("C17 VIOLATED on unchanged tree:", f)
sys.exit(1 if found else 0)
