"""C17 finding (same root cause as the C02 note): only the first `visible from` / `not visible
from` requirement of a scenario receives the occluding objects.

scenic/core/scenarios.py, Scenario.generateDefaultRequirements (lines ~547-560):

    possible_occluders = filter(lambda x: (needsSampling(x.occluding) or x.occluding), self.objects)
    for obj in ...:  requirements.append(VisibilityRequirement(obj._observingEntity, obj, possible_occluders))
    for obj in ...:  requirements.append(NonVisibilityRequirement(obj._nonObservingEntity, obj, possible_occluders))

`filter` returns a one-shot iterator; VisibilityRequirement.__init__ consumes it with tuple(...),
so every later requirement gets an empty occluder list: an object completely hidden behind a wall
satisfies `visible from ego`, and `not visible from ego` rejects it.

Run:  /venv/bin/python findings/C17-specifier-occluders-consumed.py
"""
import scenic
from scenic.core.distributions import RejectionException

src = """
ego = new Object at (0, 0, 0), with allowCollisions True
wall = new Object at (0, 5, 0), with width 20, with length 0.5, with height 20
a = new Object at ({xa}, 10, 0), with regionContainedIn everywhere, {speca}
b = new Object at ({xb}, 10, 0), with regionContainedIn everywhere, {specb}
"""


def outcome(**kw):
    try:
        scenic.scenarioFromString(src.format(**kw)).generate(maxIterations=1)
        return "accepted"
    except RejectionException:
        return "rejected"


# both a and b are hidden behind the wall
one = outcome(xa=-2, xb=2, speca="not visible from ego", specb="with name 'b'")
two = outcome(xa=-2, xb=2, speca="not visible from ego", specb="not visible from ego")
three = outcome(xa=-2, xb=2, speca="with name 'a'", specb="not visible from ego")
print("a: not visible from ego                         ->", one, "(expected accepted)")
print("b: not visible from ego                         ->", three, "(expected accepted)")
print("a and b: not visible from ego                   ->", two, "(expected accepted)")
# a is really visible (beside the wall), b is hidden: `visible from ego` on b must reject the scene
four = outcome(xa=-30, xb=2, speca="with name 'a'", specb="visible from ego")
five = outcome(xa=-30, xb=2, speca="visible from ego", specb="visible from ego")
print("b (hidden): visible from ego                    ->", four, "(expected rejected)")
print("a (visible) and b (hidden): visible from ego    ->", five, "(expected rejected)")
bad = (one, three, two) != ("accepted", "accepted", "accepted") or five != "rejected"
print("DEFECT REPRODUCED" if bad else "not reproduced")
