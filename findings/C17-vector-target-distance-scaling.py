"""C17 finding: `X can see <vector>` raises AttributeError when X has viewRayDistanceScaling.

scenic/core/visibility.py, canSee(), line ~103:

    if distanceScaling:
        target_distance = target.position.distanceTo(position)

`target` may be a plain Vector: the `can see` operator converts every non-Point right-hand side
with toVector() before calling X.canSee (veneer.CanSee.canSeeHelper), and operators.rst documents
"(Point | OrientedPoint) can see (vector | Object)".  A Vector has no `.position`.

Run:  /venv/bin/python findings/C17-vector-target-distance-scaling.py
"""
import scenic
from scenic.core.object_types import OrientedPoint
from scenic.core.vectors import Vector

viewer = OrientedPoint._with(position=(0, 0, 0), visibleDistance=50, viewRayDistanceScaling=True)
try:
    print("direct API:", viewer.canSee(Vector(0, 10, 0)))
    bad = False
except AttributeError as e:
    print("direct API: AttributeError:", e)
    bad = True

src = """
ego = new Object with viewRayDistanceScaling True
require ego can see (0, 10, 0)
"""
try:
    scenic.scenarioFromString(src).generate(maxIterations=1)
    print("compiled program: scene generated")
except AttributeError as e:
    print("compiled program `require ego can see (0, 10, 0)`: AttributeError:", e)
    bad = True
print("DEFECT REPRODUCED" if bad else "not reproduced")
