"""Corrupted scene data makes sceneFromBytes fail with exceptions other than SerializationError.

The decoded values are used without validation (an out-of-range index of Options/Uniform,
NaN/inf angles, ...) and exceptions raised while the scene is rebuilt from them are not
converted: IndexError / AssertionError (and, with regions, GEOSException, ValueError) escape,
although sceneFromBytes documents "Raises: SerializationError: if the scene could not be
properly decoded" and is advertised as usable with untrusted data (docs/api.rst, footnote 2).
"""
import random
import struct

import scenic
from scenic.core.serialization import SerializationError

scenario = scenic.scenarioFromString(
    "ego = new Object facing Range(0, 1), with foo Uniform('a', 'b', 'c'),"
    " with requireVisible False\n")
random.seed(1)
scene, _ = scenario.generate()
data = scenario.sceneToBytes(scene)
seen = set()
for off in range(10, len(data)):
    for v in (0xFF, 0x7F, 0xF0, 200):
        bad = data[:off] + bytes([v]) + data[off + 1:]
        try:
            scenario.sceneFromBytes(bad)
        except SerializationError:
            pass
        except Exception as e:
            if type(e).__name__ not in seen:
                seen.add(type(e).__name__)
                print(f"byte {off} := {v:#x}: {type(e).__name__}: {str(e)[:60]}")
if seen:
    print("DEFECT REPRODUCED")
