"""A scene with mutated objects does not survive sceneToBytes/sceneFromBytes.

The noise added by `mutate` is drawn with random.gauss inside Point.sampleGiven (through
Mutator.appliedTo), i.e. it is not the value of any Distribution and is not encoded.
sceneFromBytes calls sampleGiven again, so new noise is drawn from the *current* global RNG
state: the decoded scene has other positions/headings than the encoded one, and a replay of a
simulation of such a scene starts from a different scene (DivergenceError when checked).
"""
import random

import scenic

scenario = scenic.scenarioFromString(
    "ego = new Object at (1, 2, 0), facing 30 deg, with requireVisible False\nmutate ego\n")
random.seed(3)
scene, _ = scenario.generate()
data = scenario.sceneToBytes(scene)
decoded = [scenario.sceneFromBytes(data) for _ in range(2)]
print("original :", scene.egoObject.position, scene.egoObject.heading)
for d in decoded:
    print("decoded  :", d.egoObject.position, d.egoObject.heading)
if any(d.egoObject.position != scene.egoObject.position for d in decoded):
    print("DEFECT REPRODUCED")
