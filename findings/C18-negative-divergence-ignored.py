"""A replay whose dynamic property is *below* the recorded value is never reported as divergent.

Simulation.valuesHaveDiverged (core/simulators.py) computes `diff = actual - expected` for
scalars and returns `diff > self.divergenceTolerance`: a negative difference of any size is
"not diverged", although the documentation promises a check of the *distance* between the
values ("deviate ... by more than the tolerance").
"""
import scenic
from scenic.core.simulators import DivergenceError, DummySimulation, DummySimulator


class ShiftedSimulator(DummySimulator):
    """DummySimulator whose reported yaw is shifted by `shift`."""

    def __init__(self, shift):
        super().__init__()
        self.shift = shift

    def createSimulation(self, scene, **kw):
        sim = self

        class S(DummySimulation):
            def getProperties(self, obj, properties):
                vals = super().getProperties(obj, properties)
                vals["yaw"] = vals["yaw"] + sim.shift
                return vals

        return S(scene, **kw)


scenario = scenic.scenarioFromString("ego = new Object\n")
scene, _ = scenario.generate()
original = ShiftedSimulator(0.0).simulate(scene, maxSteps=2, enableDivergenceCheck=True)
replay = original.getReplay()
bad = False
for shift in (+0.5, -0.5):
    try:
        ShiftedSimulator(shift).replay(scene, replay, maxSteps=2, divergenceTolerance=0.1)
        print(f"yaw shifted by {shift:+}: no DivergenceError")
        bad = True
    except DivergenceError as e:
        print(f"yaw shifted by {shift:+}: DivergenceError")
if bad:
    print("DEFECT REPRODUCED")
