"""The compile-options hash stored in a scene does not distinguish 1 from "1".

serialization.deterministicHash encodes int/float/str values through str(value), so the
options {x: 1} and {x: "1"} (or True / "True", 2.5 / "2.5") hash alike and a scene encoded
under one is accepted under the other, although the scenes differ (params['x'] has another
type).  (Minor: needs param overrides that differ only in type.)
"""
import scenic
from scenic.core.serialization import SerializationError

code = "ego = new Object with requireVisible False\nparam x = 0\n"
a = scenic.scenarioFromString(code, params={"x": 1})
b = scenic.scenarioFromString(code, params={"x": "1"})
scene, _ = a.generate()
data = a.sceneToBytes(scene)
try:
    s2 = b.sceneFromBytes(data)
    print(f"accepted: original x = {scene.params['x']!r}, decoded x = {s2.params['x']!r}")
    print("DEFECT REPRODUCED")
except SerializationError as e:
    print("refused:", e)
