"""A corrupted option index at the end of a replay escapes as AssertionError.

At run time `Uniform(a, b, c)` builds its selector DiscreteRange(0, 2) first; during a replay
that selector's value is read from the replay data (Simulation.replaySampledValue) without
checking that it lies in the range.  If the replay ends right there, the Options object
itself is *sampled* (not replayed) with the decoded index and MultiplexerDistribution.sampleGiven
fails its `assert 0 <= idx < len(self.options)` -- neither SerializationError nor a divergence
report.  (While replay data remains, the same index raises IndexError inside deserializeValue,
which commit 1674c31b already converts.)  Fix: validate the value when a DiscreteRange with
constant bounds is decoded.
"""
import scenic
from scenic.core.serialization import SerializationError
from scenic.core.simulators import DummySimulator

scenario = scenic.scenarioFromString("""
behavior B():
    take Uniform('a', 'b', 'c')
ego = new Object with behavior B
""")
scene, _ = scenario.generate()
sim = DummySimulator().simulate(scene, maxSteps=1)
replay = bytearray(sim.getReplay())
replay[-1] = 29  # the selector's value is the last byte of the replay
try:
    DummySimulator().replay(scene, bytes(replay), maxSteps=1)
    print("replayed")
except SerializationError as e:
    print("SerializationError:", e)
except Exception as e:
    print(f"{type(e).__name__}: {e}\nDEFECT REPRODUCED")
