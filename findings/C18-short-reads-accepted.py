"""Truncated encodings of integers, byte strings and strings are decoded silently.

serialization.readInt uses int.from_bytes(stream.read(n)) without checking that n bytes were
read, readBytes/readStr return however many bytes are left.  A truncated scene or replay is
therefore accepted with wrong values instead of being refused with a SerializationError.
"""
import random

import scenic
from scenic.core.serialization import SerializationError, Serializer

bad = False
for ty, value in ((int, 70000), (int, 2**40), (str, "squeamish"), (bytes, b"abcdef")):
    ser = Serializer()
    ser.writeValue(value, ty)
    data = ser.getBytes()
    for n in range(1, len(data)):
        try:
            got = Serializer(data[:n]).readValue(ty)
        except SerializationError:
            continue
        print(f"{ty.__name__} {value!r}: first {n} of {len(data)} bytes decode to {got!r}")
        bad = True
        break

scenario = scenic.scenarioFromString(
    "ego = new Object with foo DiscreteRange(100000, 200000), with requireVisible False\n")
random.seed(4)
scene, _ = scenario.generate()
data = scenario.sceneToBytes(scene)
for n in range(len(data)):
    try:
        s2 = scenario.sceneFromBytes(data[:n])
    except SerializationError:
        continue
    print(f"scene: first {n} of {len(data)} bytes decode: foo = {s2.egoObject.foo} "
          f"(original {scene.egoObject.foo})")
    bad = True
if bad:
    print("DEFECT REPRODUCED")
