"""C20 finding: an incoming lane whose connecting lane has no successor gets a fake 'merge'
maneuver into the intersection and breaks the relations test_network.test_linkage asserts.

signature: links|intersection:incoming.successor-not-connecting,
           links|intersection:incoming-maneuver-not-listed
map: assets/maps/misc/Issue189.xodr (default options), intersection18 / road17_lane4

RoadMap.toScenicNetwork (xodr_parser.py:1864-1900) registers the incoming lane and sets
`fromLane.lane._successor = toLane.lane` before it looks whether the connecting lane leads
anywhere; if `toLane.lane._successor is None` it only warns and creates no Maneuver.  Later
(:1984-1991) every lane with a successor and no maneuvers gets a dummy STRAIGHT maneuver: here
one whose endLane is the connecting lane inside the intersection, with connectingLane=None and
intersection=None.  tests/domains/driving/test_network.py::test_linkage asserts, for every
incoming lane, `incoming.successor in allConnecting` and `maneuver in allManeuvers`
(only ever run on Town01/Town03).
"""
import os, shutil, sys, tempfile, warnings

warnings.simplefilter("ignore")
from scenic.domains.driving.roads import Network

src = os.path.join(os.environ.get("SCENIC_REPO", "/repo"), "assets/maps/misc/Issue189.xodr")
tmp = tempfile.mkdtemp(prefix="vf-c20-finding-", dir="/var/tmp")
bad = 0
try:
    net = Network.fromFile(shutil.copy(src, tmp), useCache=False, writeCache=False)
    for inter in net.intersections:
        allConnecting = [m.connectingLane for m in inter.maneuvers]
        for inc in inter.incomingLanes:
            if not any(inc._successor is c for c in allConnecting):
                bad += 1
                print(f"{inter.uid}: incoming {inc.uid}.successor = {inc._successor.uid} is not the "
                      "connecting lane of any maneuver of the intersection")
            for m in inc.maneuvers:
                if not any(m is x for x in inter.maneuvers):
                    bad += 1
                    print(f"{inter.uid}: maneuver of incoming {inc.uid} (type {m.type.name}, "
                          f"connectingLane={m.connectingLane}, endLane={m.endLane.uid} on a "
                          f"connecting road, intersection={m.intersection}) is not in intersection.maneuvers")
    print("DEFECT" if bad else "ok", f"- {bad} broken intersection links")
    sys.exit(1 if bad else 0)
finally:
    shutil.rmtree(tmp, ignore_errors=True)
