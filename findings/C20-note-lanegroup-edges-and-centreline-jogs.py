"""C20 observations OUTSIDE the property statement (not asserted by the check, no signature).

(1) LaneGroup.leftEdge / rightEdge / curb of a *backward* lane group with >= 3 lanes are the same
    inner lane boundary.  xodr_parser.Road.toScenicRoad.getEdges (xodr_parser.py:1088-1112) starts
    from `startLanes[-1]` as "leftmost" and `startLanes[0]` as "rightmost"; RoadSection.backwardLanes
    is ordered by increasing OpenDRIVE id, i.e. leftmost (id 1) first, so for backward groups the
    roles are exchanged, and the single `_laneToLeft` / `_laneToRight` step lands both walks on the
    boundary between lanes 2 and 3.  Road.leftEdge and LaneGroup.curb (used for parked cars)
    inherit it.  Seen on CARLA Town04 / Town06.
(2) Lane centrelines contain centimetre-long segments running backwards where two plan-view
    geometry records of the map do not meet exactly (pieces are concatenated without clean-up,
    xodr_parser.py:432-450).  The traffic direction reported next to such a joint is the
    direction of that segment, i.e. about 180 degrees off (it is still "tangent to the
    centreline", so C20 holds).  Seen on CARLA Town01 road 11.
"""
import math, os, shutil, tempfile, warnings

warnings.simplefilter("ignore")
from scenic.domains.driving.roads import Network

repo = os.environ.get("SCENIC_REPO", "/repo")
tmp = tempfile.mkdtemp(prefix="vf-c20-finding-", dir="/var/tmp")
try:
    net = Network.fromFile(shutil.copy(os.path.join(repo, "assets/maps/CARLA/Town04.xodr"), tmp),
                           useCache=False, writeCache=False)
    n = 0
    for g in net.laneGroups:
        if len(g.lanes) >= 3 and g.leftEdge.lineString.equals(g.rightEdge.lineString):
            n += 1
            if n <= 3:
                print(f"Town04 {g.uid}: {len(g.lanes)} lanes, leftEdge == rightEdge "
                      f"(backward group: {g is g.road.backwardLanes})")
    print(f"(1) {n} lane groups of Town04 have identical left and right edges")

    net = Network.fromFile(shutil.copy(os.path.join(repo, "assets/maps/CARLA/Town01.xodr"), tmp),
                           useCache=False, writeCache=False)
    lane = net.elements["road11_lane0"]
    pts = list(lane.centerline.lineString.coords)
    for a, b, c in zip(pts, pts[1:], pts[2:]):
        h1 = math.atan2(b[1] - a[1], b[0] - a[0]); h2 = math.atan2(c[1] - b[1], c[0] - b[0])
        turn = abs((h2 - h1 + math.pi) % (2 * math.pi) - math.pi)
        if turn > 2.5:
            mid = ((b[0] + c[0]) / 2, (b[1] + c[1]) / 2)
            far = ((a[0] + b[0]) / 2, (a[1] + b[1]) / 2)
            print(f"(2) Town01 {lane.uid}: centreline turns by {math.degrees(turn):.0f} deg at "
                  f"({b[0]:.2f}, {b[1]:.2f}); roadDirection there = "
                  f"{net.roadDirection[mid].yaw:.3f} rad, {math.dist(mid, far):.2f} m before it = "
                  f"{net.roadDirection[far].yaw:.3f} rad")
            break
finally:
    shutil.rmtree(tmp, ignore_errors=True)
