"""C20 finding: successor/predecessor links between lanes of different roads are one-sided.

signature: links|succ:lane-one-sided, links|succ:laneSection-one-sided, links|pred:lane-one-sided,
           links|pred:laneSection-one-sided (pattern links|*-one-sided)
maps: assets/maps/opendrive.org/CulDeSac.xodr, LGSVL/borregasave.xodr, LGSVL/borregasave_old.xodr

RoadMap.toScenicNetwork (xodr_parser.py:1745-1786) resolves, for every road link A->B, only the
lane links written in A's own lane records; B's lanes are linked back only if B's records list
the link too.  CulDeSac road 1 lane -1 says <successor id="-1"/> (road 3) but road 3 lane -1 has
no <predecessor>; so road1_lane0.successor is road3_lane0 while road3_lane0.predecessor rejects.
(The connecting-lane -> outgoing-lane links inside junctions are one-sided by design and are
not counted here.)
"""
import os, shutil, sys, tempfile, warnings

warnings.simplefilter("ignore")
from scenic.domains.driving.roads import Lane, Network

repo = os.environ.get("SCENIC_REPO", "/repo")
tmp = tempfile.mkdtemp(prefix="vf-c20-finding-", dir="/var/tmp")
bad = 0
try:
    for rel in ("opendrive.org/CulDeSac.xodr", "LGSVL/borregasave.xodr"):
        path = shutil.copy(os.path.join(repo, "assets/maps", rel), tmp)
        net = Network.fromFile(path, useCache=False, writeCache=False)
        conn = set(id(r) for r in net.connectingRoads)
        for a in net.lanes:
            s = a._successor
            if isinstance(s, Lane) and not (id(a.road) in conn and id(s.road) not in conn) \
                    and s._predecessor is None:
                bad += 1
                print(f"{rel}: {a.uid}.successor is {s.uid}, but {s.uid}.predecessor is None")
            p = a._predecessor
            if isinstance(p, Lane) and p._successor is None:
                bad += 1
                print(f"{rel}: {a.uid}.predecessor is {p.uid}, but {p.uid}.successor is None")
    print("DEFECT" if bad else "ok", f"- {bad} one-sided lane links")
    sys.exit(1 if bad else 0)
finally:
    shutil.rmtree(tmp, ignore_errors=True)
