"""C20 finding: LaneSection._successor / _predecessor keep raw OpenDRIVE lane ids (ints).

signature: links|succ:laneSection-raw-opendrive-id, links|pred:laneSection-raw-opendrive-id
map: assets/maps/misc/Issue274.xodr (default options); also any map after removing a road <link>

xodr_parser.Road.toScenicRoad stores the lane-level <link> ids of the first/last lane section
("will correct inter-road links later", xodr_parser.py:794 and :975-977);
RoadMap.toScenicNetwork only replaces them when the road has a road-level link to another
drivable road (:1766-1786) or a junction connection (:1873-1876).  A road without such a link
(Issue274: one road whose lanes carry <successor id=.../>) keeps the ints, so
`laneSection.successor` returns an int instead of a NetworkElement (roads.py:311-320 declares
Union[NetworkElement, None]).
"""
import os, shutil, sys, tempfile, warnings

warnings.simplefilter("ignore")
from scenic.domains.driving.roads import LaneSection, Network, NetworkElement

src = os.path.join(os.environ.get("SCENIC_REPO", "/repo"), "assets/maps/misc/Issue274.xodr")
tmp = tempfile.mkdtemp(prefix="vf-c20-finding-", dir="/var/tmp")
try:
    path = shutil.copy(src, tmp)
    net = Network.fromFile(path, useCache=False, writeCache=False)
    bad = 0
    for sec in net.laneSections:
        for name in ("_successor", "_predecessor"):
            x = getattr(sec, name)
            if x is not None and not isinstance(x, NetworkElement):
                bad += 1
                print(f"{sec.uid}.{name} = {x!r}  ({type(x).__name__}, expected a LaneSection or None)")
    print("DEFECT" if bad else "ok", f"- {bad} links hold raw OpenDRIVE ids")
    sys.exit(1 if bad else 0)
finally:
    shutil.rmtree(tmp, ignore_errors=True)
