#!/bin/sh
# seeded_eval.sh <ID-k> <PROP> [tier] -- <test files...>
# 1. confirms the seeded change in a scratch worktree of /repo HEAD (demo passes without, fails with;
#    the given repository tests pass with it), 2. runs the property check against it (scratch copy,
#    VERIF_REPO) and records everything in seeded/<ID-k>/meta.json.  Nothing touches /repo itself.
ID="$1"; PROP="$2"; shift 2
TIER=quick
if [ "$1" != "--" ]; then TIER="$1"; shift; fi
shift
D=/verif/seeded/$ID
WT=/tmp/seedverify-$ID
LOG=$D/eval.log
: > $LOG
git -C /repo worktree add -q --detach $WT HEAD >> $LOG 2>&1 || exit 2
cd $WT
PYTHONPATH=$WT/src timeout 1200 /venv/bin/python $D/demo.py > $D/demo_unchanged.out 2>&1; RC0=$?
git apply $D/patch.diff >> $LOG 2>&1 || { echo APPLY-FAILED >> $LOG; git -C /repo worktree remove --force $WT; exit 3; }
rm -f $WT/src/scenic/syntax/parser.py   # generated file: rebuild it from the (possibly changed) grammar
PYTHONPATH=$WT/src timeout 1200 /venv/bin/python $D/demo.py > $D/demo_changed.out 2>&1; RC1=$?
TESTS="$*"
if [ -n "$TESTS" ]; then
  PYTHONPATH=$WT/src timeout 3400 /venv/bin/python -m pytest -q -p no:cacheprovider -W ignore $TESTS > $D/tests_changed.out 2>&1
  TSUM=$(tail -1 $D/tests_changed.out)
else TSUM="(none run)"; fi
cd /verif
git -C /repo worktree remove --force $WT
VERIF_JOBS=${VERIF_JOBS:-8} selftest/run $PROP $D/patch.diff --tier $TIER > $D/check.out 2>&1; RCC=$?
SIGS=$(grep "violating signature" $D/check.out | sed 's/.*violating signature: //' | tr '\n' ';')
/venv/bin/python - "$ID" "$PROP" "$RC0" "$RC1" "$TSUM" "$RCC" "$SIGS" "$TIER" "$TESTS" <<'PY'
import json, sys, os
ID, PROP, rc0, rc1, tsum, rcc, sigs, tier, tests = sys.argv[1:]
d = f"/verif/seeded/{ID}"
meta = {}
p = os.path.join(d, "meta.json")
if os.path.exists(p):
    meta = json.load(open(p))
meta.update({
    "id": ID, "breaks_property": PROP,
    "demo_exit_unchanged_tree": int(rc0), "demo_exit_with_change": int(rc1),
    "repo_tests_with_change": {"files": tests.split(), "summary": tsum},
    "check": {"command": f"selftest/run {PROP} seeded/{ID}/patch.diff --tier {tier} (scratch copy of /repo/src + VERIF_REPO)",
              "detected": int(rcc) == 0, "signatures": [s for s in sigs.split(';') if s]},
})
json.dump(meta, open(p, "w"), indent=1)
print(ID, "demo", rc0, rc1, "| tests:", tsum, "| detected:", int(rcc) == 0, sigs[:200])
PY
