#!/bin/sh
# seeded_verify.sh <worktree> <k> <tests...> : confirm a seeded change (demo fails with it, passes without, tests pass)
WT="$1"; K="$2"; shift 2
cd "$WT" || exit 2
git checkout -q -- . 
echo "--- demo$K on unchanged tree"; PYTHONPATH=$WT/src timeout 900 /venv/bin/python seeded/demo$K.py > /tmp/demo.out 2>&1; echo "exit=$?"; tail -2 /tmp/demo.out
git apply seeded/change$K.diff || { echo APPLY-FAILED; exit 3; }
echo "--- demo$K with change"; PYTHONPATH=$WT/src timeout 900 /venv/bin/python seeded/demo$K.py > /tmp/demo.out 2>&1; echo "exit=$?"; tail -3 /tmp/demo.out
echo "--- tests with change"; PYTHONPATH=$WT/src timeout 3000 /venv/bin/python -m pytest -q -p no:cacheprovider "$@" 2>&1 | tail -2
git checkout -q -- .
