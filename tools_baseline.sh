#!/bin/sh
# Runs the repository's test suite (guard off - there are no hooks) and compares with BASELINE.json stable_pass.
OUT=${1:-/var/tmp/vf-baseline.xml}
cd /repo && /venv/bin/python -m pytest -ra -q -p no:cacheprovider --timeout=900 --continue-on-collection-errors --junitxml=$OUT > /var/tmp/vf-baseline.log 2>&1
/venv/bin/python - "$OUT" <<'PY'
import json, sys, xml.etree.ElementTree as ET
b=json.load(open('/root/.vp/BASELINE.json'))
stable=set(b['stable_pass'])
res={}
for tc in ET.parse(sys.argv[1]).getroot().iter('testcase'):
    name=f"{tc.get('classname')}::{tc.get('name')}"
    bad = any(ch.tag in ('failure','error') for ch in tc)
    skipped = any(ch.tag=='skipped' for ch in tc)
    res[name] = 'fail' if bad else ('skip' if skipped else 'pass')
missing=[n for n in stable if res.get(n)!='pass']
print("stable_pass:", len(stable), "now passing:", len(stable)-len(missing), "NOT passing:", len(missing))
for n in sorted(missing)[:40]: print("  ", n, res.get(n))
PY
