#!/usr/bin/env python3
"""Replaces the generated tables of DESIGN.md (section 9: seeded changes, section 10: status) with
the current output of tools_seeded_table.py / tools_status_table.py."""
import os
import subprocess
import sys

HERE = os.path.dirname(os.path.abspath(__file__))


def table(tool):
    out = subprocess.run([sys.executable, os.path.join(HERE, tool)], capture_output=True, text=True,
                         check=True).stdout
    return [l for l in out.splitlines() if l.startswith("|")]


def replace(lines, head, new):
    i = next(k for k, l in enumerate(lines) if l.startswith(head))
    j = i
    while j < len(lines) and lines[j].startswith("|"):
        j += 1
    return lines[:i] + new + lines[j:]


p = os.path.join(HERE, "DESIGN.md")
lines = open(p).read().split("\n")
lines = replace(lines, "| id | change | needs |", table("tools_seeded_table.py"))
lines = replace(lines, "| ID | quick tier", table("tools_status_table.py"))
open(p, "w").write("\n".join(lines))
print("DESIGN.md tables refreshed")
