#!/usr/bin/env python3
"""Regenerates known_findings.json from the table below (one place to edit).

status=fixed entries suppress nothing (they tie a defect to its repairing commit in /repo);
status=open entries make the runner print KNOWN-FINDING for failures whose signature matches
`signature` (fnmatch) for that property, instead of VIOLATION."""
import json
import os

HERE = os.path.dirname(os.path.abspath(__file__))

FIXED = [
    # property, commit, signature (as first reported by the check), what failed
    ("C08", "25605927", "compile|InconsistentScenarioError@syntax/relations.py:inconsistencyError",
     "require[0.5] abs(x) < -4 made compilation fail; soft relative-heading/distance bounds were used for pruning (met by C01 and C08)"),
    ("C15", "bff86f6e", "nondeterminism|scenes",
     "three Range values referenced only from one require: sampling order followed id()-hashed set order, different scenes per process"),
    ("C15", "b519022a", "nondeterminism|scenes",
     "closures referenced by a requirement collected in a set of function objects (order of their cells = sampling order)"),
    ("C05", "0f69f1bd", "compile|TypeError@core/distributions.py:__repr__",
     "Range(lo, hi + abs(DiscreteRange(a, b))) failed at compile time: repr of unweighted DiscreteRange iterates None"),
    ("C08", "ba7f86d0", "lost-scene|atoff:*:offset*",
     "supportInterval(hypot(Range(-3, 0.5), 0)) = (3, 0.5): offset bound too small, container over-eroded, feasible scenes pruned"),
    ("C08", "0485e851", "lost-scene|*:offset*",
     "object placed at point-in-region + offset longer than its inradius: base region intersected with un-dilated container"),
    ("C08", "17ef2999", "lost-scene|rh:*near-pi*",
     "cells with headings -3.1 and 1.6: relative heading wraps to 1.58 but the plain difference -4.7 was compared with the bounds"),
    ("C08", "6a44b7ac", "lost-scene|rh:*form13*",
     "require (relative heading of other) != -0.5 pruned as if it said <= -0.5"),
    ("C08", "322e6c42", "infeasible-reported|*pruneVisibility",
     "VoxelRegion.dilation clipped to the original grid: elevated ego + object with vertical baseOffset and requireVisible rejected at compile time (reported by the breaker of C08, then reproduced)"),
    ("C08", "983a49bc", "infeasible-reported|*pruneVisibility",
     "_bufferOverapproximate used the relative pitch for the number of dilation passes (follow-up of 322e6c42; unsound for regions smaller than 1 unit, far too coarse otherwise)"),
    ("C07", "e4c278e6", "op:apphead~|TypeError@core/geometry.py:apparentHeadingAtPoint",
     "`apparent heading of X` with random X raised TypeError"),
    ("C07", "8036eed0", "facing:apparent:*-parent|apparent-heading",
     "`apparently facing H` computed yaw in the global frame although yaw is local to parentOrientation"),
    ("C07", "ce172f9d", "beyond:from-oriented|parentOrientation",
     "`beyond X by Y from Z` with oriented Z: parentOrientation stayed global"),
    ("C07", "9184f423", "*|RandomControlFlowError@core/distributions.py:__iter__",
     "`distance from (Range(1,2), 0) to (3,4)`: scalar vector operator on a random-coordinate Vector raised at compile time"),
    ("C08", "da4bf35a", "lost-scene|atoff:*",
     "follow-up of 9184f423: Vector.norm() of a random-coordinate vector lost its support interval (pruning with offsets silently disabled)"),
    ("C17", "3ed0d757", "*|as-if-target-rotated-about-origin*",
     "viewer at (-3.75,-3) yaw -1.5: canSee rotated the target about the world origin before subtracting the viewer position"),
    ("C17", "d1ac8a2a", "vector-target:ray-density+scale|exception:AttributeError@core/visibility.py:canSee",
     "`ego can see <vector>` with viewRayDistanceScaling raised AttributeError"),
    ("C17", "0db13db7", "visibleRegion/Point|excludes-point-inside-view-volume",
     "Point.visibleRegion had radius visibleDistance/2"),
    ("C02", "7bff814e", "compiled/combination|*as-if-only-first-specifier-sees-occluders",
     "second `visible from` requirement got an exhausted filter iterator: fully occluded object accepted as visible (also C17)"),
    ("C18", "25ef442a", "diverge:*:negative|not-detected", "replay value smaller than recording by more than the tolerance not reported"),
    ("C18", "92217baf", "*truncate*|decodes", "truncated scene/replay decoded silently (readInt/readBytes short reads)"),
    ("C18", "1674c31b", "corrupt:*|*", "single-byte corruption made decoding fail with IndexError/AssertionError/ValueError/GEOSException/OverflowError"),
    ("C18", "b6b3de99", "cross:params-retyped|accepted", "params {x: 1} vs {x: '1'} accepted each other's scenes"),
    ("C14", "db16a3c1", "override:*:later-statement-on-same-object|*",
     "second `override` statement on the same object never reverted (also corrupted the Scene when a fault fired)"),
    ("C12", "b896f01b", "defect:monitor-terminate-in-sub-scenario-ends-simulation|wrong-run",
     "`terminate` in a monitor of a sub-scenario ended the whole simulation"),
    ("C12", "1dffda69", "defect:one-shot-schedule-consumed-by-validation|wrong-run",
     "scheduleForAgents returning an iterator: consumed by set(schedule), no behavior ran"),
    ("C13", "c26e4235", "toplevel-guard-violated|scenario-object-left-running",
     "violated top-level guard left the scenario running; next simulate iteration hit AssertionError"),
    ("C13", "36bddb27", "defect:inv-under-try|wrong-run",
     "invariants of the invoker checked after each action of a sub-behaviour run under try-interrupt/do-for/do-until"),
    ("C13", "4855a350", "defect:brkflags|*",
     "break/continue/return through nested try-interrupt statements (usedBreak clobbered; return through two statements; PythonCompileError for legal programs)"),
    ("C11", "18dcc0f6", "nontemporal-implies:runtime|RuntimeError@core/propositions.py:evaluate",
     "run-time `require A implies B` raised RuntimeError"),
    ("C11", "dc0a4ef1", "group-before-implies|ScenicParseError",
     "`require (always A) implies B` (the reference's example) was a syntax error"),
    ("C11", "b22daa61", "dynamic-require:*|*",
     "temporal require executed in a compose block never monitored / AttributeError at top level"),
    ("C20", "0a62707c", "links|*:laneSection-raw-opendrive-id",
     "Issue274 map (and any map after removing a road <link>): laneSection.successor returned a raw integer lane id"),
    ("C07", "00c67287", "on:vol_dir_region*|*",
     "`new Object at P, on reg` with reg = BoxRegion(..., onDirection=(1,0,0)): the region's default onDirection was never used"),
    ("C06", "c0a70db8", "resolve:shadowed-same-priority|accepted-in-some-orders:expected-ambiguous",
     "`at P, visible from A, not visible from B` accepted, same specifiers with `at P` last rejected (order-dependent ambiguity check)"),
    ("C05", "8df0842c", "*floordiv*", "`x // 1` with float-valued random x returned x unrounded"),
    ("C05", "6dd8a2b9", "*kwoperands*", "OperatorDistribution.evaluateInner NameError for keyword operands under lazy evaluation"),
    ("C05", "c4536664", "*discreterange-lazy*", "DiscreteRange(self.a, self.b) as a class default never evaluated in context"),
    ("C05", "78424eac", "*cross*", "Vector.cross NameError"),
    ("C05", "11de494e", "*support*", "supportInterval(-X) / supportInterval(abs(X)) TypeError for unbounded X (e.g. Normal)"),
    ("C05", "1c82544e", "*support*", "min/max with key=...: None looked up among keyword names"),
    ("C05", "c660b19f", "*reverse*", "'abc' + random_str: AttributeError __radd__ at sample time"),
    ("C05", "33a4d958", "*plus-tuple*", "VectorDistribution + (0,0,0) AttributeError in the zero-identity shortcut"),
]

OPEN = [
    ("F-C20-one-sided-links", "C20", "links|*-one-sided",
     "lane links are resolved only from the side whose OpenDRIVE records list them, so successor/predecessor are not reciprocal on maps with one-sided link data (CulDeSac, borregasave, borregasave_old, Issue189)",
     "findings/C20-one-sided-lane-links.py; the cause is one-sided map data the parser does not symmetrise; a symmetrising post-pass would create new dummy merge maneuvers - a design decision for the maintainers"),
    ("F-C20-dead-end-connecting-a", "C20", "links|intersection:incoming.successor-not-connecting",
     "an incoming lane is linked to a connecting lane that has no successor lane and later receives a bogus STRAIGHT 'merge' maneuver (Issue189, intersection18)",
     "findings/C20-dead-end-connecting-lane.py; a candidate patch exists (findings/C20-dead-end-connecting-lane.fix.diff) but restructures the junction-linking loop of the OpenDRIVE parser and changes the networks built for such maps; left to the maintainers"),
    ("F-C20-dead-end-connecting-b", "C20", "links|intersection:incoming-maneuver-not-listed",
     "same root cause as F-C20-dead-end-connecting-a (the bogus maneuver is not listed by the intersection)",
     "findings/C20-dead-end-connecting-lane.py"),
    ("F-C11-rvltl-until-range", "C11", "until-under-temporal|as-rvltl-until-index-range",
     "rv_ltl's UntilMonitor checks its left operand on the wrong index range when `until` is evaluated at an offset (`next (a until b)`, `always (a until b)`)",
     "findings/C11-rvltl-until-index-range.py; third-party code (rv_ltl in site-packages). A corrected monitor inside Scenic (findings/C11-rvltl-until.fix.diff) was tried and withdrawn: it makes the step-0 verdict of `False until X` definitively false, so generation rejects where the repository's test_require_until_2 expects a rejection during simulation. Attributed only when the defect model of the oracle reproduces verdict and rejection step exactly."),
    ("F-C11-rvltl-until-truthy", "C11", "until-with-temporal-rhs|as-rvltl-first-truthy-position",
     "rv_ltl's UntilMonitor decides on the first position whose right operand is currently truthy (`a until (a or eventually b)` rejected early)",
     "findings/C11-rvltl-until-premature-false.py; same third-party monitor, same reason for not repairing."),
    ("F-C05-dict-literal", "C05", "*dict*",
     "dict literals containing random values are never sampled (the scene holds the distribution object)",
     "findings/C05-dict-literal-unsampled.py; the obvious repair (toDistribution lifting dicts) recurses forever on self-referential module namespaces passed through toDistribution by the translator and broke three repository tests, so it was withdrawn; a safe repair needs a design decision."),
    # id, property, signature pattern, title, repro / why not repaired
    ("F-C18-mutate-redrawn", "C18", "roundtrip:mutated-object|property-differs",
     "mutation noise of `mutate`d objects is drawn again when a scene is decoded",
     "findings/C18-mutation-noise-redrawn-on-decode.py; repairing it needs a change of the serialization format (the noise or its seed has to be encoded), which is a maintainers' decision"),
    ("F-C18-mutate-replay", "C18", "replay:mutated-scene|DivergenceError",
     "replaying a simulation of a scene with mutated objects diverges (same root cause: mutation noise re-drawn on decode)",
     "findings/C18-mutation-noise-redrawn-on-decode.py"),
]

out = {
    "_comment": "Genuine defects of Scenic met by the checks. status=open: failures whose signature matches are reported as KNOWN-FINDING (exit 0); status=fixed: repaired in /repo by the given commit, suppresses nothing. Generated by tools_findings.py; never written at run time.",
    "findings": [],
}
for i, (prop, commit, sig, what) in enumerate(FIXED):
    out["findings"].append({
        "id": f"X-{prop}-{commit}", "property": prop, "status": "fixed", "commit": commit,
        "signature": sig, "title": what,
        "fixed_line": f"fixed: property={prop} {commit} {what}",
    })
for fid, prop, sig, title, repro in OPEN:
    out["findings"].append({"id": fid, "property": prop, "status": "open", "signature": sig,
                            "title": title, "repro": repro})
json.dump(out, open(os.path.join(HERE, "known_findings.json"), "w"), indent=1)
print(len(FIXED), "fixed,", len(OPEN), "open")
