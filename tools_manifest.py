#!/venv/bin/python
"""Regenerates MANIFEST.json from the table below (kept in one place so it always validates)."""
import json, os, sys
HERE = os.path.dirname(os.path.abspath(__file__))
props = [json.loads(l) for l in open(os.path.join(HERE, "properties.jsonl"))]
CHECKS = json.load(open(os.path.join(HERE, "manifest_checks.json")))
checks, na = [], []
for p in props:
    pid = p["id"]
    c = CHECKS.get(pid)
    if c and pid not in CHECKS.get("_ready", [pid]):
        c = None
    if not c or c.get("not_applicable"):
        na.append({"property_id": pid, "reason": (c or {}).get("not_applicable", "check built but not yet verified quiet on the current tree (in progress)")})
        continue
    checks.append({
        "property_id": pid,
        "quick_cmd": f"./check {pid} --tier quick",
        "thorough_cmd": f"./check {pid} --tier thorough",
        "evidence_file": f"/verif/evidence/{pid}.json",
        "replay_cmd_template": f"./check {pid} --replay {{path}}",
        "engine": "vf",
        "level_claimed": {"category": "exploration", "text": c["text"], "design_ref": f"DESIGN.md §3 {pid}"},
        "level_note": c["note"],
        "technique": c["technique"],
    })
m = {
    "version": 1,
    "setup_cmd": "/venv/bin/python -m pip install -q --no-index --find-links /opt/veriftools/wheels hypothesis; /venv/bin/python -c 'import hypothesis, scenic'",
    "hooks": {
        "guard": "SCENIC_VERIF",
        "enable": "no source hooks exist: every observation point is reachable from outside (module attributes, Simulation subclasses, veneer globals); ./check exports SCENIC_VERIF=1, which nothing in /repo reads",
        "baseline_off_cmd": "cd /repo && /venv/bin/python -m pytest -ra -q -p no:cacheprovider --timeout=900 --continue-on-collection-errors",
        "source_commits": [],
        "add_only": True,
    },
    "engines": [{"name": "vf", "path": "/verif/vf", "serves_properties": [c["property_id"] for c in checks],
                 "kind_free_text": "property-based testing: Hypothesis strategies / rule-based machines, exhaustive enumeration of small finite spaces, exact RNG-outcome enumeration, corpus mutation fuzzing; collect-then-shrink; explicit oracles (reference models, differentials, round trips, metamorphic relations)"}],
    "checks": checks,
    "notes": "All checks: `./check <ID> --tier quick|thorough`; honour VERIF_SEED/VERIF_TIER/VERIF_JOBS; import Scenic from /repo/src (working tree) and regenerate the PEG parser from scenic.gram when it changed. Known findings: /verif/known_findings.json. Fix commits in /repo are listed there as status=fixed.",
    "not_applicable": na,
}
json.dump(m, open(os.path.join(HERE, "MANIFEST.json"), "w"), indent=1)
try:
    import jsonschema
    jsonschema.validate(m, json.load(open("/root/.vp/MANIFEST.schema.json")))
    print("MANIFEST valid;", len(checks), "checks,", len(na), "not applicable")
except ImportError:
    print("written (jsonschema not available)")
