#!/usr/bin/env python3
"""Merges the hand-written descriptions below into seeded/<id>/meta.json and prints the table of
DESIGN.md section 9 (which checks catch which independently written changes)."""
import glob
import json
import os

HERE = os.path.dirname(os.path.abspath(__file__))

DESC = {
    "C01-1": ("requirements look up the ego at the end of compilation instead of the one bound when `require` ran",
              "`ego` re-assigned to another object after a `require` that mentions it"),
    "C01-2": ("`0 - X` simplified to `X` (__rsub__ added to the add-zero shortcut)",
              "literal 0 as left operand of minus with a random right operand, evaluated at compile time"),
    "C02-1": ("WeightedAcceptanceChecker caches its sorted requirement list and filters it by `active` on use",
              "a soft requirement not selected when the list was cached but selected for a later sample of the same Scenario"),
    "C02-2": ("PolygonalFootprintRegion.containsObject fast path checks only the four corners of an upright box",
              "a long box bridging a concave notch of a non-convex workspace/container"),
    "C03-1": ("union sampler counts overlap with containsPoint (height-blind) instead of _trueContainsPoint",
              "union of polygons at different z with overlapping footprints: overlap cells under-sampled, membership still fine"),
    "C03-2": ("PolygonalRegion sampling weights restart per polygon (cumulative weights not global)",
              "regions made of two or more polygons: whole parts never produced"),
    "C04-1": ("precomputed interior point of a scaled shape scaled twice",
              "non-convex shape whose bounding-box centre lies outside the solid, fixed dimensions other than 1"),
    "C04-2": ("2D fast path of minimumDistanceTo widened with wrong parentheses",
              "two upright boxes with (h1+h2)/2 < |dz| <= h_self + h_other/2"),
    "C05-1": ("`0 - X` simplified to `X`", "literal 0 minus a random scalar"),
    "C05-2": ("hypot support lower bound = min(|low|, |high|) ignoring intervals containing zero",
              "an argument whose interval has endpoints of both signs, and a reader of the lower bound"),
    "C06-1": ("`beyond X by Y from Z` no longer specifies parentOrientation when Z is not oriented",
              "user class with a non-global parentOrientation (or 2D heading) default and a plain-vector from-point"),
    "C06-2": ("additive default keeps only the self-dependencies of the first overridden default",
              "multiple inheritance whose second branch has an [additive] default using self.x"),
    "C07-1": ("`by 0` treated as no distance given (`if dist` instead of `if dist is None`)",
              "directional specifier relative to an Object with scalar distance exactly 0 (error contactTolerance/2)"),
    "C07-2": ("OrientedPoint.heading shortcut parent.yaw + own yaw when own pitch/roll are 0",
              "tilted parentOrientation, non-zero own yaw, a heading-based operator on the point"),
    "C08-1": ("abs(CONST - X) <= c: shift sign not negated when normalising to X + shift",
              "a requirement of exactly that form bounding a relative heading used for pruning"),
    "C08-2": ("visibilityBound adds the observer's radius instead of the target's",
              "relative-heading pruning taking its distance bound from visibility, target larger than observer, cell gap between the two bounds"),
    "C09-1": ("positional-only defaults and ordinary defaults concatenated in the wrong order in make_arguments",
              "one signature with both a defaulted positional-only and a defaulted ordinary parameter"),
    "C09-2": ("merged loop visitor sets inLoop = False on exit instead of restoring it",
              "break/continue of an outer loop after a nested inner loop inside a try-interrupt block of a behavior"),
    "C10-1": ("read + parse_string moved above the try/finally that deactivates the veneer",
              "syntax error in an *imported* Scenic module leaves the veneer active"),
    "C10-2": ("errors.getText indexes readlines()[lineno - 1] without fallback",
              "real file whose error is on the line just past the end (truncated `if x:` etc.): IndexError while building the error"),
    "C11-1": ("(not kept) resume-the-scan cache in the withdrawn _UntilMonitor", "no longer applies: the repair it modified was withdrawn"),
    "C11-2": ("compose-block `require` calls toMonitor() twice; the kept monitor misses the step the statement ran",
              "temporal require executed in a compose block whose first-step value matters but is not definitively false"),
    "C12-1": ("`for D seconds` converted with int(D / timestep)",
              "duration in seconds whose quotient by the time step is not an exact integer in floating point (0.3 s at 0.1)"),
    "C12-2": ("top-level time limit counter not reset when a scenario object is simulated again",
              "`terminate after N` at top level and a scene simulated twice (or maxIterations >= 2 with a rejected first attempt)"),
    "C13-1": ("return check uses the propagate flag: `return` acts like abort of the outer statement",
              "`return` in a try-interrupt nested in a block of another one with a loop between the two"),
    "C13-2": ("invariants re-checked after every yield passing through a try-interrupt",
              "sub-behaviour invoked under try-interrupt / do-until that breaks and restores the caller's invariant"),
    "C14-1": ("object registered with the simulation only after createObjectInSimulator returns",
              "simulator that mutates the object and then fails at creation: proxy never disabled"),
    "C14-2": ("top-level time limit in seconds converted to steps in place",
              "`terminate after N seconds` and two simulations in one process with different time steps"),
    "C15-1": ("requirement dependencies gathered in a set again", ">= 3 random values referenced only from one requirement"),
    "C15-2": ("RNG state restored only for accepted samples",
              "non-convex mesh container (containment check draws from numpy's global generator) plus a rejected iteration and timing-driven check order"),
    "C16-1": ("footprint slab cache reused when it overlaps (not covers) the requested slab",
              "two operations in sequence on the same footprint object: small operand first, then a tall one sticking out of the cached slab"),
    "C16-2": ("containsRegion size rejection without the same-dimensionality guard",
              "zero tolerance, thin higher-dimensional container whose measure is below the inner lower-dimensional region's"),
    "C17-1": ("occluder pre-filter measures distance to the occluder's centre",
              "large occluder whose centre is beyond visibleDistance while its body covers the target"),
    "C17-2": ("camera position helper rotates cameraOffset by heading only",
              "non-zero cameraOffset and a viewer with pitch or roll"),
    "C18-1": ("abs() lost for scalar divergences", "scalar dynamic property replaying lower than recorded"),
    "C18-2": ("MultiplexerDistribution.deserializeValue re-reads an option already decoded",
              "discrete choice whose selected option is a random value also used (and decoded) earlier"),
    "C19-1": ("enabled items zipped with the weights of the full list",
              "dict form with non-uniform weights and an ineligible item listed before an eligible one"),
    "C19-2": ("weighted DiscreteRange returns the index instead of low + index", "user-written DiscreteRange(low, high, weights=...) with low != 0"),
    "C01-3": ("one shared random draw decides which soft requirements are enforced in a sample",
              "two or more soft requirements with probabilities strictly between 0 and 1 (marginals stay right, the joint does not)"),
    "C01-4": ("lazy values without required properties memoised across contexts: every instance shares one default Distribution",
              "class property with a random default not mentioning self, two instances using the default, joint distribution"),
    "C03-3": ("footprint slab cache reused when the new slab is merely centred inside the old one and shorter",
              "the same footprint intersected twice: a low slab first, then a shorter one sticking out of it"),
    "C03-4": ("containment pruning erodes the container by the *upper* bound of the object's inradius",
              "object with random dimensions placed in a region that is also (close to) its container"),
    "C05-3": ("TupleDistribution.evaluateInner drops the builder (list/tuple identity) when evaluated in a context",
              "list literal with a random element inside a class default depending on self"),
    "C05-4": ("distributionFunction wrapper tests keyword *names* instead of keyword values for randomness / laziness",
              "a distribution function called with a random or lazy keyword argument"),
    "C08-3": ("mesh-volume erosion pads the voxel grid by minBuffer in total instead of per side",
              "containment pruning of a mesh container by an object whose inradius is a sizeable fraction of the container"),
    "C08-4": ("heading interval with bounded disturbance: branch-cut endpoints added only when crossing +pi",
              "field-aligned object with a disturbance in a cell whose heading is next to -pi, requirement band beyond the cut"),
    "C12-3": ("a monitor's `terminate` inside a sub-scenario ends the whole simulation",
              "sub-scenario requiring a terminating monitor while its invoker still has work left"),
    "C12-4": ("schedule returned by scheduleForAgents consumed by validation when it is a one-shot iterable",
              "simulator whose schedule is a generator / iterator"),
    "C15-3": ("VoxelRegion sampler draws from a private numpy Generator seeded from OS entropy",
              "a point sampled uniformly from a VoxelRegion"),
    "C15-4": ("behaviour-namespace dependencies collected through `keys() - set` (a set of strings)",
              "two or more module-level random values referenced only from behaviour / monitor bodies, different hash seeds"),
    "C16-3": ("MeshRegion.projectVector picks the hit with the smallest *signed* offset",
              "both rays hit (gap of a non-convex volume, inside of a closed surface) and the nearer hit is on the + side"),
    "C16-4": ("shared helper reducing mixed shapely collections keeps the lowest-dimensional part present",
              "planar operands overlapping in area and also sharing a boundary stretch outside the overlap"),
    "C19-3": ("only the first precondition / invariant of a behaviour is compiled",
              "item of do choose / do shuffle whose first precondition holds and a later one does not"),
    "C19-4": ("eligibility of an invocable cached per (time step, agent)",
              "state read by a precondition changing between two polls within one step (instant item, shared object)"),
    "C20-1": ("map digest hashes the file in 64 KiB blocks and skips the final short block",
              "load, edit the tail of the map, load again with the cache on"),
    "C20-2": ("adjacent-lane de-duplication set created once per road instead of once per lane", "roads with three or more lanes"),
}

rows = []
for d in sorted(glob.glob(os.path.join(HERE, "seeded", "*"))):
    sid = os.path.basename(d)
    p = os.path.join(d, "meta.json")
    meta = json.load(open(p)) if os.path.exists(p) else {"id": sid, "breaks_property": sid.split("-")[0]}
    if sid in DESC:
        meta["what_it_changes"], meta["needs_to_manifest"] = DESC[sid]
    json.dump(meta, open(p, "w"), indent=1)
    chk = meta.get("check", {})
    det = chk.get("detected")
    rows.append((sid, meta.get("what_it_changes", "?"), meta.get("needs_to_manifest", "?"),
                 "yes" if det else ("NO" if det is False else "not evaluated"),
                 "; ".join(s.split(" (")[0] for s in chk.get("signatures", [])[:2])))
print("| id | change | needs | caught (quick) | by signature(s) |")
print("|---|---|---|---|---|")
for r in rows:
    print("| " + " | ".join(r) + " |")
