#!/usr/bin/env python3
"""Prints the per-property status table of DESIGN.md section 10 from evidence/, known_findings.json,
selftest/mutants/ and seeded/*/meta.json."""
import glob
import json
import os

HERE = os.path.dirname(os.path.abspath(__file__))
ev = {os.path.basename(f)[:-5]: json.load(open(f)) for f in glob.glob(os.path.join(HERE, "evidence", "*.json"))}
kf = json.load(open(os.path.join(HERE, "known_findings.json")))["findings"]
mut = {}
for f in os.listdir(os.path.join(HERE, "selftest", "mutants")):
    mut.setdefault(f.split("-")[0], []).append(f)
print("| ID | quick tier, last run: cases / distinct non-trivial / wall s | own mutants | seeded changes (quick) | "
      "defects repaired (first met by this check) | open finding patterns |")
print("|---|---|---|---|---|---|")
for pid in [f"C{i:02d}" for i in range(1, 21)]:
    e = ev.get(pid, {})
    c = e.get("coverage", {})
    fixed = sum(1 for k in kf if k["property"] == pid and k["status"] == "fixed")
    opn = sum(1 for k in kf if k["property"] == pid and k["status"] == "open")
    seeded = []
    for k in (1, 2, 3, 4):
        p = os.path.join(HERE, "seeded", f"{pid}-{k}", "meta.json")
        if os.path.exists(p):
            d = json.load(open(p)).get("check", {}).get("detected")
            seeded.append("caught" if d else ("missed" if d is False else "dropped"))
    print(f"| {pid} | {c.get('evaluations', '?')} / {c.get('distinct_nontrivial', '?')} / {e.get('wall_s', '?')} | "
          f"{len(mut.get(pid, []))} | {', '.join(seeded)} | {fixed} | {opn} |")
