"""Partitions of (composed) regions into cells of exactly known measure, for the uniformity
tests of C03.  Everything is computed from the oracle shapes of vf.regoracle (generator
parameters), never from Scenic objects.

A partition is (assign, measures): assign(X) -> integer cell index per sample (-1 = in no cell),
measures[i] = exact natural measure of cell i (volume / area / length)."""

from __future__ import annotations

import math

import numpy as np
import shapely
import shapely.affinity
import shapely.geometry as sg

from vf import regoracle as ro


class Unsupported(Exception):
    """No exact partition is available for this composition (the case is not generated)."""


# -- planar -----------------------------------------------------------------------------------

def grid_partition_2d(G, k=4):
    """Cells = k x k grid over the bounds of the shapely geometry G, clipped by G."""
    minx, miny, maxx, maxy = G.bounds
    dx, dy = (maxx - minx) / k, (maxy - miny) / k
    meas = np.zeros(k * k)
    for i in range(k):
        for j in range(k):
            cell = sg.box(minx + i * dx, miny + j * dy, minx + (i + 1) * dx, miny + (j + 1) * dy)
            meas[i * k + j] = G.intersection(cell).area

    def assign(XY):
        ix = np.clip(np.floor((XY[:, 0] - minx) / dx).astype(int), 0, k - 1)
        iy = np.clip(np.floor((XY[:, 1] - miny) / dy).astype(int), 0, k - 1)
        return ix * k + iy

    return assign, meas


def planar_geometry(o):
    if not isinstance(o, ro.Planar):
        raise Unsupported(o.kind)
    return o.as_polygon(1440)


def compose_2d(op, ga, gb):
    return {"intersect": ga.intersection, "union": ga.union, "difference": ga.difference}[op](gb)


# -- segments ---------------------------------------------------------------------------------

def segment_partition(A, B):
    """Cells = halves of the given segments (3D arrays A, B)."""
    A = np.asarray(A, float).reshape(-1, 3)
    B = np.asarray(B, float).reshape(-1, 3)
    L = np.linalg.norm(B - A, axis=1)
    keep = L > 1e-12
    A, B, L = A[keep], B[keep], L[keep]
    meas = np.repeat(L / 2, 2)

    def assign(X):
        if len(A) == 0:
            return np.full(len(X), -1)
        D = ro.seg_dist(X, A, B)
        s = D.argmin(axis=1)
        AB = B[s] - A[s]
        t = np.einsum("ij,ij->i", X - A[s], AB) / (L[s] ** 2)
        return 2 * s + (t >= 0.5).astype(int)

    return assign, meas


def line_pieces(geom, z=0.0):
    """Segments (A, B arrays) of a shapely (Multi)LineString / collection."""
    A, B = [], []

    def walk(g):
        if g.is_empty:
            return
        if isinstance(g, sg.LineString):
            c = list(g.coords)
            for p, q in zip(c, c[1:]):
                A.append((p[0], p[1], z))
                B.append((q[0], q[1], z))
        elif hasattr(g, "geoms"):
            for h in g.geoms:
                walk(h)

    walk(geom)
    return np.array(A, float).reshape(-1, 3), np.array(B, float).reshape(-1, 3)


# -- convex solids ------------------------------------------------------------------------------

def box_halfspaces(lo, hi):
    N = np.concatenate([np.eye(3), -np.eye(3)])
    off = np.concatenate([hi, -np.asarray(lo)])
    return N, off


def convex3_partition(op, oa, ob=None, k=2):
    """Grid of k^3 axis-parallel boxes over the bounding box of the composed set; measures by
    exact volumes of intersections of half-spaces (inclusion-exclusion for union/difference)."""
    Na, fa = ro.convex_halfspaces(oa)
    los, his = [np.asarray(oa.aabb()[0])], [np.asarray(oa.aabb()[1])]
    if ob is not None:
        Nb, fb = ro.convex_halfspaces(ob)
        if op == "union":
            los.append(np.asarray(ob.aabb()[0]))
            his.append(np.asarray(ob.aabb()[1]))
    lo, hi = np.min(los, axis=0), np.max(his, axis=0)
    d = (hi - lo) / k
    meas = np.zeros(k ** 3)
    for i in range(k):
        for j in range(k):
            for m in range(k):
                clo = lo + d * np.array([i, j, m])
                Nc, fc = box_halfspaces(clo, clo + d)
                va = ro.halfspace_volume(np.concatenate([Na, Nc]), np.concatenate([fa, fc]))
                if ob is None:
                    v = va
                else:
                    vab = ro.halfspace_volume(np.concatenate([Na, Nb, Nc]),
                                              np.concatenate([fa, fb, fc]))
                    if op == "intersect":
                        v = vab
                    elif op == "difference":
                        v = va - vab
                    else:
                        vb = ro.halfspace_volume(np.concatenate([Nb, Nc]), np.concatenate([fb, fc]))
                        v = va + vb - vab
                meas[(i * k + j) * k + m] = max(v, 0.0)

    def assign(X):
        idx = np.clip(np.floor((X - lo[None]) / d[None]).astype(int), 0, k - 1)
        return (idx[:, 0] * k + idx[:, 1]) * k + idx[:, 2]

    return assign, meas


# -- prisms and surfaces ------------------------------------------------------------------------

def prism_partition(o, k=3):
    a2, m2 = grid_partition_2d(o.poly, k)
    meas = np.concatenate([m2 * o.h / 2, m2 * o.h / 2])

    def assign(X):
        Q = o.local(X)
        return a2(Q[:, :2]) + (Q[:, 2] >= 0) * (k * k)

    return assign, meas


def box_surface_partition(b):
    h = b.half
    meas = []
    for ax in range(3):
        o1, o2 = [a for a in range(3) if a != ax]
        area = 4 * h[o1] * h[o2]
        meas += [area / 2] * 4  # two faces, each split in two along the first other axis
    meas = np.array(meas)

    def assign(X):
        Q = b.local(X)
        rel = np.abs(np.abs(Q) - h[None])
        ax = rel.argmin(axis=1)
        side = (Q[np.arange(len(Q)), ax] > 0).astype(int)
        o1 = np.where(ax == 0, 1, 0)
        half = (Q[np.arange(len(Q)), o1] > 0).astype(int)
        return ax * 4 + side * 2 + half

    return assign, meas


def prism_surface_partition(o, k=3, nbins=8):
    a2, m2 = grid_partition_2d(o.poly, k)
    A, B = line_pieces(o.poly.boundary)
    L = np.linalg.norm(B - A, axis=1)
    bins = np.arange(len(L)) % nbins
    wall = np.zeros(nbins)
    np.add.at(wall, bins, L * o.h)
    meas = np.concatenate([m2, m2, wall])

    def assign(X):
        Q = o.local(X)
        top = np.abs(Q[:, 2] - o.h / 2) <= 1e-7 * max(1.0, o.h)
        bot = np.abs(Q[:, 2] + o.h / 2) <= 1e-7 * max(1.0, o.h)
        c = a2(Q[:, :2])
        Q2 = np.c_[Q[:, :2], np.zeros(len(Q))]
        e = ro.seg_dist(Q2, A, B).argmin(axis=1)
        w = 2 * k * k + bins[e]
        # a point on the rim belongs to cap and wall alike: caps win only when strictly inside
        inside = shapely.contains_xy(o.poly, Q[:, 0], Q[:, 1])
        return np.where(top & inside, c, np.where(bot & inside, k * k + c, w))

    return assign, meas


# -- vertical extrusions (upright boxes / prisms, footprints) ------------------------------------

def vertical_operand(o):
    """(G, z0, z1) if `o` is a vertical extrusion: G = horizontal cross-section in world
    coordinates (shapely), [z0, z1] = vertical range (infinite for a footprint); else None."""
    if isinstance(o, ro.Footprint):
        return o.poly, -np.inf, np.inf
    if isinstance(o, (ro.Box, ro.Prism)):
        R = o.R
        if abs(R[2, 2] - 1.0) > 1e-12 or abs(R[2, 0]) > 1e-12 or abs(R[2, 1]) > 1e-12:
            return None
        if isinstance(o, ro.Box):
            g, hz = sg.box(-o.half[0], -o.half[1], o.half[0], o.half[1]), o.half[2]
        else:
            g, hz = o.poly, o.h / 2
        G = shapely.affinity.affine_transform(
            g, [R[0, 0], R[0, 1], R[1, 0], R[1, 1], o.pos[0], o.pos[1]])
        return G, float(o.pos[2] - hz), float(o.pos[2] + hz)
    return None


def vertical_partition(op, oa, ob, k=2):
    """op(A, B) for two vertical extrusions: the set is a stack of layers (between consecutive
    z-bounds of the operands), each a 2D Boolean combination of the cross-sections times an
    interval.  Cells = (sub-layer) x (k x k grid of the layer's cross-section)."""
    va, vb = vertical_operand(oa), vertical_operand(ob)
    if va is None or vb is None:
        raise Unsupported("not vertical")
    (Ga, a0, a1), (Gb, b0, b1) = va, vb
    if (op == "union" and not np.isfinite([a0, a1, b0, b1]).all()) or \
            (op == "difference" and not np.isfinite([a0, a1]).all()):
        raise Unsupported("unbounded")
    zs = sorted({z for z in (a0, a1, b0, b1) if np.isfinite(z)})
    layers = []
    for lo, hi in zip(zs, zs[1:]):
        mid = (lo + hi) / 2
        inA, inB = a0 < mid < a1, b0 < mid < b1
        if op == "intersect":
            G = Ga.intersection(Gb) if inA and inB else None
        elif op == "union":
            G = Ga.union(Gb) if inA and inB else Ga if inA else Gb if inB else None
        else:
            G = Ga.difference(Gb) if inA and inB else Ga if inA else None
        if G is None or G.is_empty or G.area <= 0 or hi - lo <= 0:
            continue
        layers.append((lo, hi, G))
    if not layers:
        raise Unsupported("empty")
    sub = 4 if len(layers) == 1 else 2
    parts, meas = [], []
    for lo, hi, G in layers:
        a2, m2 = grid_partition_2d(G, k)
        dz = (hi - lo) / sub
        for j in range(sub):
            parts.append((lo + j * dz, lo + (j + 1) * dz, a2, len(meas) * k * k))
            meas.append(m2 * dz)
    meas = np.concatenate(meas)

    def assign(X):
        idx = np.full(len(X), -1)
        for lo, hi, a2, base in parts:
            sel = (X[:, 2] >= lo) & (X[:, 2] < hi) & (idx < 0)
            if sel.any():
                idx[sel] = base + a2(X[sel, :2])
        # samples exactly on the topmost face
        top = (idx < 0) & (X[:, 2] == parts[-1][1])
        if top.any():
            idx[top] = parts[-1][3] + parts[-1][2](X[top, :2])
        return idx

    return assign, meas


def path_footprint_pieces(line, fp, inside):
    """Sub-segments (A, B) of the 3D segments of `line` whose horizontal projection lies
    inside (inside=True) / outside the footprint polygon."""
    A, B = [], []
    for a, b in zip(line.A, line.B):
        d2 = b[:2] - a[:2]
        L2 = float(np.hypot(*d2))
        if L2 < 1e-12:
            if bool(shapely.contains_xy(fp.poly, a[0], a[1])) == inside:
                A.append(a)
                B.append(b)
            continue
        ls = sg.LineString([tuple(a[:2]), tuple(b[:2])])
        g = ls.intersection(fp.poly) if inside else ls.difference(fp.poly)
        P, Q = line_pieces(g)
        for p, q in zip(P, Q):
            tp = float(np.dot(p[:2] - a[:2], d2)) / L2 ** 2
            tq = float(np.dot(q[:2] - a[:2], d2)) / L2 ** 2
            A.append(a + tp * (b - a))
            B.append(a + tq * (b - a))
    return np.array(A, float).reshape(-1, 3), np.array(B, float).reshape(-1, 3)


# -- entry points -------------------------------------------------------------------------------

def primitive_partition(o):
    if isinstance(o, (ro.Box, ro.Spheroid)):
        return convex3_partition(None, o)
    if isinstance(o, ro.Prism):
        return prism_partition(o)
    if isinstance(o, ro.SurfaceOf):
        if isinstance(o.solid, ro.Box):
            return box_surface_partition(o.solid)
        return prism_surface_partition(o.solid)
    if isinstance(o, ro.Planar):
        a2, m = grid_partition_2d(planar_geometry(o))
        return (lambda X: a2(X[:, :2])), m
    if isinstance(o, ro.Segments):
        return segment_partition(o.A, o.B)
    raise Unsupported(o.kind)


def composed_partition(op, oa, ob):
    """Partition of op(A, B) for the compositions whose measure is exactly computable."""
    conv = (ro.Box, ro.Spheroid)
    pa, pb = isinstance(oa, ro.Planar), isinstance(ob, ro.Planar)
    if pa and pb:
        if oa.planar_z == ob.planar_z:
            G = compose_2d(op, planar_geometry(oa), planar_geometry(ob))
            if G.is_empty or G.area <= 0:
                raise Unsupported("empty")
            a2, m = grid_partition_2d(G)
            return (lambda X: a2(X[:, :2])), m
        if op == "union":
            aa, ma = grid_partition_2d(planar_geometry(oa), 3)
            ab, mb = grid_partition_2d(planar_geometry(ob), 3)
            za = oa.planar_z

            def assign(X):
                return np.where(np.abs(X[:, 2] - za) <= ro.ZTINY, aa(X[:, :2]), 9 + ab(X[:, :2]))

            return assign, np.concatenate([ma, mb])
        raise Unsupported("planes")
    if isinstance(oa, conv) and isinstance(ob, conv):
        return convex3_partition(op, oa, ob)
    if (isinstance(oa, conv) and pb and op == "intersect") or \
            (pa and isinstance(ob, conv) and op in ("intersect", "difference")):
        solid, flat = (oa, ob) if pb else (ob, oa)
        sec = ro.convex_section_polygon(solid, flat.planar_z)
        G = compose_2d(op, planar_geometry(flat), sec)
        if G.is_empty or G.area <= 0:
            raise Unsupported("empty")
        a2, m = grid_partition_2d(G)
        return (lambda X: a2(X[:, :2])), m
    if isinstance(oa, ro.Segments) and oa.kind == "Polyline" and pb and op in ("intersect", "difference") \
            or (pa and isinstance(ob, ro.Segments) and ob.kind == "Polyline" and op == "intersect"):
        line, flat = (oa, ob) if pb else (ob, oa)
        if flat.planar_z != 0:
            raise Unsupported("planes")
        ml = sg.MultiLineString([[tuple(a[:2]), tuple(b[:2])] for a, b in zip(line.A, line.B)])
        G = ml.intersection(planar_geometry(flat)) if op == "intersect" else ml.difference(planar_geometry(flat))
        A, B = line_pieces(G)
        if len(A) == 0:
            raise Unsupported("empty")
        return segment_partition(A, B)
    if op == "intersect" and ((isinstance(oa, ro.Segments) and isinstance(ob, conv)) or
                              (isinstance(ob, ro.Segments) and isinstance(oa, conv))):
        line, solid = (oa, ob) if isinstance(oa, ro.Segments) else (ob, oa)
        N, off = ro.convex_halfspaces(solid)
        rng = ro.clip_segments_convex(line.A, line.B, N, off)
        A = [a + t0 * (b - a) for (a, b, (t0, t1)) in zip(line.A, line.B, rng) if t1 > t0]
        B = [a + t1 * (b - a) for (a, b, (t0, t1)) in zip(line.A, line.B, rng) if t1 > t0]
        if not A:
            raise Unsupported("empty")
        return segment_partition(np.array(A), np.array(B))
    fa, fb = isinstance(oa, ro.Footprint), isinstance(ob, ro.Footprint)
    if (isinstance(oa, ro.Segments) and oa.kind == "Path" and fb and op in ("intersect", "difference")) \
            or (fa and isinstance(ob, ro.Segments) and ob.kind == "Path" and op == "intersect"):
        line, fp = (oa, ob) if fb else (ob, oa)
        A, B = path_footprint_pieces(line, fp, inside=(op == "intersect"))
        if len(A) == 0:
            raise Unsupported("empty")
        return segment_partition(A, B)
    if vertical_operand(oa) is not None and vertical_operand(ob) is not None:
        return vertical_partition(op, oa, ob)
    raise Unsupported(f"{op}:{oa.kind}x{ob.kind}")


def selftest():
    def req(c, what):
        if not c:
            raise ro.OracleError("c03_cells self-check failed: " + what)

    sq = ro.Polygon(sg.Polygon([(0, 0), (4, 0), (4, 4), (0, 4)]), 2.0)
    a, m = primitive_partition(sq)
    req(np.allclose(m, 1.0) and len(m) == 16, "square grid")
    req(list(a(np.array([[0.5, 0.5, 2.0], [3.5, 0.5, 2.0], [0.5, 3.5, 2.0]]))) == [0, 12, 3], "square assign")
    b1 = ro.Box((2, 2, 2), (0, 0, 0))
    b2 = ro.Box((2, 2, 2), (1, 0, 0))
    for op, tot in (("intersect", 4.0), ("union", 12.0), ("difference", 4.0)):
        a, m = convex3_partition(op, b1, b2)
        req(abs(m.sum() - tot) < 1e-9, "box-box " + op)
    a, m = box_surface_partition(ro.Box((2, 4, 6), (0, 0, 0)))
    req(abs(m.sum() - 88.0) < 1e-12 and len(set(a(np.array([[1, 0.5, 0.5], [1, -0.5, 0.5], [-1, 0.5, 0.5],
                                                           [0.3, 2, 1], [0.3, 0.4, -3]])))) == 5, "box surface")
    L = sg.Polygon([(0, 0), (2, 0), (2, 1), (1, 1), (1, 2), (0, 2)])
    p = ro.Prism(L, 2.0, (0, 0, 0))
    a, m = prism_partition(p)
    req(abs(m.sum() - 6.0) < 1e-9, "prism cells")
    a, m = prism_surface_partition(p)
    req(abs(m.sum() - 22.0) < 1e-9, "prism surface cells")
    S = ro.SurfaceOf(p).sample(np.random.default_rng(0), 4000)
    idx = a(S)
    cnt = np.bincount(idx, minlength=len(m))
    exp = m / m.sum() * 4000
    req(np.all(np.abs(cnt - exp) < 6 * np.sqrt(exp + 1) + 1), "prism surface assignment matches measures")
    seg = ro.Segments([[(0, 0, 0), (4, 0, 0)]])
    a, m = composed_partition("intersect", seg, ro.Box((2, 2, 2), (0, 0, 0)))
    req(abs(m.sum() - 1.0) < 1e-9, "segment clipped by box")
    pl = ro.Segments([[(-1, 2), (9, 2)]], kind="Polyline")
    a, m = composed_partition("difference", pl, ro.Polygon(sg.Polygon([(0, 0), (4, 0), (4, 4), (0, 4)]), 0.0))
    req(abs(m.sum() - 6.0) < 1e-9, "polyline minus polygon")
    # upright box 2x2x4 at z in [8, 12] and the footprint of the unit-offset square [1,3]x[-5,5]
    ub = ro.Box((2, 2, 4), (1, 0, 10), (0.0, 0, 0))
    fpr = ro.Footprint(sg.Polygon([(1, -5), (3, -5), (3, 5), (1, 5)]))
    a, m = composed_partition("intersect", ub, fpr)
    req(abs(m.sum() - 1 * 2 * 4) < 1e-9 and len(m) == 16, "box x footprint")
    got = a(np.array([[1.2, -0.5, 8.5], [1.2, -0.5, 11.5], [1.7, 0.5, 11.5], [1.5, 0, 12.0], [1.5, 0, 13.0]]))
    req(list(got) == [0, 12, 15, 15, -1], "box x footprint assign")
    a, m = composed_partition("difference", ub, fpr)
    req(abs(m.sum() - 8.0) < 1e-9, "box minus footprint")
    ub2 = ro.Box((2, 2, 2), (1, 1, 12), (math.pi / 2, 0, 0))
    for op, tot in (("intersect", 2.0), ("union", 16 + 8 - 2.0), ("difference", 14.0)):
        a, m = vertical_partition(op, ub, ub2)
        tot2 = convex3_partition(op, ub, ub2)[1].sum()
        req(abs(m.sum() - tot) < 1e-9 and abs(tot2 - tot) < 1e-6, "upright boxes " + op)
    try:
        composed_partition("union", ub, fpr)
        req(False, "unbounded union accepted")
    except Unsupported:
        pass
    zz = ro.Segments([[(0, 0, 0), (4, 0, 3)], [(2, 1, 0), (2, 1, 7)], [(9, 9, 0), (9, 9, 1)]])
    a, m = composed_partition("intersect", fpr, zz)
    req(abs(m.sum() - (2.5 + 7.0)) < 1e-9, "path x footprint")
    a, m = composed_partition("difference", zz, fpr)
    req(abs(m.sum() - (2.5 + 1.0)) < 1e-9, "path minus footprint")
    return True
