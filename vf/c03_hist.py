"""Generator of *histories* for C03 (plain JSON, pure function of the harness RNG).

One shared region object meets 2-4 partners one after the other: compositions in both operand
orders, membership / intersection queries and small draws in between, sampling of a result
possibly deferred until later operations have happened, an earlier partner met again at the end.
A shared polygon is used both as itself (planar operand) and through its `footprint`.  Partners
of a footprint are upright solids / paths whose vertical slabs differ by orders of magnitude and
are placed *relative to an earlier slab scaled by 1 ... 1000* (inside it, sticking out of its
top / bottom, covering it, clear of it), so that whatever the shared object memoised for an
earlier partner (padded bounded footprints, cached results) does or does not fit the later one.

Only compositions whose measure `vf.c03_cells.composed_partition` computes exactly and whose
result the library can sample are generated."""

from __future__ import annotations

import math

from vf.c16_gen import gen_poly, gen_shape, r3

SHARED = ["Footprint"] * 4 + ["Polygon"] * 4 + ["Box", "Box", "MeshVol", "MeshVol", "Circle", "Rectangle"]

# (op, order): order "SP" = shared.op(partner), "PS" = partner.op(shared)
ALL6 = [(op, o) for op in ("intersect", "union", "difference") for o in ("SP", "PS")]
MENU = {
    ("fp", "solid"): [("intersect", "PS"), ("intersect", "SP"), ("difference", "PS")],
    ("fp", "Path"): [("intersect", "SP"), ("intersect", "PS"), ("difference", "PS")],
    ("planar", "convex"): [("intersect", "SP"), ("intersect", "PS"), ("difference", "SP")],
    ("planar", "planar"): ALL6,
    ("solid", "Footprint"): [("intersect", "SP"), ("intersect", "PS"), ("difference", "SP")],
    ("box", "convex"): ALL6,
    ("box", "planar"): [("intersect", "SP"), ("intersect", "PS"), ("difference", "PS")],
    ("box", "Path"): [("intersect", "SP"), ("intersect", "PS")],
    ("solid", "upright"): ALL6,
}

SCALES = [1, 10, 100, 100, 100, 1000]
RELATIONS = ["inside", "poke-top", "poke-top", "poke-bottom", "poke-bottom", "cover", "clear", "same"]


def next_slab(rnd, slabs, base):
    """(centre, height, label) of the vertical slab of the next partner."""
    if not slabs or rnd.random() < 0.15:
        h = 10 ** rnd.uniform(-1, 1.3)
        return base + rnd.uniform(-1, 1) * h, h, "first" if not slabs else "unrelated"
    ci, hi = slabs[-1] if rnd.random() < 0.6 else rnd.choice(slabs)
    k = rnd.choice(SCALES)
    # the earlier slab as something derived from it may remember it: scaled about its centre,
    # possibly after "a little extra" was added to its height
    H = k * (hi + rnd.choice([0.0, 1.0]))
    rel = rnd.choice(RELATIONS)
    if rel == "inside":
        h = H * 10 ** rnd.uniform(-2, -0.05)
        zc = ci + rnd.uniform(-1, 1) * (H - h) / 2
    elif rel in ("poke-top", "poke-bottom"):
        h = H * rnd.uniform(0.05, 0.95)
        zc = H / 2 - rnd.uniform(0.05, 0.95) * h / 2
        zc = ci + zc if rel == "poke-top" else ci - zc
    elif rel == "cover":
        h = H * rnd.uniform(1.1, 3.0)
        zc = ci + rnd.uniform(-0.3, 0.3) * H
    elif rel == "clear":
        h = H * 10 ** rnd.uniform(-1.5, 0)
        zc = ci + rnd.choice([-1, 1]) * (H / 2 + h / 2 + rnd.uniform(0.01, 1) * H)
    else:
        h, zc = hi, ci
    h = min(max(h, 0.05), 1500.0)
    # (mesh Booleans run in single precision: a slab a million units away from the shapes it
    # meets loses decimetre-wide parts to rounding, which is not what this family is about)
    zc = max(base - 3000.0, min(base + 3000.0, zc))
    return zc, h, f"{rel}@{k}"


def upright(kind, rnd, c, s, zc, h):
    ctr = [r3(c[0] + rnd.uniform(-0.4, 0.4) * s), r3(c[1] + rnd.uniform(-0.4, 0.4) * s), float(r3(zc))]
    yaw = [r3(rnd.uniform(-math.pi, math.pi)), 0.0, 0.0]
    h = max(float(r3(h)), 0.05)
    if kind == "Box":
        return {"kind": "Box", "dims": [r3(s * rnd.uniform(0.3, 1.5)), r3(s * rnd.uniform(0.3, 1.5)), h],
                "pos": ctr, "rot": yaw}
    return {"kind": "MeshVol", "poly": gen_poly(rnd, 0.0, 0.0, s * 0.6, multi=False), "height": h,
            "pos": ctr, "rot": yaw}


def path_through(rnd, c, s, zc, h):
    pl = []
    for j in range(rnd.randint(2, 4)):
        pl.append([r3(c[0] + rnd.uniform(-0.8, 0.8) * s), r3(c[1] + rnd.uniform(-0.8, 0.8) * s),
                   float(r3(zc + (j % 2 - 0.5) * h * rnd.uniform(0.7, 1.0)))])
    return {"kind": "Path", "lines": [pl]}


def in_plane(spec, z):
    z = float(z)
    if spec["kind"] == "Polygon":
        spec["z"] = z
    elif spec["kind"] in ("Circle", "Sector"):
        spec["center"][2] = z
    elif spec["kind"] == "Rectangle":
        spec["pos"][2] = z
    return spec


def gen_hist(rnd):
    s = rnd.uniform(2.0, 6.0)
    zp = float(r3(rnd.choice([0.0, rnd.uniform(-2, 2), rnd.uniform(-30, 30)])))
    c = [r3(rnd.uniform(-40, 40)), r3(rnd.uniform(-40, 40)), zp]
    ctx = {"c": c, "zp": zp, "s": s, "members": []}
    sk = rnd.choice(SHARED)
    slabs = []
    if sk in ("Box", "MeshVol"):
        zc, h, _ = next_slab(rnd, [], zp)
        h = max(h, 0.3)
        shared = upright(sk, rnd, c, s, zc, h)
        shared["pos"][0], shared["pos"][1] = c[0], c[1]
        s_lo, s_hi = shared["pos"][2] - h / 2, shared["pos"][2] + h / 2
    else:
        shared = in_plane(gen_shape(sk, rnd, ctx), zp)
    partners, labels, plans = [], [], []
    for j in range(rnd.randint(3, 4) if sk == "Footprint" else rnd.randint(2, 4)):
        if sk == "Footprint" or (sk == "Polygon" and rnd.random() < 0.65):
            role = "fp"
            pk = rnd.choice(["Box", "Box", "MeshVol", "MeshVol", "Path"])
            zc, h, lab = next_slab(rnd, slabs, zp)
            slabs.append((zc, h))
            spec = path_through(rnd, c, s, zc, h) if pk == "Path" else upright(pk, rnd, c, s, zc, h)
            menu = MENU[("fp", "Path" if pk == "Path" else "solid")]
        elif sk in ("Polygon", "Circle", "Rectangle"):
            role, lab = "self", "in-plane"
            pk = rnd.choice(["Box", "Spheroid", "Circle", "Rectangle", "Polygon"])
            spec = in_plane(gen_shape(pk, rnd, ctx), zp)
            menu = MENU[("planar", "convex" if pk in ("Box", "Spheroid") else "planar")]
        else:
            role = "self"
            zin = rnd.uniform(s_lo + 0.1 * (s_hi - s_lo), s_hi - 0.1 * (s_hi - s_lo))  # clear of the faces
            cc = [c[0], c[1], float(r3(zin))]
            kinds = ["Footprint", "Footprint", "Box", "MeshVol"] if sk == "MeshVol" else \
                ["Footprint", "Footprint", "Box", "Spheroid", "Polygon", "Circle", "Path"]
            pk = rnd.choice(kinds)
            lab = "through-shared"
            if pk == "Footprint":
                spec = gen_shape("Footprint", rnd, {"c": cc, "zp": zin, "s": s, "members": []})
                menu = MENU[("solid", "Footprint")]
            elif sk == "MeshVol":
                zc, h, lab = next_slab(rnd, [(shared["pos"][2], s_hi - s_lo)], zin)
                zc = zin + rnd.uniform(-0.4, 0.4) * h  # overlaps the shared solid's slab
                spec = upright(pk, rnd, c, s, zc, h)
                menu = MENU[("solid", "upright")]
            elif pk in ("Box", "Spheroid"):
                spec = gen_shape(pk, rnd, {"c": cc, "zp": zin, "s": s, "members": []})
                menu = MENU[("box", "convex")]
            elif pk == "Path":
                spec = path_through(rnd, c, s, zin, min(s_hi - s_lo, 4 * s) * 1.3)
                menu = MENU[("box", "Path")]
            else:
                spec = in_plane(gen_shape(pk, rnd, {"c": cc, "zp": zin, "s": s, "members": []}), r3(zin))
                menu = MENU[("box", "planar")]
        partners.append(spec)
        labels.append(lab)
        plans.append((role, rnd.sample(menu, rnd.choice([1, 1, 2]))))
    # --- the sequence of operations
    steps, deferred, rid = [], [], 0
    budget = 4  # judged samplings per history

    def probe(j, role):
        u = rnd.random()
        pt = [r3(c[0] + rnd.uniform(-0.7, 0.7) * s), r3(c[1] + rnd.uniform(-0.7, 0.7) * s),
              float(r3(zp + rnd.choice([0.0, rnd.uniform(-3, 3), rnd.uniform(-300, 300)])))]
        if u < 0.4:
            return {"t": "probe", "what": "containsPoint", "role": role, "pt": pt}
        if u < 0.8:
            return {"t": "probe", "what": "intersects", "role": role, "j": j,
                    "order": rnd.choice(["SP", "PS"])}
        return {"t": "probe", "what": "size", "role": role}

    def compose(j, role, op, order):
        nonlocal rid, budget
        first = not steps  # nothing has happened yet: sampling right away would judge no history
        steps.append({"t": "compose", "r": rid, "j": j, "role": role, "op": op, "order": order})
        if first and rnd.random() < 0.5:
            pass
        elif budget > 0:
            budget -= 1
            if not first and rnd.random() < 0.6:
                steps.append({"t": "judge", "r": rid})
            else:
                deferred.append(rid)
        elif rnd.random() < 0.5:
            steps.append({"t": "probe", "what": "sample", "r": rid})
        rid += 1

    for j, (role, ops) in enumerate(plans):
        if rnd.random() < 0.35:
            steps.append(probe(j, role))
        for op, order in ops:
            compose(j, role, op, order)
        if deferred and rnd.random() < 0.3:
            steps.append({"t": "probe", "what": "sample", "r": rnd.choice(deferred)})
    if rnd.random() < 0.4 and len(plans) >= 2:
        j = rnd.randrange(len(plans) - 1)  # an earlier partner met again
        role, ops = plans[j]
        op, order = rnd.choice(ops)
        budget = max(budget, 1)
        compose(j, role, op, order)
        steps[-1 if steps[-1]["t"] == "compose" else -2]["again"] = True
    rnd.shuffle(deferred)
    steps += [{"t": "judge", "r": r} for r in deferred]
    return {"shared": shared, "partners": partners, "slabs": labels, "steps": steps}
