"""Plain-Python helpers shared by the generated C05 Scenic programs (which import this module)
and by the oracle (which calls the very same functions on the sampled values)."""

from __future__ import annotations

import collections

Pair = collections.namedtuple("Pair", "a b")
Trip = collections.namedtuple("Trip", "u v w")


def f_lin(u, v):
    return u * 10 + v


def f_kw(u, *, scale=1, shift=0):
    return u * scale + shift


def f_pair(u):
    return (u, u + 1)


def f_sum(u, *rest):
    return u + sum(rest)


def f_mix(u, v=2, *rest, k=0):
    return u - v + len(rest) + k


def g_double(u, bonus=0):
    return 2 * u + bonus


def g_square(u, bonus=0):
    return u * u + bonus


class Box:
    """An ordinary Python object with attributes, a property and methods."""

    def __init__(self, k, label):
        self.k = k
        self.label = label
        self.items = (k, k + 1, k + 2)

    @property
    def twice(self):
        return 2 * self.k

    def scale(self, x, factor=1):
        return self.k * x * factor

    def tag(self, suffix="", *, sep="-"):
        return self.label + sep + str(suffix)

    def pick(self, i):
        return self.items[i]

    def __repr__(self):
        return f"Box({self.k}, {self.label!r})"


BOXES = [Box(2, "two"), Box(3, "three"), Box(-1, "neg")]
