"""Runs *inside* the compilation of a generated Scenic program (imported by that program).

The program rebinds the global name `new` (which compiled `new C <specifiers>` expressions look
up) to `capture`; each captured specifier list is then resolved in every order through
`cls._withSpecifiers`, exactly what `new` does, while `Specifier.getValuesFor` is wrapped to
log the order of evaluation and the state of the object under construction.
"""

from __future__ import annotations

import itertools

RESULTS = []          # one entry per captured `new`
PLAN = []             # per capture: list of atom ids, in the order written
MAXPERMS = [0]
_MISSING = object()
CONFIG = {}


def simple_values(obj, ids):
    out = {}
    for p in ("foo", "yaw", "pitch", "width", "contactTolerance", "position"):
        try:
            v = getattr(obj, p)
        except AttributeError:
            continue
        try:
            if p == "position":
                out[p] = [float(v.x), float(v.y), float(v.z)]
            else:
                out[p] = float(v)
        except Exception:
            out[p] = repr(v)[:60]
    return out


def install(g):
    """Called from the generated program: from now on `new C ...` is captured."""
    cap = Capture(CONFIG["atoms"], CONFIG["mode2D"], values_of=simple_values)
    g["_real_new"] = g["new"]
    g["new"] = cap
    info = {}
    for name in ("Point", "OrientedPoint", "Object"):
        cls = g[name]
        info[name] = {"props": sorted(cls._defaults), "finals": sorted(cls._finalProperties),
                      "deps": {p: sorted(sp.requiredProperties) for p, sp in cls._defaults.items()}}
    CONFIG["class_info"] = info


def uninstall(g):
    g["new"] = g["_real_new"]


def begin(plan, maxperms=0):
    RESULTS.clear()
    PLAN[:] = plan
    MAXPERMS[0] = maxperms


def classify(exc):
    """Error kind of an exception raised by object creation."""
    from scenic.core.errors import SpecifierError

    msg = str(exc)
    if isinstance(exc, SpecifierError):
        if "specified twice with the same priority" in msg:
            return "ambiguous"
        if "to modify itself" in msg:
            return "duplicate-name"
        if "cannot be directly specified" in msg:
            return "final-specified"
        if "depends on itself" in msg:
            return "cyclic"
        if "is not specified" in msg:
            return "missing-dependency"
        if "modified twice" in msg:
            return "modified-twice"
    if isinstance(exc, TypeError) and 'Cannot use modifying "on V"' in msg:
        return "on-vector-modifying"
    return "other:" + type(exc).__name__


def resolve_logged(cls, specs, atom_of, interesting_deps):
    """Create an object from `specs` (in this order); returns the observed outcome.

    atom_of: {id(spec): atom id}; interesting_deps: {atom id: [documented dependencies]}."""
    from scenic.core.specifiers import Specifier

    events = []  # (spec, snapshot of context {prop: value object})
    orig = Specifier.getValuesFor

    def logged(self, context):
        snap = {k: v for k, v in context.__dict__.items() if k != "_evaluated"}
        events.append((self, snap))
        return orig(self, context)

    Specifier.getValuesFor = logged
    try:
        try:
            obj = cls._withSpecifiers(list(specs), register=False)
        except Exception as e:  # classified, never swallowed: the kind is the outcome
            from vf import core

            return {"status": "error", "kind": classify(e), "msg": str(e)[:200],
                    "sig": core.exc_signature(e)}
    finally:
        Specifier.getValuesFor = orig

    # 2D mode replaces `with heading X` by a fresh `facing X` specifier (porting.rst)
    if CONFIG.get("mode2D") and "whead" in atom_of.values():
        atom_of = dict(atom_of)
        for spec, _ in events:
            if id(spec) not in atom_of and spec.name == "Facing":
                atom_of[id(spec)] = "whead"
    final = {p: getattr(obj, p) for p in obj.properties}
    # who assigned what: a property that appears (or changes identity) between two evaluations
    # was assigned by the specifier evaluated in between
    owner, modifier = {}, {}
    snaps = [s for _, s in events[1:]] + [final]
    for (spec, before), after in zip(events, snaps):
        label = atom_of.get(id(spec))
        if label is None:
            label = "default" if spec.name == "PropertyDefault" else "rewritten:" + spec.name
        for p, v in after.items():
            if p not in before:
                owner[p] = label
            elif before[p] is not v:
                modifier[p] = label
    # dependencies final at evaluation time?
    early = []
    for spec, before in events:
        a = atom_of.get(id(spec))
        deps = interesting_deps.get(a, spec.requiredProperties if a is None else ())
        for d in deps:
            if d not in final:
                continue
            if before.get(d, _MISSING) is not final[d]:
                early.append([str(a or spec.name), d])
    order = [atom_of.get(id(s), "default" if s.name == "PropertyDefault" else "rewritten:" + s.name)
             for s, _ in events]
    return {"status": "ok", "owner": owner, "modifier": modifier, "early": early,
            "order": [o for o in order if o != "default"], "obj": obj}


class Capture:
    def __init__(self, atoms, mode2D, values_of=None):
        self.atoms = atoms  # {atom id: {"deps": [...]}}
        self.mode2D = mode2D
        self.k = 0
        self.values_of = values_of

    def __call__(self, cls, specs):
        ids = PLAN[self.k]
        self.k += 1
        assert len(ids) == len(specs), (ids, specs)
        atom_of = {id(s): a for s, a in zip(specs, ids)}
        deps = {a: self.atoms[a]["deps"] for a in ids}
        if cls.__name__.startswith("Point") and "whead" in deps:
            deps["whead"] = []  # a Point has no heading: plain `with` in both modes
        perms = list(itertools.permutations(range(len(specs))))
        if MAXPERMS[0] and len(perms) > MAXPERMS[0]:
            perms = perms[:: max(1, len(perms) // MAXPERMS[0])][: MAXPERMS[0]]
        outs = []
        for perm in perms:
            r = resolve_logged(cls, [specs[i] for i in perm], atom_of, deps)
            obj = r.pop("obj", None)
            if obj is not None and self.values_of is not None:
                r["values"] = self.values_of(obj, ids)
            r["perm"] = list(perm)
            outs.append(r)
        RESULTS.append({"cls": cls.__name__, "ids": ids, "outs": outs,
                        "class_props": sorted(cls._defaults),
                        "declared": [{"prios": dict(s.priorities), "deps": list(s.requiredProperties),
                                      "modifiable": sorted(getattr(s, "modifiable_props", ())),
                                      "name": s.name} for s in specs]})
        return None
