"""Reference specifier resolver for C06, written from docs/reference/specifiers.rst
("Specifier Resolution" and the introduction).  Set-based, therefore order-free.

A specifier is a dict
    {"name": str, "prios": {prop: int}, "deps": [prop...], "modifiable": [prop...]}
(`modifiable` non-empty = a *modifying* specifier).  Class defaults are {prop: [deps...]};
`finals` are derived properties which may not be specified.

resolve() returns
    {"status": "ok", "owner": {prop: name|"default"}, "modifier": {prop: name}, "after": {...}}
or  {"status": "error", "kinds": set of applicable error kinds}.

Error kinds: "ambiguous" (step 1: a property specified twice at one priority level),
"final-specified", "modified-twice", "missing-dependency", "cyclic" (step 4).
"""

from __future__ import annotations

DEFAULT = "default"


def resolve(specs, defaults, finals=()):
    kinds = set()
    names = [s["name"] for s in specs]
    assert len(set(names)) == len(names), names
    props = set(defaults)
    for s in specs:
        props.update(s["prios"])

    # derived (final) properties cannot be specified
    for s in specs:
        if any(p in finals for p in s["prios"]):
            kinds.add("final-specified")

    # step 1: the same priority level used twice for one property.  A modifying specifier does
    # not clash on the properties it can modify ("they take the already-specified value and
    # manipulate it"); two modifiers of one property are an error ("no property can be modified
    # twice").
    owner, modifier = {}, {}
    for p in sorted(props):
        normal = [(s["prios"][p], s["name"]) for s in specs
                  if p in s["prios"] and p not in s.get("modifiable", ())]
        mods = [(s["prios"][p], s["name"]) for s in specs
                if p in s["prios"] and p in s.get("modifiable", ())]
        levels = [k for k, _ in normal]
        if len(set(levels)) != len(levels):
            kinds.add("ambiguous")
        if len(mods) > 1:
            kinds.add("modified-twice")
        best = min(normal) if normal else None
        if mods:
            mk, mname = min(mods)
            if best is None or mk < best[0]:
                owner[p] = mname  # acts as an ordinary specifier
            else:
                owner[p] = best[1]
                modifier[p] = mname
        elif best is not None:
            owner[p] = best[1]
        elif p in defaults:
            owner[p] = DEFAULT
        # else: not a property of the object (only mentioned as a dependency)

    # steps 3-4: dependency graph over the specifiers actually used.  Node = specifier name or
    # ("default", prop).  A value someone depends on is final only after its modifier ran.
    def provider(p):
        if p in modifier:
            return modifier[p]
        o = owner.get(p)
        if o is None:
            return None
        return (DEFAULT, p) if o == DEFAULT else o

    deps_of = {}
    for s in specs:
        d = set()
        for q in s["deps"]:
            pr = provider(q)
            if pr is None:
                kinds.add("missing-dependency")
            else:
                d.add(pr)
        for p, m in modifier.items():
            if m == s["name"]:
                d.add(owner[p] if owner[p] != DEFAULT else (DEFAULT, p))
        deps_of[s["name"]] = d
    for p, o in owner.items():
        if o == DEFAULT:
            d = set()
            for q in defaults[p]:
                pr = provider(q)
                if pr is None:
                    kinds.add("missing-dependency")
                else:
                    d.add(pr)
            deps_of[(DEFAULT, p)] = d

    # cycle detection (Kahn)
    indeg = {n: 0 for n in deps_of}
    users = {n: [] for n in deps_of}
    for n, ds in deps_of.items():
        for d in ds:
            if d in deps_of:
                indeg[n] += 1
                users[d].append(n)
    ready = [n for n, k in indeg.items() if k == 0]
    done = 0
    while ready:
        n = ready.pop()
        done += 1
        for u in users[n]:
            indeg[u] -= 1
            if indeg[u] == 0:
                ready.append(u)
    if done != len(deps_of):
        kinds.add("cyclic")

    if kinds:
        return {"status": "error", "kinds": kinds, "owner": owner, "modifier": modifier}
    return {"status": "ok", "owner": owner, "modifier": modifier, "deps_of": deps_of}


def evaluate(specs, defaults, res):
    """Token values of every property for the synthetic family: the value a specifier gives a
    property is (name, prop, (values of its dependencies...)[, modified value])."""
    by_name = {s["name"]: s for s in specs}
    owner, modifier = res["owner"], res["modifier"]
    base, final = {}, {}

    def dep_vals(deps):
        return tuple(value(q) for q in sorted(deps))

    def base_value(p):
        if p not in base:
            o = owner[p]
            if o == DEFAULT:
                base[p] = (DEFAULT, p, dep_vals(defaults[p]))
            else:
                base[p] = (o, p, dep_vals(by_name[o]["deps"]))
        return base[p]

    def value(p):
        if p not in final:
            if p in modifier:
                m = modifier[p]
                final[p] = (m, p, dep_vals(by_name[m]["deps"]), "mod", base_value(p))
            else:
                final[p] = base_value(p)
        return final[p]

    return {p: value(p) for p in owner}


def selfcheck():
    from vf import core

    def need(c, what):
        if not c:
            raise core.HarnessError("c06_ref selfcheck: " + what)

    D = {"position": [], "parentOrientation": [], "yaw": [], "width": [],
         "orientation": ["yaw", "parentOrientation"], "heading": ["orientation"],
         "baseOffset": [], "contactTolerance": [], "onDirection": []}
    F = ("orientation", "heading")
    at = {"name": "at", "prios": {"position": 1}, "deps": []}
    leftop = {"name": "left", "prios": {"position": 1, "parentOrientation": 3}, "deps": ["width"]}
    wpo = {"name": "wpo", "prios": {"parentOrientation": 1}, "deps": []}
    vis = {"name": "vis", "prios": {"position": 3}, "deps": []}
    nvis = {"name": "nvis", "prios": {"position": 3}, "deps": []}
    on = {"name": "on", "prios": {"position": 1, "parentOrientation": 2},
          "deps": ["baseOffset", "contactTolerance", "onDirection"], "modifiable": ["position"]}
    ahead = {"name": "ahead", "prios": {"position": 1, "parentOrientation": 3}, "deps": []}
    leftv = {"name": "leftv", "prios": {"position": 1}, "deps": ["width", "orientation"]}
    ftow = {"name": "ftow", "prios": {"yaw": 1}, "deps": ["position", "parentOrientation"]}
    whead = {"name": "whead", "prios": {"heading": 1}, "deps": []}
    r = resolve([leftop, wpo], D, F)  # the introduction's example: with overrides priority 3
    need(r["status"] == "ok" and r["owner"]["parentOrientation"] == "wpo"
         and r["owner"]["position"] == "left" and r["owner"]["yaw"] == DEFAULT, "override")
    need(resolve([at, leftop], D, F)["kinds"] == {"ambiguous"}, "same priority")
    need(resolve([at, vis, nvis], D, F)["kinds"] == {"ambiguous"}, "step 1 is per level")
    r = resolve([at, vis], D, F)
    need(r["status"] == "ok" and r["owner"]["position"] == "at", "priority 1 beats 3")
    # "new Object ahead of taxi by 100, on road": on modifies position, wins parentOrientation
    r = resolve([ahead, on], D, F)
    need(r["status"] == "ok" and r["owner"]["position"] == "ahead"
         and r["modifier"] == {"position": "on"} and r["owner"]["parentOrientation"] == "on",
         "on modifies")
    r = resolve([vis, on], D, F)
    need(r["status"] == "ok" and r["owner"]["position"] == "on" and not r["modifier"], "on specifies")
    need(resolve([leftv, ftow], D, F)["kinds"] == {"cyclic"}, "cycle through orientation")
    need(resolve([whead], D, F)["kinds"] == {"final-specified"}, "final")
    need(resolve([leftv], {"position": [], "width": []}, ())["kinds"] == {"missing-dependency"},
         "missing")
    r = resolve([ftow, on, at], D, F)
    need(r["status"] == "ok" and "on" in r["deps_of"]["ftow"], "dependants wait for the modifier")
    v = evaluate([ftow, on, at], D, r)
    need(v["position"][0] == "on" and v["position"][3] == "mod" and v["position"][4][0] == "at"
         and v["yaw"][2][1] == v["position"], "token evaluation")
