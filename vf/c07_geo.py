"""Frame algebra for the C07 oracle, written from the language reference in plain numpy.

Conventions (docs/reference: classes.rst -> OrientedPoint/Object docstrings, specifiers.rst,
operators.rst; tutorial "Orientations in Depth"):
  * right-handed axes, local X = right (width), local Y = ahead (length), local Z = up (height);
  * a heading h is a counter-clockwise rotation about +Z, heading 0 faces +Y ("North"),
    so `facing 45 deg` faces north-west;
  * an orientation (yaw, pitch, roll) is the *intrinsic* rotation sequence yaw about Z, then
    pitch about the new X, then roll about the new Y:  R = Rz(yaw) . Rx(pitch) . Ry(roll);
  * orientation = parentOrientation composed with the local (yaw, pitch, roll):
    R_global = R_parent . R_local.
Nothing here imports scenic.  `selfcheck()` pins the conventions to the documented examples and
cross-checks the Euler code against scipy on fixed rotations (scipy is a third-party library,
not the code under test).
"""

from __future__ import annotations

import math

import numpy as np

from vf import core

PI = math.pi


def Rz(a):
    c, s = math.cos(a), math.sin(a)
    return np.array([[c, -s, 0.0], [s, c, 0.0], [0.0, 0.0, 1.0]])


def Rx(a):
    c, s = math.cos(a), math.sin(a)
    return np.array([[1.0, 0.0, 0.0], [0.0, c, -s], [0.0, s, c]])


def Ry(a):
    c, s = math.cos(a), math.sin(a)
    return np.array([[c, 0.0, s], [0.0, 1.0, 0.0], [-s, 0.0, c]])


def euler(yaw, pitch, roll):
    """Rotation matrix of the intrinsic yaw-pitch-roll (Z, X', Y'') sequence."""
    return Rz(yaw) @ Rx(pitch) @ Ry(roll)


def to_euler(R):
    """(yaw, pitch, roll) of a rotation matrix, pitch in [-pi/2, pi/2].

    From R = Rz(y)Rx(p)Ry(r): column 1 = (-sin y cos p, cos y cos p, sin p) and
    row 2 = (-cos p sin r, sin p, cos p cos r)."""
    p = math.asin(max(-1.0, min(1.0, R[2, 1])))
    y = math.atan2(-R[0, 1], R[1, 1])
    r = math.atan2(-R[2, 0], R[2, 2])
    return y, p, r


def quat_to_matrix(q):
    """Rotation matrix of a unit quaternion given as (x, y, z, w)."""
    x, y, z, w = (float(v) for v in q)
    n = math.sqrt(x * x + y * y + z * z + w * w)
    x, y, z, w = x / n, y / n, z / n, w / n
    return np.array([
        [1 - 2 * (y * y + z * z), 2 * (x * y - z * w), 2 * (x * z + y * w)],
        [2 * (x * y + z * w), 1 - 2 * (x * x + z * z), 2 * (y * z - x * w)],
        [2 * (x * z - y * w), 2 * (y * z + x * w), 1 - 2 * (x * x + y * y)],
    ])


def wrap(a):
    """Angle reduced to (-pi, pi]."""
    a = math.fmod(a, 2 * PI)
    if a > PI:
        a -= 2 * PI
    elif a <= -PI:
        a += 2 * PI
    return a


def angdiff(a, b):
    return abs(wrap(a - b))


def azimuth(d):
    """Heading of the horizontal direction d: 0 for +Y, counter-clockwise positive."""
    return math.atan2(-d[0], d[1])


def altitude(d):
    return math.atan2(d[2], math.hypot(d[0], d[1]))


def rot_angle(A, B):
    """Angle (radians) of the rotation taking A to B."""
    M = A.T @ B
    # robust for small angles: use the skew part for sin, the trace for cos
    s = 0.5 * math.sqrt((M[2, 1] - M[1, 2]) ** 2 + (M[0, 2] - M[2, 0]) ** 2
                        + (M[1, 0] - M[0, 1]) ** 2)
    c = 0.5 * (np.trace(M) - 1.0)
    return math.atan2(s, c)


def los_frame(direction):
    """Frame whose orientation (0,0,0) 'faces directly along' `direction` (specifiers.rst,
    `beyond`): yaw to the direction's azimuth, pitch to its altitude, no roll."""
    return euler(azimuth(direction), altitude(direction), 0.0)


def orient(o):
    """Matrix of a direction given as documented: a scalar heading or an Euler triple."""
    if isinstance(o, (int, float)):
        return Rz(float(o))
    return euler(*[float(v) for v in o])


def pose_R(pose):
    """Global rotation of an entity given parentOrientation `par` and local `loc` angles."""
    return euler(*pose["par"]) @ euler(*pose["loc"])


def follow(field, start, dist, min_steps=4, step_size=5.0):
    """Forward Euler as documented for VectorField.followFrom: equal steps, at least
    min_steps, no step longer than step_size; each step moves `h` along the local +Y of the
    field's orientation at the current point."""
    steps = max(min_steps, math.ceil(dist / step_size))
    h = dist / steps
    p = np.array(start, float)
    for _ in range(steps):
        p = p + orient(field(p)) @ np.array([0.0, h, 0.0])
    return p


def box_corners(c, R, dims):
    hw, hl, hh = dims[0] / 2, dims[1] / 2, dims[2] / 2
    out = []
    for sx in (1, -1):
        for sy in (1, -1):
            for sz in (1, -1):
                out.append(np.array(c, float) + R @ np.array([sx * hw, sy * hl, sz * hh]))
    return out


def selfcheck():
    def need(cond, what):
        if not cond:
            raise core.HarnessError("c07_geo selfcheck failed: " + what)

    def close(a, b, tol=1e-12):
        return np.allclose(np.asarray(a, float), np.asarray(b, float), rtol=0, atol=tol)

    Y = np.array([0.0, 1.0, 0.0])
    # specifiers.rst: "facing 45 deg orients the object in the XY plane, facing northwest"
    need(close(Rz(math.radians(45)) @ Y, [-math.sqrt(0.5), math.sqrt(0.5), 0]), "45 deg = NW")
    # heading 0 = +Y (North); +90 deg = West (-X)
    need(close(Rz(0) @ Y, [0, 1, 0]) and close(Rz(PI / 2) @ Y, [-1, 0, 0]), "0=N, 90=W")
    # "facing (45 deg, 90 deg, 0) ... face northwest as above but then apply a 90 deg pitch
    # upwards": forward points straight up; the object's "up" now points south-east
    R = euler(math.radians(45), math.radians(90), 0)
    need(close(R @ Y, [0, 0, 1]), "pitch up")
    need(close(R @ np.array([0, 0, 1.0]), [math.sqrt(0.5), -math.sqrt(0.5), 0]), "pitch axis")
    # roll is about the object's forward axis: +90 deg roll brings local X (right) to -Z
    need(close(euler(0, 0, PI / 2) @ np.array([1.0, 0, 0]), [0, 0, -1]), "roll sign")
    # intrinsic order: yaw first, then pitch about the *new* X axis
    need(close(euler(PI / 2, PI / 2, 0) @ Y, [0, 0, 1]), "intrinsic order (pitch after yaw)")
    need(close(euler(PI / 2, 0, PI / 2) @ np.array([1.0, 0, 0]), [0, 0, -1]), "intrinsic roll")
    # operators.rst: "(1, 2, 0) relative to ego is 1 meter to the right and 2 meters ahead"
    # for an ego heading West (+90 deg): right = North, ahead = West
    need(close(Rz(PI / 2) @ np.array([1.0, 2.0, 0]), [-2, 1, 0]), "local frame x=right,y=ahead")
    # "angle to taxi is zero, then taxi is due North"; West = +90 deg
    need(abs(azimuth([0, 5, 0])) < 1e-15 and abs(azimuth([-3, 0, 0]) - PI / 2) < 1e-15,
         "azimuth")
    need(abs(altitude([0, 0, 2]) - PI / 2) < 1e-15 and abs(altitude([1, 0, 1]) - PI / 4) < 1e-15,
         "altitude")
    # Euler extraction inverts construction, and agrees with scipy's intrinsic "ZXY"
    from scipy.spatial.transform import Rotation

    rng = np.random.RandomState(12345)
    for _ in range(100):
        y, r = rng.uniform(-PI, PI, 2)
        p = rng.uniform(-1.5, 1.5)
        M = euler(y, p, r)
        need(close(M @ M.T, np.eye(3), 1e-12) and abs(np.linalg.det(M) - 1) < 1e-12, "orthonormal")
        y2, p2, r2 = to_euler(M)
        need(angdiff(y, y2) < 1e-9 and abs(p - p2) < 1e-9 and angdiff(r, r2) < 1e-9, "to_euler")
        S = Rotation.from_euler("ZXY", [y, p, r]).as_matrix()
        need(close(M, S, 1e-12), "euler vs scipy ZXY")
        q = Rotation.from_matrix(S).as_quat()
        need(close(quat_to_matrix(q), M, 1e-12), "quat_to_matrix")
        need(rot_angle(M, S) < 1e-12 and abs(rot_angle(M, M @ Rz(0.3)) - 0.3) < 1e-12, "rot_angle")
    # los frame: looking along a direction puts local +Y on it
    d = np.array([1.0, -2.0, 0.5])
    need(close(los_frame(d) @ Y, d / np.linalg.norm(d)), "los_frame")
    # forward Euler on a constant field is a straight line; step rule
    p = follow(lambda q: PI / 2, [0, 0, 0], 10.0)
    need(close(p, [-10, 0, 0], 1e-12), "follow straight")
    calls = []
    follow(lambda q: calls.append(1) or 0.0, [0, 0, 0], 21.0, 4, 5.0)
    need(len(calls) == 5, "follow steps = max(min, ceil(d/size))")
    need(abs(wrap(3 * PI) - PI) < 1e-12 and abs(wrap(-PI) - PI) < 1e-12, "wrap")
