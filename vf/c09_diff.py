"""C09 helper: the differential oracle "Scenic's Python AST == CPython's AST modulo the documented
rewrites", written as a simultaneous walk over both trees.

`diff(py, sc)` returns None when `sc` (output of compileScenicAST) is what `rewrite(py)` would be,
where the documented rewrites are recognised *by shape* (never by helper name):

* a load of ``ego`` / ``workspace`` / ``globalParameters``  ->  a zero-argument call of a Name,
  carrying the location of the original name;
* a call whose callee is the Name ``str`` / ``int`` / ``float``  ->  the callee is (any) Name at
  the same location;
* a call with starred positional arguments (outside behaviors)  ->  a call of a synthesized Name
  whose first argument is the (rewritten) original callee, each starred argument ``*v`` replaced
  by ``*W(v', <constant>)`` for a synthesized Name W; keywords unchanged;
* a class without bases  ->  one synthesized base; every class body gains exactly one extra
  ``Name = {...}`` assignment (the property table); bare annotations ``x: T`` directly in a class
  body are the documented property definitions ``<property>: <value>`` and move into that table.

Everything else — node types, all fields, and the four location attributes of every node that
has a CPython counterpart — must be equal.  For trees without any rewrite trigger the verdict is
cross-checked against plain ``ast.dump(..., include_attributes=True)`` string equality.
"""

from __future__ import annotations

import ast
import re

HARD_KEYWORDS = ("at", "by", "do", "new", "of", "on", "require", "to", "until")
TRACKED = ("ego", "workspace", "globalParameters")
LIFTED = ("str", "int", "float")
PROTECTED = frozenset(TRACKED + LIFTED)
ATTRS = ("lineno", "col_offset", "end_lineno", "end_col_offset")

_HARD_RE = re.compile(r"(?<![\w])(?:" + "|".join(HARD_KEYWORDS) + r")(?![\w])")


def hard_keyword_names(src):
    """Set of Scenic hard keywords used as NAME tokens in a Python source (tokenised)."""
    if not _HARD_RE.search(src):
        return set()
    import io
    import tokenize

    found = set()
    try:
        for tok in tokenize.generate_tokens(io.StringIO(src).readline):
            if tok.type == tokenize.NAME and tok.string in HARD_KEYWORDS:
                found.add(tok.string)
    except (tokenize.TokenError, SyntaxError, IndentationError):
        # CPython parsed the file, so this cannot normally happen; be conservative
        found.add("?")
    return found


_ESC = re.compile(r"\\(\n|N\{[^}]*\}|u[0-9a-fA-F]{4}|U[0-9a-fA-F]{8}|x[0-9a-fA-F]{2}|[0-7]{1,3}|.)",
                  re.S)


def decode_escapes(text):
    """What CPython makes of the escape sequences of a (non-raw) string body; None if invalid."""
    import warnings

    def one(m):
        esc = m.group(0)
        quote = "'" if esc == '\\"' else '"'
        with warnings.catch_warnings():
            warnings.simplefilter("ignore")
            return ast.literal_eval(quote + esc + quote)

    try:
        return _ESC.sub(one, text)
    except (SyntaxError, ValueError):
        return None


class Diff(Exception):
    def __init__(self, path, nodetype, field, py, sc, lineno=None, cell=None, col=None):
        self.path, self.nodetype, self.field, self.py, self.sc = path, nodetype, field, py, sc
        self.lineno = lineno
        self.col = col
        self.cell = cell or nodetype


def _loc(n):
    return tuple(getattr(n, a, None) for a in ATTRS)


def _short(x):
    if isinstance(x, ast.AST):
        try:
            return ast.dump(x, include_attributes=False)[:160] + f" @{_loc(x)}"
        except Exception:
            return type(x).__name__
    return repr(x)[:160]


class Comparer:
    """One comparison of a CPython tree with a compiled Scenic tree."""

    def __init__(self, star_wrapping=True, src=None, behavior_locals=False):
        self.star_wrapping = star_wrapping  # off inside behaviors (documented)
        # inside behaviors / monitors / scenario blocks a local variable may be kept as an
        # attribute of the running behavior: `x` <-> `<Name>.x` at the same place
        self.behavior_locals = behavior_locals
        self.rewrites = 0
        self.path = []
        self.diffs = []
        self.lines = []  # stack of line numbers of the CPython nodes being compared
        self.src = src
        self.srclines = None
        self.seen = set()
        self.cols = []
        self.fraw = []  # rawness of the enclosing f-strings

    # -- public -----------------------------------------------------------------------------
    def run(self, py, sc):
        """First difference only (or None)."""
        try:
            self.node(py, sc, "root")
        except Diff as d:
            return d
        return self.diffs[0] if self.diffs else None

    def run_all(self, py, sc, cap=40):
        """Every difference, one per list element that differs (siblings are still compared)."""
        try:
            self.node(py, sc, "root")
        except Diff as d:
            self.record(d)
        return self.diffs[:cap]

    # -- helpers ----------------------------------------------------------------------------
    def fail(self, nodetype, field, py, sc, cell=None):
        ln = getattr(py, "lineno", None) if isinstance(py, ast.AST) else None
        if ln is None:
            ln = self.lines[-1] if self.lines else None
        if cell is None and nodetype == "Constant" and len(self.path) >= 1 \
                and self.path[-1].startswith("JoinedStr"):
            cell = "fstring-literal-part"
        if cell is None and self.path and self.path[-1].startswith("FormattedValue.value"):
            cell = "fstring-replacement-field"
        col = getattr(py, "col_offset", None) if isinstance(py, ast.AST) else (
            self.cols[-1] if self.cols else None)
        raise Diff("/".join(self.path[-6:]), nodetype, field, _short(py), _short(sc), ln, cell,
                   col)

    def attrs(self, py, sc):
        """Location attributes; a difference is recorded and the walk goes on."""
        for a in ATTRS:
            pv = getattr(py, a, None)
            sv = getattr(sc, a, None)
            if pv == sv:
                continue
            cell, field = type(py).__name__, a
            if a in ("col_offset", "end_col_offset") and self._chars_not_bytes(py, a, pv, sv):
                cell, field = "non-ascii-line", "column-counted-in-chars-not-utf8-bytes"
            elif a == "end_col_offset" and self._multiline_token_end(py, pv, sv):
                cell, field = ("non-ascii-multiline-string",
                               "end-column-converted-on-the-first-line-of-the-token")
            elif a == "end_col_offset" and type(py) is ast.Constant and self.path \
                    and self.path[-1].startswith("JoinedStr") and self._trailing_brace(py, pv, sv):
                cell, field = ("fstring-literal-part:trailing-escaped-brace",
                               "end_col_offset-one-less")
            elif type(py) in (ast.Constant, ast.JoinedStr) and self._string_tokens(py) > 1:
                cell = type(py).__name__ + ":implicit-concatenation"
            elif type(py) is ast.Constant and self.path and self.path[-1].startswith("JoinedStr"):
                cell = "fstring-literal-part"
            self.record(Diff("/".join(self.path[-6:]), type(py).__name__, field,
                             f"{pv} of {_short(py)}", f"{sv} of {_short(sc)}",
                             getattr(py, "lineno", None), cell))

    def record(self, d):
        key = (d.cell, d.field)
        if key not in self.seen:
            self.seen.add(key)
            self.diffs.append(d)

    def _chars_not_bytes(self, py, a, pv, sv):
        """Defect model: the column is the offset in characters of the (UTF-8 byte) column CPython
        reports, on a line containing non-ASCII text before it."""
        if self.src is None or not isinstance(pv, int) or not isinstance(sv, int):
            return False
        if self.srclines is None:
            self.srclines = self.src.split("\n")
        ln = py.lineno if a == "col_offset" else py.end_lineno
        if not ln or ln > len(self.srclines):
            return False
        raw = self.srclines[ln - 1].encode("utf-8")
        if raw.isascii() or pv > len(raw):
            return False
        try:
            return len(raw[:pv].decode("utf-8")) == sv
        except UnicodeDecodeError:
            return False

    def _lines(self):
        if self.srclines is None:
            self.srclines = self.src.split("\n")
        return self.srclines

    def _multiline_token_end(self, py, pv, sv):
        """Defect model: the node ends with a string token spanning several lines that contains
        non-ASCII text; its end column is CPython's byte column turned into a character count on
        the token's *first* line instead of its last."""
        if self.src is None or not isinstance(pv, int) or not isinstance(sv, int):
            return False
        if not getattr(py, "end_lineno", None) or py.end_lineno == py.lineno:
            return False
        last = None
        for n in ast.walk(py):
            if type(n) in (ast.Constant, ast.JoinedStr) and getattr(n, "end_lineno", None) == \
                    py.end_lineno and n.end_col_offset == pv and n.lineno != n.end_lineno:
                last = n
        if last is None:
            return False
        lines = self._lines()
        if last.lineno > len(lines):
            return False
        # the byte column is counted from the start of the token's first line (running on into
        # the following lines when that line is shorter)
        raw = "\n".join(lines[last.lineno - 1:last.end_lineno]).encode("utf-8")
        if raw[:pv].isascii():
            return False
        whole = len(raw[:pv].decode("utf-8", "ignore"))
        cut = 0
        try:
            raw[:pv].decode("utf-8")
        except UnicodeDecodeError:
            cut = 1  # the byte column falls inside a character of that (wrong) line
        return sv == whole + cut

    def _trailing_brace(self, py, pv, sv):
        """Defect model: a literal f-string part whose source ends with an escaped brace ({{ or
        }}) ends one column early (the tokenize module's FSTRING_MIDDLE position)."""
        if self.src is None or not py.end_lineno or not isinstance(sv, int):
            return False
        lines = self._lines()
        if py.end_lineno > len(lines):
            return False
        raw = lines[py.end_lineno - 1].encode("utf-8")[:pv]
        # (on a line with non-ASCII text the column is a character count as well)
        chars = len(raw.decode("utf-8", "ignore"))
        return raw.endswith((b"{{", b"}}")) and chars - sv == 1

    # -- f-strings --------------------------------------------------------------------------
    def _fstring_is_raw(self, py):
        if self.fraw:
            return self.fraw[-1]
        if self.src is None:
            return None
        lines = self._lines()
        if py.lineno > len(lines):
            return None
        text = lines[py.lineno - 1].encode("utf-8")[py.col_offset:py.col_offset + 3].decode(
            "utf-8", "ignore")
        m = re.match(r"[A-Za-z]{1,2}(?=['\"])", text)
        if not m:
            return None  # implicit concatenation starting with a plain literal, ...
        return "r" in m.group(0).lower()

    def joinedstr(self, py, sc):
        if type(sc) is not ast.JoinedStr:
            self.fail("JoinedStr", "type->" + type(sc).__name__, py, sc)
        raw = self._fstring_is_raw(py)
        self.fraw.append(raw)
        try:
            pv, sv = py.values, sc.values
            aligned = len(pv) == len(sv) and all(type(a) is type(b) for a, b in zip(pv, sv))
            same = aligned and all(a.value == b.value for a, b in zip(pv, sv)
                                   if type(a) is ast.Constant)
            if not same and self.joinedstr_models(py, sc, raw):
                pass  # explained by known deviations (recorded), replacement fields compared
            elif aligned:
                for a, b in zip(pv, sv):
                    if type(a) is ast.Constant:
                        self.fstring_literal(a, b, raw)
                    else:
                        self.node(a, b, "JoinedStr.values")
            else:
                self.fail("JoinedStr", "values[len]", len(pv), len(sv))
            self.attrs(py, sc)
        finally:
            self.fraw.pop()

    def fstring_literal(self, a, b, raw, judge_location=True):
        """A literal part; an un-decoded escape sequence is attributed to its defect model."""
        self.path.append("JoinedStr.values")
        try:
            if type(b) is not ast.Constant:
                self.fail("Constant", "type->" + type(b).__name__, a, b)
            if a.value != b.value or type(a.value) is not type(b.value):
                # (rawness unknown = implicit concatenation starting with a plain literal: the
                # equality itself shows that CPython decoded the part)
                if isinstance(b.value, str) and decode_escapes(b.value) == a.value:
                    self.record(Diff("/".join(self.path[-6:]), "Constant", "value",
                                     _short(a), _short(b), a.lineno,
                                     "fstring-literal-part:escapes-not-decoded", a.col_offset))
                else:
                    self.fail("Constant", "value", a.value, b.value, cell="fstring-literal-part")
            if getattr(a, "kind", None) != getattr(b, "kind", None):
                self.fail("Constant", "kind", a, b)
            if judge_location:
                self.attrs(a, b)
        finally:
            self.path.pop()

    def joinedstr_models(self, py, sc, raw):
        """The parts do not line up one to one: try the known deviations, each recorded under
        its own cell; anything they do not explain exactly is a generic difference."""
        for decode in ((False,) if raw else (False, True)):
            if self._joinedstr_models(py, sc, decode):
                return True
        return False

    def _joinedstr_models(self, py, sc, decode):
        models = []
        # (1) a literal part that is exactly "{" taken for the brace of a replacement field
        tv = []
        for v in sc.values:
            if type(v) is ast.FormattedValue and type(v.value) is ast.Set \
                    and len(v.value.elts) == 1 and v.format_spec is None:
                inner = ast.FormattedValue(value=v.value.elts[0], conversion=v.conversion,
                                           format_spec=None)
                inner._synthetic = True
                tv += [ast.Constant("{"), inner, ast.Constant("}")]
                models.append("brace-literal-taken-as-operator")
            else:
                tv.append(v)
        # (2) escape sequences of literal parts not decoded (an escaped newline yields "")
        merged = []
        for v in tv:
            if type(v) is ast.Constant and isinstance(v.value, str):
                val = v.value
                if decode:
                    dec = decode_escapes(val)
                    if dec is not None and dec != val:
                        models.append("escapes-not-decoded")
                        val = dec
                if merged and type(merged[-1]) is ast.Constant:
                    merged[-1] = ast.Constant(merged[-1].value + val)
                elif val != "" or len(tv) == 1:
                    merged.append(ast.Constant(val))
            else:
                merged.append(v)
        # (3) the text of a self-documenting field `{expr=}` is missing: what CPython's parts
        #     would be without it
        ev = []
        pvals = list(py.values)
        for k, v in enumerate(pvals):
            if type(v) is ast.Constant and isinstance(v.value, str) and k + 1 < len(pvals) \
                    and type(pvals[k + 1]) is ast.FormattedValue and self.src is not None:
                seg = ast.get_source_segment(self.src, pvals[k + 1].value)
                m = seg and re.search(r"(\s*)" + re.escape(seg) + r"\s*=\s*$", v.value)
                fv = pvals[k + 1]
                # CPython's part holding the debug text ends inside the braces of the field
                inside = (v.end_lineno, v.end_col_offset) > (fv.lineno, fv.col_offset)
                if m and inside:
                    # white space before the expression may belong to the literal or to the
                    # field: take the split the other side shows
                    j = len(ev)
                    there = merged[j].value if j < len(merged) and \
                        type(merged[j]) is ast.Constant else ""
                    cands = [v.value[:i] for i in range(m.start(1), m.end(1) + 1)]
                    keep = there if there in cands else cands[0]
                    models.append("debug-specifier-text")
                    pvals[k + 1]._debug = True
                    if keep:
                        ev.append(ast.Constant(keep))
                    continue
            ev.append(v)
        ok = len(ev) == len(merged) and all(type(a) is type(b) for a, b in zip(ev, merged)) \
            and all(a.value == b.value for a, b in zip(ev, merged) if type(a) is ast.Constant)
        if not ok or not models:
            return False
        if len(py.values) == len(sc.values) and set(models) == {"escapes-not-decoded"}:
            return False  # part-by-part comparison attributes this one (and judges locations)
        for m in dict.fromkeys(models):
            self.record(Diff("/".join(self.path[-6:]), "JoinedStr", "values[len]",
                             f"{len(py.values)} parts: {_short(py)}",
                             f"{len(sc.values)} parts: {_short(sc)}", py.lineno,
                             "JoinedStr:" + m, py.col_offset))
        for a, b in zip(ev, merged):
            if type(a) is ast.FormattedValue:
                self.formatted(a, b)
        return True

    def formatted(self, a, b):
        """A replacement field of an f-string whose literal parts were re-aligned by a model."""
        self.path.append("JoinedStr.values")
        try:
            self.node(a.value, b.value, "FormattedValue.value")
            if a.conversion != b.conversion:
                # CPython adds !r to `{x=}` only without a format spec; known companion of the
                # missing debug text
                if not (getattr(a, "_debug", False) and a.format_spec is not None
                        and a.conversion == -1 and b.conversion == 114):
                    self.fail("FormattedValue", "conversion", a.conversion, b.conversion)
            self.value(a.format_spec, b.format_spec, "FormattedValue", "format_spec")
            if not getattr(b, "_synthetic", False):
                self.attrs(a, b)
        finally:
            self.path.pop()

    def _string_tokens(self, py):
        if self.src is None:
            return 0
        import io
        import tokenize

        seg = ast.get_source_segment(self.src, py)
        if seg is None:
            return 0
        n = 0
        try:
            for tok in tokenize.generate_tokens(io.StringIO("(" + seg + "\n)").readline):
                if tok.type in (tokenize.STRING, tokenize.FSTRING_START):
                    n += 1
        except (tokenize.TokenError, SyntaxError, IndentationError):
            return 0
        return n

    def value(self, py, sc, owner, field):
        if isinstance(py, ast.AST):
            if not isinstance(sc, ast.AST):
                self.fail(owner, field, py, sc)
            self.node(py, sc, f"{owner}.{field}")
        elif isinstance(py, list):
            if not isinstance(sc, list):
                self.fail(owner, field, py, sc)
            if len(py) != len(sc):
                cell = None
                if owner == "JoinedStr" and field == "values":
                    cell = _fstring_parts_cell(py, sc)
                self.fail(owner, field + "[len]", len(py), len(sc), cell=cell)
            for a, b in zip(py, sc):
                saved = list(self.path), list(self.lines), list(self.cols)
                try:
                    self.value(a, b, owner, field)
                except Diff as d:
                    # record and go on with the siblings
                    self.record(d)
                    self.path, self.lines, self.cols = saved
        else:
            if type(py) is not type(sc) or py != sc:
                # distinguish 1 / 1.0 / True and -0.0 / 0.0 as ast.dump does
                cell = None
                if isinstance(py, str) and isinstance(sc, str) and field in ("id", "attr", "arg",
                                                                              "name"):
                    import unicodedata

                    if unicodedata.normalize("NFKC", sc) == py:
                        cell = "identifier-not-NFKC-normalised"
                self.fail(owner, field, py, sc, cell=cell)
            if isinstance(py, (float, complex)) and repr(py) != repr(sc):
                self.fail(owner, field, py, sc)

    def fields(self, py, sc, skip=()):
        name = type(py).__name__
        for f in py._fields:
            if f in skip:
                continue
            pv = getattr(py, f, None)
            sv = getattr(sc, f, None)
            self.value(pv, sv, name, f)

    # -- the walk ---------------------------------------------------------------------------
    def node(self, py, sc, where):
        self.path.append(where)
        ln = getattr(py, "lineno", None)
        self.lines.append(ln if ln is not None else (self.lines[-1] if self.lines else None))
        self.cols.append(getattr(py, "col_offset", None))
        self._node(py, sc)
        self.cols.pop()
        self.lines.pop()
        self.path.pop()

    def _node(self, py, sc):
        t = type(py)
        if t is ast.Name and isinstance(py.ctx, ast.Load) and py.id in TRACKED:
            self.tracked(py, sc)
        elif t is ast.BinOp and type(py.op) is ast.MatMult:
            self.matmul(py, sc)
        elif t is ast.Call:
            self.call(py, sc)
        elif t is ast.ClassDef:
            self.classdef(py, sc)
        elif t is ast.JoinedStr:
            self.joinedstr(py, sc)
        elif t is ast.Name and self.behavior_locals and type(sc) is ast.Attribute:
            if not (type(sc.value) is ast.Name and sc.attr == py.id
                    and type(sc.ctx) is type(py.ctx)):
                self.fail("Name", "local-not-a-behavior-attribute", py, sc)
            self.attrs(py, sc)
        else:
            if type(sc) is not t:
                self.fail(t.__name__, "type->" + type(sc).__name__, py, sc)
            self.fields(py, sc)
            if "lineno" in t._attributes:
                self.attrs(py, sc)

    def matmul(self, py, sc):
        # docs/reference/data.rst: `X @ Y` constructs a vector -> a two-argument call; only the
        # line numbers of the replacing node are judged
        if type(sc) is ast.BinOp:
            self.fields(py, sc)
            self.attrs(py, sc)
            return
        self.rewrites += 1
        if not (type(sc) is ast.Call and len(sc.args) == 2 and not sc.keywords
                and type(sc.func) is ast.Name):
            self.fail("BinOp", "matmul-not-vector-call", py, sc, cell="BinOp:MatMult")
        self.node(py.left, sc.args[0], "BinOp.left")
        self.node(py.right, sc.args[1], "BinOp.right")
        for a in ("lineno", "end_lineno"):
            if getattr(py, a) != getattr(sc, a, None):
                self.fail("BinOp", "line-numbers", f"{a}={getattr(py, a)} of {_short(py)}",
                          f"{a}={getattr(sc, a, None)} of {_short(sc)}",
                          cell="BinOp:MatMult->vector")

    def tracked(self, py, sc):
        # documented: the name becomes an accessor call
        self.rewrites += 1
        if not (type(sc) is ast.Call and not sc.args and not sc.keywords
                and type(sc.func) is ast.Name and isinstance(sc.func.ctx, ast.Load)):
            self.fail("Name", "tracked-name-not-accessor-call", py, sc)
        self.attrs(py, sc)

    def call(self, py, sc):
        if type(sc) is not ast.Call:
            self.fail("Call", "type->" + type(sc).__name__, py, sc)
        starred = self.star_wrapping and any(type(a) is ast.Starred for a in py.args)
        if starred:
            self.rewrites += 1
            # sc = W0(func', args'..., keywords')
            if not (type(sc.func) is ast.Name and len(sc.args) == len(py.args) + 1):
                self.fail("Call", "starred-call-not-wrapped", py, sc)
            self.callee(py.func, sc.args[0])
            for a, b in zip(py.args, sc.args[1:]):
                if type(a) is ast.Starred:
                    ok = (type(b) is ast.Starred and type(b.value) is ast.Call
                          and type(b.value.func) is ast.Name and len(b.value.args) >= 1
                          and not b.value.keywords
                          and all(type(x) is ast.Constant for x in b.value.args[1:]))
                    if not ok:
                        self.fail("Starred", "star-arg-not-wrapped", a, b)
                    self.node(a.value, b.value.args[0], "Starred.value")
                else:
                    self.node(a, b, "Call.args")
            self.value(py.keywords, sc.keywords, "Call", "keywords")
        else:
            self.callee(py.func, sc.func)
            self.value(py.args, sc.args, "Call", "args")
            self.value(py.keywords, sc.keywords, "Call", "keywords")
        self.attrs(py, sc)

    def callee(self, pf, sf):
        if type(pf) is ast.Name and pf.id in LIFTED and isinstance(pf.ctx, ast.Load):
            self.rewrites += 1
            if not (type(sf) is ast.Name and isinstance(sf.ctx, ast.Load)):
                self.fail("Call", "lifted-callee-not-a-name", pf, sf)
            if sf.id == pf.id:
                self.fail("Call", "conversion-not-lifted", pf, sf)
            self.attrs(pf, sf)
        else:
            self.node(pf, sf, "Call.func")

    def classdef(self, py, sc):
        if type(sc) is not ast.ClassDef:
            self.fail("ClassDef", "type->" + type(sc).__name__, py, sc)
        self.rewrites += 1
        if py.bases:
            self.value(py.bases, sc.bases, "ClassDef", "bases")
        else:
            if not (len(sc.bases) == 1 and type(sc.bases[0]) is ast.Name):
                self.fail("ClassDef", "no-default-base", py.bases, sc.bases)
        self.fields(py, sc, skip=("bases", "body"))
        self.attrs(py, sc)
        # body: bare annotations are property definitions; one extra table assignment
        props = [s.target.id for s in py.body if _is_bare_annotation(s)]
        body = [s for s in py.body if not _is_bare_annotation(s)]
        if len(sc.body) != len(body) + 1:
            self.fail("ClassDef", "body[len]", len(body) + 1, len(sc.body))
        cands = [k for k, s in enumerate(sc.body) if _is_table(s)]
        if not cands:
            self.fail("ClassDef", "no-property-table", None, None)
        def score(k):
            rest = sc.body[:k] + sc.body[k + 1:]
            return sum(1 for a, b in zip(body, rest)
                       if type(a) is type(b) and getattr(a, "lineno", 0) == getattr(b, "lineno", 1))

        # the table is the candidate whose removal aligns the remaining statements best with
        # CPython's body (same statement types on the same lines); ties: the later one
        k = max(cands, key=lambda k: (score(k), k))
        rest = sc.body[:k] + sc.body[k + 1:]
        self.value(body, rest, "ClassDef", "body")
        keys = [getattr(x, "value", None) for x in sc.body[k].value.keys]
        if keys != props:
            self.fail("ClassDef", "property-table-keys", props, keys)


def _fstring_parts_cell(py, sc):
    """Which of the known ways an f-string can come out with a different number of parts."""
    def has_set(vals):
        return any(type(v) is ast.FormattedValue and type(v.value) in (ast.Set, ast.Dict)
                   for v in vals)

    if has_set(sc) and not has_set(py):
        # a literal "{" / "}" part (from {{ or }}) was taken for the brace of a replacement field
        return "JoinedStr:brace-literal-taken-as-operator"
    for a, b in zip(py, py[1:]):
        if type(a) is ast.Constant and isinstance(a.value, str) and a.value.rstrip().endswith("=") \
                and type(b) is ast.FormattedValue:
            return "JoinedStr:debug-specifier-text"
    return None


def _is_bare_annotation(s):
    return (type(s) is ast.AnnAssign and s.value is None and s.simple == 1
            and type(s.target) is ast.Name)


def _is_table(s):
    return (type(s) is ast.Assign and len(s.targets) == 1 and type(s.targets[0]) is ast.Name
            and type(s.value) is ast.Dict)


def diff(py, sc, star_wrapping=True):
    """None if equal modulo documented rewrites, else a Diff; second value = #rewrites seen."""
    c = Comparer(star_wrapping)
    d = c.run(py, sc)
    return d, c.rewrites


def diff_all(py, sc, star_wrapping=True, src=None, behavior_locals=False):
    """(list of all differences, #rewrites seen)."""
    c = Comparer(star_wrapping, src, behavior_locals)
    return c.run_all(py, sc), c.rewrites


# ---------------------------------------------------------------------------------------------
# pre-classification of a CPython tree
# ---------------------------------------------------------------------------------------------

def scan(tree):
    """One walk: (set of features, set of exclusion reasons)."""
    feats = set()
    excl = set()
    for n in ast.walk(tree):
        t = type(n)
        if t is ast.Name:
            if n.id in PROTECTED and not isinstance(n.ctx, ast.Load):
                excl.add("store-to-builtin-name")
        elif t is ast.ClassDef:
            if n.decorator_list:
                feats.add("decorator")
            if n.type_params:
                feats.add("generics")
            names = []
            for s in n.body:
                if type(s) is ast.AnnAssign:
                    if not _is_bare_annotation(s):
                        excl.add("class-annassign")
                    else:
                        names.append(s.target.id)
            if len(set(names)) != len(names):
                excl.add("class-annassign")
            if names:
                feats.add("class-bare-annotation")
        elif t in (ast.FunctionDef, ast.AsyncFunctionDef):
            if n.decorator_list:
                feats.add("decorator")
            if n.type_params:
                feats.add("generics")
            if t is ast.AsyncFunctionDef:
                feats.add("async")
        elif t is ast.Match:
            feats.add("match")
        elif t is ast.NamedExpr:
            feats.add("walrus")
        elif t is ast.FormattedValue:
            if n.conversion != -1 or n.format_spec is not None:
                feats.add("fstring-conv/spec")
            else:
                feats.add("fstring")
        elif t is ast.Starred:
            if isinstance(n.ctx, ast.Store):
                feats.add("starred-target")
        elif t in (ast.AsyncFor, ast.AsyncWith, ast.Await):
            feats.add("async")
        elif t is ast.Lambda:
            if n.args.defaults or n.args.kw_defaults:
                feats.add("lambda-defaults")
        elif t in (ast.Global, ast.Nonlocal):
            feats.add("global/nonlocal")
        elif t is ast.TryStar:
            feats.add("try-star")
        elif t is ast.TypeAlias:
            feats.add("generics")
        elif t is ast.Compare:
            if len(n.ops) > 1:
                feats.add("chained-compare")
        elif t is ast.Slice:
            if n.step is not None:
                feats.add("slice-step")
    return feats, excl


NONTRIVIAL_FEATURES = frozenset([
    "match", "walrus", "fstring-conv/spec", "decorator", "starred-target", "async",
    "lambda-defaults", "global/nonlocal", "try-star", "generics", "chained-compare", "slice-step"])


def has_rewrite_trigger(tree):
    for n in ast.walk(tree):
        t = type(n)
        if t is ast.ClassDef:
            return True
        if t is ast.Name and n.id in PROTECTED:
            return True
        if t is ast.Call and any(type(a) is ast.Starred for a in n.args):
            return True
        if t is ast.BinOp and type(n.op) is ast.MatMult:
            return True
    return False


def selfcheck():
    """Hand-made examples: the walker accepts exactly the documented shapes."""
    from vf.core import HarnessError

    def P(s):
        return ast.parse(s)

    a = P("x = f(1, y)[2:3]\nfor i in z: pass\n")
    if diff(a, P("x = f(1, y)[2:3]\nfor i in z: pass\n"))[0] is not None:
        raise HarnessError("c09 selfcheck: equal trees differ")
    d = diff(a, P("x = f(1, y)[2:4]\nfor i in z: pass\n"))[0]
    if d is None or (d.nodetype, d.field) != ("Constant", "value"):
        raise HarnessError("c09 selfcheck: constant change not seen")
    d = diff(a, P("x  = f(1, y)[2:3]\nfor i in z: pass\n"))[0]
    if d is None or d.field not in ATTRS:
        raise HarnessError("c09 selfcheck: column shift not seen")
    d = diff(P("x = 1"), P("x = True"))[0]
    if d is None:
        raise HarnessError("c09 selfcheck: 1 vs True not distinguished")
    # tracked name
    py = P("y = ego.position")
    sc = P("y = ego.position")
    nm = sc.body[0].value.value
    sc.body[0].value.value = ast.copy_location(ast.Call(ast.Name("qq", ast.Load()), [], []), nm)
    if diff(py, sc)[0] is not None:
        raise HarnessError("c09 selfcheck: accessor call shape rejected")
    if diff(py, P("y = ego.position"))[0] is None:
        raise HarnessError("c09 selfcheck: missing accessor call accepted")
    # lifted conversion
    py = P("y = str(3)")
    sc = P("y = zzz(3)")
    if diff(py, sc)[0] is not None:
        raise HarnessError("c09 selfcheck: lifted callee rejected")
    if diff(py, P("y = str(3)"))[0] is None:
        raise HarnessError("c09 selfcheck: unlifted conversion accepted")
    # class: base + table
    import copy

    py = P("class A:\n    x: int\n    def f(self): pass\n")
    table = P("t = {'x': 1}").body[0]
    sc = copy.deepcopy(py)
    sc.body[0].bases = [ast.Name("B", ast.Load())]
    sc.body[0].body = [sc.body[0].body[1], table]
    d = diff(py, sc)[0]
    if d is not None:
        raise HarnessError(f"c09 selfcheck: class shape rejected {d.field}")
    sc2 = copy.deepcopy(sc)
    sc2.body[0].body = sc2.body[0].body[:1]
    if diff(py, sc2)[0] is None:
        raise HarnessError("c09 selfcheck: class without table accepted")
    sc3 = copy.deepcopy(sc)
    sc3.body[0].body[1] = P("t = {'y': 1}").body[0]
    if diff(py, sc3)[0] is None:
        raise HarnessError("c09 selfcheck: wrong property table accepted")
    # star args
    py = P("f(a, *b, k=1)")
    sc = copy.deepcopy(py)
    c0 = sc.body[0].value
    wrapped = ast.Starred(ast.Call(ast.Name("V", ast.Load()), [c0.args[1].value, ast.Constant(1)],
                                   []), ast.Load())
    sc.body[0].value = ast.copy_location(
        ast.Call(ast.Name("W", ast.Load()), [c0.func, c0.args[0], wrapped], c0.keywords), c0)
    if diff(py, sc)[0] is not None:
        raise HarnessError("c09 selfcheck: wrapped star call rejected")
    if diff(py, P("f(a, *b, k=1)"))[0] is None:
        raise HarnessError("c09 selfcheck: unwrapped star call accepted")
    if diff(py, P("f(a, *b, k=1)"), star_wrapping=False)[0] is not None:
        raise HarnessError("c09 selfcheck: behavior mode star call rejected")
    if hard_keyword_names("x = 'to'  # at\ny.of = 3\n") != {"of"}:
        raise HarnessError("c09 selfcheck: hard keyword scan")
