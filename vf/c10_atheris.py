"""C10 helper: coverage-guided campaign with atheris (optional, thorough tier only).

Run as a child process:  python -m vf.c10_atheris OUTDIR SECONDS SEED
It fuzzes the stage-A pipeline of vf.props.c10 with libFuzzer's mutations plus the token-level
mutator of vf.c10_mut, judges every input with the same oracle (`judge_text`) and writes the first
input of every failing signature to OUTDIR/crash-<digest>.json.  The parent shard re-validates and
minimises each of them in its own process.  atheris is looked up in /verif/.deps (installed with
`pip install --no-index --find-links /opt/veriftools/wheels --target /verif/.deps atheris`).
"""

from __future__ import annotations

import json
import os
import random
import sys


def main(outdir, seconds, seed):
    sys.path.insert(0, os.path.join(os.path.dirname(os.path.dirname(os.path.abspath(__file__))),
                                    ".deps"))
    import atheris

    repo = os.environ.get("VERIF_REPO", "/repo")
    sys.path.insert(0, os.path.join(repo, "src"))
    with atheris.instrument_imports(include=["scenic.syntax.parser", "scenic.syntax.compiler"]):
        import scenic.syntax.compiler  # noqa: F401
        import scenic.syntax.parser  # noqa: F401

    from vf import c10_mut, core, corpus
    from vf.props import c10

    c10.front_end()
    os.makedirs(outdir, exist_ok=True)
    seeddir = os.path.join(outdir, "corpus")
    os.makedirs(seeddir, exist_ok=True)
    rnd = random.Random(seed)
    progs = list(corpus.scenic_programs())
    rnd.shuffle(progs)
    for k, p in enumerate(progs[:400]):
        text = c10.window(p["src"], rnd.randrange(50), target=8)[:600]
        with open(os.path.join(seeddir, f"seed-{k:04d}"), "wb") as f:
            f.write(text.encode("utf-8"))
    with open(os.path.join(outdir, "dict.txt"), "w") as f:
        for w in c10_mut.PY_KEYWORDS + c10_mut.SCENIC_KEYWORDS:
            f.write('"' + w + '"\n')
    seen = set()
    stats = {"execs": 0}

    def test_one_input(data):
        stats["execs"] += 1
        if stats["execs"] % 200 == 0:  # libFuzzer ends the process itself: keep the count on disk
            with open(os.path.join(outdir, "stats.json"), "w") as f:
                json.dump(stats, f)
        try:
            src = data.decode("utf-8")
        except UnicodeDecodeError:
            return
        if "\x00" in src:
            return
        out = core.Outcome()
        try:
            c10.judge_text(src, out)
        except core.CaseTimeout:
            return
        for sig, detail in out.failures:
            if sig in seen:
                continue
            seen.add(sig)
            path = os.path.join(outdir, f"crash-{core.digest(sig)}.json")
            with open(path, "w") as f:
                json.dump({"signature": sig, "src": src}, f)

    def mutator(data, max_size, mseed):
        r = random.Random(mseed)
        if r.random() < 0.5:
            return atheris.Mutate(data, max_size)
        try:
            src = data.decode("utf-8")
        except UnicodeDecodeError:
            return atheris.Mutate(data, max_size)
        mut = [r.choice(c10_mut.KINDS), r.randrange(4000), r.randrange(4000), r.randrange(4000)]
        try:
            res = c10_mut.apply_one(src, mut).encode("utf-8", "ignore")
        except Exception:
            return atheris.Mutate(data, max_size)
        return res[:max_size]

    argv = [sys.argv[0], seeddir, f"-max_total_time={int(seconds)}", "-max_len=700",
            "-timeout=60", f"-seed={seed}", f"-dict={os.path.join(outdir, 'dict.txt')}",
            "-print_final_stats=0", "-verbosity=0", "-rss_limit_mb=4096"]
    atheris.Setup(argv, test_one_input, custom_mutator=mutator)
    try:
        atheris.Fuzz()
    finally:
        with open(os.path.join(outdir, "stats.json"), "w") as f:
            json.dump(stats, f)


if __name__ == "__main__":
    main(sys.argv[1], float(sys.argv[2]), int(sys.argv[3]))
