"""C10 helper (stage C): instantiate the grammar forms shown in the language reference.

Two notations occur in docs/reference:

* section headings such as ``beyond *vector* by (*vector* | *scalar*) [from (*vector* | *OrientedPoint*)]``
  (``*type*`` placeholders, ``( | )`` alternatives, ``[ ]`` options, ``, ...`` repetition);
* ``scenic-grammar`` code blocks such as ``class <name>[(<superclass>)]:`` (``<name>``
  placeholders, ``[ ]`` options, ``[ ]*`` / ``+`` repetition, possibly spanning lines).

`forms()` yields plain dicts {"doc", "line", "heading", "context", "source"}: complete Scenic
programs that the reference says are well formed.  Nothing here imports scenic.
"""

from __future__ import annotations

import itertools
import os
import re

from vf import corpus

REFDOCS = ["statements", "specifiers", "operators", "distributions", "region_types"]

# placeholder -> (simple filler, complex filler)
FILL = {
    "property": ("foo", "foo"), "property2": ("bar", "bar"), "value": ("3", "(x + 1)"), "vector": ("v", "(1, 2)"),
    "region": ("r", "r"), "object": ("obj", "obj"), "orientedpoint": ("op", "op"),
    "point": ("pt", "pt"), "scalar": ("3", "(x + 1)"), "number": ("0.5", "0.25"),
    "heading": ("h", "(30 deg)"), "direction": ("d", "(30 deg)"),
    "orientation": ("o", "(30 deg)"), "vectorfield": ("vf", "vf"),
    "boolean": ("b", "(x > 1)"), "condition": ("b", "(x > 1)"),
    "hypothesis": ("b", "(x > 1)"), "conclusion": ("c", "(y > 1)"),
    "ltl formula": ("always b", "(always b) or eventually c"),
    "name": ("n", "n"), "name2": ("m", "m"), "identifier": ("obj", "obj"), "module": ("math", "os.path"),
    "monitor": ("M()", "M(1)"), "action": ("a", "A(1)"),
    "behavior/scenario": ("B()", "B(1)"), "specifier": ("with foo 1", "at (1, 2)"),
    "duration": ("3 seconds", "(x + 1) steps"), "recorder": ("rec", "rec"),
    "low": ("1", "(x + 1)"), "high": ("2", "(x + 2)"), "mean": ("1", "(x + 1)"),
    "stddev": ("2", "(x + 2)"), "weight": ("1", "2"),
    # grammar-block placeholders
    "class": ("Object", "Object"), "superclass": ("Object", "Object"),
    "arguments": ("", "x, y=3"), "exception": ("ValueError", "(ValueError, KeyError)"),
}


class Lit:
    def __init__(self, text):
        self.text = text


class Hole:
    def __init__(self, name):
        self.name = name


class Group:
    def __init__(self, alts, optional, star, literal=None):
        self.alts, self.optional, self.star, self.literal = alts, optional, star, literal


def parse_template(text, style):
    """style 'heading': *x* placeholders, () grouping unless glued to an identifier;
    style 'grammar': <x> placeholders, () always literal, [] always optional."""
    pos = 0
    n = len(text)

    def seq(closers):
        nonlocal pos
        alts = [[]]
        cur = alts[0]
        buf = []

        def flush():
            if buf:
                cur.append(Lit("".join(buf)))
                buf.clear()

        while pos < n:
            ch = text[pos]
            if ch in closers:
                break
            if ch == "|" and closers:
                flush()
                pos += 1
                alts.append([])
                cur = alts[-1]
                continue
            if style == "heading" and ch == "*":
                end = text.find("*", pos + 1)
                if end > pos + 1:
                    flush()
                    cur.append(Hole(text[pos + 1:end].strip()))
                    pos = end + 1
                    continue
            if style == "grammar" and ch == "<":
                end = text.find(">", pos + 1)
                if end > pos + 1 and re.fullmatch(r"[\w /]+", text[pos + 1:end]):
                    flush()
                    name = text[pos + 1:end]
                    pos = end + 1
                    if pos < n and text[pos] == "+":
                        pos += 1
                        cur.append(Hole(name + "+"))
                    else:
                        cur.append(Hole(name))
                    continue
            if ch in "([":
                prev = text[pos - 1] if pos else " "
                glued = prev.isalnum() or prev in "_>"
                if style == "heading":
                    literal = glued or (ch == "(" and False)
                else:
                    literal = ch == "("
                if ch == "(" and style == "heading" and not glued:
                    literal = False
                if literal:
                    buf.append(ch)
                    pos += 1
                    continue
                flush()
                pos += 1
                inner = seq(")" if ch == "(" else "]")
                pos += 1  # closer
                star = False
                if ch == "[" and pos < n and text[pos] == "*":
                    star = True
                    pos += 1
                cur.append(Group(inner, optional=(ch == "["), star=star))
                continue
            buf.append(ch)
            pos += 1
        flush()
        return alts

    alts = seq("")
    return alts[0]


def _ellipsis(text):
    """Variants of a heading containing `, ...` / `, . . .`: without repetition and with one."""
    m = re.search(r",\s*\.\s?\.\s?\.", text)
    if not m:
        return [text]
    head, tail = text[:m.start()], text[m.end():]
    # the repeated unit: trailing run of placeholders joined by '=' or ':'
    run = re.search(r"((?:\*[^*]+\*\s*[=:]\s*)*\*[^*]+\*)\s*$", head)
    unit = run.group(1) if run else ""
    if unit and not re.search(r"[=:]", unit):
        unit = re.search(r"(\*[^*]+\*)\s*$", head).group(1)
    # the repeated unit introduces a different name (duplicated names are a documented error)
    unit2 = unit.replace("*name*", "*name2*")
    return [head + tail, head + ", " + unit2 + tail]


def expand(items, mode, cap=48):
    """All texts of a parsed template (bounded); mode 0 = simple fillers, 1 = complex."""
    def ex_seq(seq):
        outs = [""]
        for it in seq:
            if isinstance(it, Lit):
                outs = [o + it.text for o in outs]
            elif isinstance(it, Hole):
                outs = [o + fill(it.name, mode) for o in outs]
            else:
                opts = []
                for alt in it.alts:
                    opts.extend(ex_seq(alt))
                if len(it.alts) == 1 and not it.optional:
                    # a single parenthesised alternative: grouping, or literal parentheses
                    opts = opts + ["(" + o + ")" for o in opts]
                if it.star:
                    opts = opts + [o + o for o in opts]
                if it.optional:
                    opts = [""] + opts
                outs = [o + p for o in outs for p in opts][:cap * 4]
        return outs

    res = []
    for t in ex_seq(items):
        t = re.sub(r"[ \t]+", " ", t).strip()
        t = re.sub(r"\s+([,)\]])", r"\1", t)
        t = re.sub(r"([(\[])\s+", r"\1", t)
        if t not in res:
            res.append(t)
    if len(res) > cap:
        step = len(res) / cap
        res = [res[int(k * step)] for k in range(cap)]
    return res


def fill(name, mode):
    key = name.lower().rstrip("+")
    if key == "statement":
        return "STATEMENT"
    if key not in FILL:
        raise KeyError(name)
    return FILL[key][mode]


# ---------------------------------------------------------------------------------------------
# contexts
# ---------------------------------------------------------------------------------------------

def _indent(text, n=4):
    return "\n".join((" " * n + ln) if ln.strip() else ln for ln in text.split("\n"))


def wrap(doc, section, heading, text):
    """Embed an instantiated form in a program in which the reference says it is legal."""
    if doc == "specifiers":
        return f"ego = new Object {text}\n"
    if doc == "distributions":
        return f"x = {text}\n"
    if doc == "operators":
        if "temporal" in section.lower():
            return f"require {text}\n"
        return f"x = {text}\n"
    if doc == "statements":
        first = heading.split()[0] if heading.split() else ""
        if "dynamic" in section.lower():
            if first == "abort":
                return ("behavior B():\n    try:\n        wait\n    interrupt when b:\n"
                        f"        {text}\n")
            if first == "do" and "," in text.split(" until ")[0] and "{" not in text:
                # several sub-scenarios in parallel: shown for modular scenarios (compose blocks)
                return f"scenario S():\n    compose:\n{_indent(text, 8)}\n"
            return f"behavior B():\n{_indent(text)}\n"
        return text + "\n"
    raise KeyError(doc)


def heading_forms():
    out = []
    for doc in REFDOCS:
        path = os.path.join(corpus.REPO, "docs", "reference", doc + ".rst")
        try:
            lines = open(path, encoding="utf-8").read().split("\n")
        except OSError:
            continue
        section = ""
        for i in range(len(lines) - 1):
            under = lines[i + 1]
            title = lines[i].rstrip()
            if not title or not under or len(under) < max(3, len(title) - 1):
                continue
            if set(under) <= {"="} or set(under) <= {"*"}:
                section = title
                continue
            if not (set(under) <= {"-"} or set(under) <= {"^"} or set(under) <= {"+"}):
                continue
            is_form = ("*" in title or re.match(r"[a-z(]", title)
                       or re.match(r"[A-Z]\w+\(", title))
            if not is_form:
                continue
            if doc == "statements" and "Statements" in title:
                continue
            out.append((doc, i + 1, section, title))
    return out


def grammar_forms():
    """Hand-chosen contexts for the seven scenic-grammar blocks, expanded mechanically."""
    out = []
    for b in corpus.scenic_grammar_blocks():
        rel, line = b["id"].rsplit(":", 1)
        if not any(rel.endswith(f"reference/{d}.rst") or rel.endswith("reference/classes.rst")
                   for d in REFDOCS):
            continue
        out.append((os.path.basename(rel)[:-4], int(line), b["src"].rstrip("\n")))
    return out


def _block_variants(src, mode):
    """Expand a (possibly multi-line) grammar block: line groups `[ ... ]` / `[ ... ]*` that
    start a line are taken as units of whole lines; the rest is expanded inline."""
    lines = src.split("\n")
    units = []  # ("line", text) | ("group", [lines], star)
    i = 0
    while i < len(lines):
        ln = lines[i]
        st = ln.strip()
        if st.startswith("["):
            depth = 0
            j = i
            while j < len(lines):
                for ch in lines[j]:
                    if ch == "[":
                        depth += 1
                    elif ch == "]":
                        depth -= 1
                if depth == 0:
                    break
                j += 1
            block = lines[i:j + 1]
            star = block[-1].rstrip().endswith("]*")
            ind = ln[:len(ln) - len(ln.lstrip())]
            block[0] = ind + block[0].lstrip()[1:]
            last = block[-1].rstrip()
            block[-1] = last[:-2] if star else last[:-1]
            units.append(("group", block, star))
            i = j + 1
        else:
            units.append(("line", ln, False))
            i += 1
    choices = []
    for kind, payload, star in units:
        if kind == "line":
            choices.append([[payload]])
        else:
            opts = [[], payload]
            if star:
                # the second copy defines another property (duplicates are a documented error)
                opts.append(payload + [ln.replace("<property>", "<property2>") for ln in payload])
            choices.append(opts)
    res = []
    for combo in itertools.islice(itertools.product(*choices), 64):
        text_lines = [ln for part in combo for ln in part]
        variants = [[]]
        for ln in text_lines:
            ind = ln[:len(ln) - len(ln.lstrip())]
            exp = expand(parse_template(ln.strip(), "grammar"), mode, cap=6)
            variants = [v + [ind + e] for v in variants for e in exp][:24]
        for v in variants:
            t = "\n".join(v)
            if lines[0].startswith("scenario") and "setup" in src \
                    and "setup:" not in t and "compose:" not in t:
                continue  # a scenario needs a body: keep the variants that have a block
            if lines[0].startswith("try") and "interrupt" not in t and "except" not in t:
                continue  # as in Python, a try needs at least one handler
            if t not in res:
                res.append(t)
    return res[:40]


def _statements_for(header, where):
    if where == "setup":
        return ["ego = new Object", "ego = new Object\n{I}x = 1"]
    if header.startswith("scenario") and where == "body":
        return ["ego = new Object"]
    if header.startswith("class"):
        return ["pass"]
    if header.startswith("behavior") or header.startswith("try"):
        return ["wait", "wait\n{I}take a"]
    return ["wait", "wait\n{I}wait"]


def forms():
    out = []
    for doc, line, section, title in heading_forms():
        for variant in _ellipsis(title):
            try:
                items = parse_template(variant, "heading")
                for mode in (0, 1):
                    for text in expand(items, mode):
                        out.append({"doc": doc, "line": line, "heading": title,
                                    "mode": mode, "source": wrap(doc, section, title, text)})
            except KeyError as e:
                out.append({"doc": doc, "line": line, "heading": title, "mode": 0,
                            "source": None, "skip": f"unknown placeholder {e}"})
    for doc, line, src in grammar_forms():
        header = src.split("\n")[0]
        for mode in (0, 1):
            for text in _block_variants(src, mode):
                # fill <statement>+ according to the block it sits in
                lines = text.split("\n")
                filled = []
                where = "body"
                for ln in lines:
                    st = ln.strip()
                    if st.startswith("setup:"):
                        where = "setup"
                    elif st.startswith("compose:"):
                        where = "compose"
                    if "STATEMENT" in ln:
                        ind = ln[:len(ln) - len(ln.lstrip())]
                        stmt = _statements_for(header, where)[min(mode, len(
                            _statements_for(header, where)) - 1)]
                        filled.append(ln.replace("STATEMENT", stmt.replace("{I}", ind)))
                    else:
                        filled.append(ln)
                prog = "\n".join(filled)
                if header.startswith("try"):
                    prog = "behavior B():\n" + _indent(prog)
                elif header.startswith("new "):
                    prog = "ego = " + prog
                elif header.startswith("class") and prog.rstrip().endswith(":"):
                    prog = prog + "\n    pass"
                out.append({"doc": doc, "line": line, "heading": header, "mode": mode,
                            "source": prog + "\n"})
    # de-duplicate, keep order
    seen = set()
    uniq = []
    for f in out:
        key = (f["doc"], f["heading"], f["source"])
        if key not in seen:
            seen.add(key)
            uniq.append(f)
    return uniq


if __name__ == "__main__":
    fs = forms()
    print(len(fs), "forms")
    import collections

    print(collections.Counter(f["doc"] for f in fs))
    for f in fs:
        if f.get("skip"):
            print("SKIP", f["heading"], f["skip"])
    import sys

    pat = sys.argv[1] if len(sys.argv) > 1 else None
    for f in fs:
        if pat and pat in f["heading"] and f["source"]:
            print("-----", f["heading"], "\n" + f["source"])
