"""C10 helper: deterministic character-, token- and line-level mutations of Scenic programs.

A mutation is a plain JSON list ``[kind, a, b, c]`` of a kind name and three non-negative integers;
every integer is reduced modulo the size of what it indexes, so every drawn mutation applies to
every program (construct, don't filter).  ``apply(src, muts)`` is a pure function.
"""

from __future__ import annotations

import re

# lexer that never fails and loses nothing: "".join(tokens) == src
_TOK = re.compile(
    r"[A-Za-z_][A-Za-z_0-9]*"          # names / keywords
    r"|\d+(?:\.\d+)?(?:[eE][+-]?\d+)?"  # numbers
    r"|\"\"\"|'''"                      # triple quotes
    r"|\*\*=?|//=?|<<=?|>>=?|[-+*/%@&|^<>=!:]=|->"  # multi-char operators
    r"|\r\n|\n|\r"                      # newlines
    r"|[ \t\f]+"                        # blanks
    r"|.", re.S)

PY_KEYWORDS = """False None True and as assert async await break class continue def del elif else
except finally for from global if import in is lambda nonlocal not or pass raise return try while
with yield match case type _""".split()

SCENIC_KEYWORDS = """at by do new of on require to until abort above additive after ahead along
altitude always angle apparent apparently away back behavior behind below beyond bottom can choose
compose contained deg directly distance dynamic ego eventually every facing final follow following
from front heading implies initial interrupt intersects invariant left minimum model monitor mutate
next offset override param past position precondition record relative right scenario seconds see
setup shuffle simulation simulator steps take terminate top toward visible wait when workspace
globalParameters""".split()

OPERATORS = ["(", ")", "[", "]", "{", "}", ":", ",", ".", ";", "=", "==", "!=", "<", ">", "<=",
             ">=", "+", "-", "*", "**", "/", "//", "%", "@", "->", ":=", "+=", "-=", "*=", "@=",
             "...", "!", "~", "&", "|", "^", "\\", "#", "'", '"', '"""', "f'", 'f"', "rb'", "$",
             "?", "`", "0", "1", "0.5", "1e5", "0x1F", "1_000", "1j", "\n", "\n    ", "\t", " "]

DICTIONARY = PY_KEYWORDS + SCENIC_KEYWORDS + OPERATORS

CHARS = list("()[]{}:,.;'\"\\#@=<>!~%&|^+-*/ \n\t\f\rabcxyz_019") + [
    "é", "\u00a0", "\u3000", "\u200b", "🙃", "\ufeff", "\x00", "\x0b", "\u2028", "ª", "²", "١"]

# Scenic-only expressions to be moved into Python target positions
SCENIC_EXPRS = [
    "new Object", "new Object at (1, 2)", "new Object facing 30 deg, with foo 3",
    "distance to x", "distance from x to y", "angle to x", "x deg", "30 deg",
    "front of ego", "back left of x", "visible x", "not visible x", "x visible from y",
    "x relative to y", "x offset by y", "x offset along y by z", "ego can see x",
    "x intersects y", "x at y", "relative heading of x", "apparent heading of x from y",
    "follow f from p for 3", "1 @ 2", "x until y", "always x", "eventually x", "next x",
    "x implies y", "altitude to x", "minimum distance to x", "top front left of x",
    "ego", "workspace", "globalParameters", "globalParameters.x", "initial scenario",
    "position of x", "x in y", "new Object in r, facing toward p",
    # instance creation without `new`
    "Object beyond x by y", "Object at x", "Object facing x, with foo 3", "Car left of x by 2",
    "Object visible", "Object in r", "Object following f for 3", "Object offset by x",
    "Object ahead of x", "Object with foo 3", "Object beyond x by y from z",
    # plain Python expressions that are (in)valid targets, for the same positions
    "()", "[]", "(x, 3 deg)", "[x, new Object]", "*x", "x.y", "x[0]", "-x", "x if y else z",
    "lambda: x", "f()", "{}", "{1}", "...", "None", "True", "__debug__", "3", "'s'", "f'{x}'",
    "x < y", "x and y", "not x", "[y for y in z]", "(y for y in z)", "{k: v for k in z}",
    "await x", "yield", "x := 3", "x[1:2]", "x, y", "(x)", "((x, y), [z, *w])",
]

TARGET_POSITIONS = [
    "{E} = 1", "{E}, y = 1, 2", "[{E}] = z", "*{E}, y = z", "x = {E} = 1",
    "@{E}\ndef f():\n    pass", "@{E}\nclass C:\n    pass",
    "x = f\"{{{E}}}\"", "x = f'{{{E}!r}}'", "x = f'{{x:{{{E}}}}}'", "x = f'{{{E}=}}'",
    "x = f'''{{\n{E}\n}}'''",
    "del {E}", "del ({E}), y",
    "for {E} in y:\n    pass", "for x, {E} in y:\n    pass", "x = [1 for {E} in y]",
    "async for {E} in y:\n    pass",
    "{E} += 1", "{E} @= 1", "{E} //= {E}",
    "{E}: int = 3", "{E}: int", "x: {E} = 3",
    "with a as {E}:\n    pass", "with {E}:\n    pass", "with ({E} as y):\n    pass",
    "x = lambda {E}: 1", "x = lambda: {E}", "def f({E}):\n    pass", "def f(x={E}):\n    pass",
    "def f() -> {E}:\n    pass", "def f(x: {E}):\n    pass",
    "x[{E}] = 1", "x[{E}:{E}]", "x.y = {E}", "({E}).y = 1", "({E})[0] = 1",
    "(x := {E})", "({E} := 1)",
    "import {E}", "from {E} import x", "from x import {E}", "import x as {E}",
    "global {E}", "nonlocal {E}",
    "f(**{E})", "f(*{E})", "f(x={E})", "f({E}=1)", "f({E} for x in y)",
    "match x:\n    case {E}:\n        pass", "match {E}:\n    case _:\n        pass",
    "match x:\n    case [{E}, *_]:\n        pass", "match x:\n    case {{1: {E}}}:\n        pass",
    "try:\n    pass\nexcept {E}:\n    pass", "try:\n    pass\nexcept E as {E}:\n    pass",
    "raise {E} from {E}", "assert {E}, {E}", "return {E}", "yield {E}", "x = yield {E}",
    "await {E}", "x = {{{E}: {E}}}", "x = {{{E}}}", "x = {{**{E}}}", "x = [*{E}]",
    "x = {E} if {E} else {E}", "x = not {E}", "x = -{E}", "x = {E} ** {E}", "x = {E}.y",
    "x = {E}(1)", "x = {E}[0]", "x = ({E})", "x = {E},", "while {E}:\n    pass",
    "if {E}:\n    pass\nelif {E}:\n    pass", "class C({E}):\n    pass",
    "class C(metaclass={E}):\n    pass", "type X = {E}", "type {E} = int",
    "def f[T: {E}]():\n    pass", "print({E}, file={E})",
    "require {E}", "require[0.5] {E}", "require[{E}] x", "require {E} as {E}",
    "require {E} if {E} else {E}", "require[0.5] {E} if {E} else {E}",
    "terminate when {E} if {E} else {E}", "require not {E}", "require {E} and {E}",
    "require {E} or not {E}", "require ({E}) until ({E})", "require always ({E} if {E} else {E})",
    "require lambda: {E}", "require {E} implies ({E} if {E} else {E})",
    "record {E} if {E} else {E} as r", "x = ({E}) if ({E}) else ({E})",
    "require eventually {E} until {E}", "require next ({E}) if {E} else {E}",
    "param {E} = 1", "param x = {E}, y = {E}", "mutate {E}", "mutate x by {E}",
    "param x = {E}, x = {E}", "param 'x' = 1, x = {E}", "mutate x, x", "class C:\n    foo: 1\n    foo: {E}",
    "record {E} as {E}", "record initial {E}", "terminate when {E}", "terminate after {E} seconds",
    "model {E}", "simulator {E}", "ego = {E}", "workspace = {E}",
    "behavior B({E}):\n    take {E}", "behavior B():\n    precondition: {E}\n    wait",
    "behavior B():\n    do {E} for {E} seconds", "behavior B():\n    do {E} until {E}",
    "behavior B():\n    try:\n        wait\n    interrupt when {E}:\n        abort",
    "behavior B():\n    wait for {E} steps", "behavior B():\n    override {E} with foo {E}",
    "behavior B():\n    do choose {{{E}: 1, {E}: 2}}", "behavior B():\n    do shuffle {E}, {E}",
    "monitor M():\n    require {E}\n    wait", "scenario S():\n    setup:\n        {E}",
    "scenario S():\n    compose:\n        do {E}", "class C:\n    foo: {E}\n    bar[dynamic]: {E}",
    "class C:\n    {E}[additive]: 1", "new Object with {E} 1", "new Object at {E}, facing {E}",
    "new Object left of {E} by {E}", "new Object beyond {E} by {E} from {E}",
    "new Object following {E} from {E} for {E}", "new {E}", "new Object {E}",
    "new Object at 1,\n    {E}", "x = new Object at {E},\n        facing {E}",
]

NUMBERS = ["05", "0x10", "1j", "1e400", "0o7", "0b1", "1_0", "1__0", "0_", "1.e", ".5", "1e", "0xg",
           "00", "1E5", "0.0", "-1", "1e-5", "9" * 30, "0777", "1.5j", "0b2", "1_000.0_1", "1if"]

STRINGS = [r'"s"', r"'s'", r'b"b"', r'rb"a"', r'f"{x}"', r'f"{x!r}"', r'f"{x=}"', r"f'{x:>{w}}'",
           r'"\x"', r"'\N{foo}'", 'b"\u00e9"', r'"\u12"', r"'''t" + "\n" + r"u'''", r'u"u"',
           r'f"{x!z}"', r'f"{}"', r'f"{x:{y:{z:{w}}}}"', r'r"\\"', r'"\\"', r'f"{{"', r'f"}"',
           r'f"{x!r:^{w}}"', 'f"""{\nx\n}"""', r"f'{x'", r'"\777"', r'bf"x"', r'f"{lambda: 1}"',
           r'f"{x:=3}"', r'f"{*x}"', "'\\\n'"]

ESCAPES = [r"\x", r"\N{foo}", r"\u12", "\\", "{", "}", "{x!r}", "{x=}", "\u00e9", r"\U0011ffff",
           r"\8", "\n", "{{", "%", r"\N{DIGIT ONE}", "\x00"]

PREFIXES = ["b", "f", "r", "rb", "fr", "u", "bf", "F", "Rb", "ub"]

# statement templates with number ({N}) and string ({S}) holes
STATEMENTS = [
    "require[{N}] x", "terminate after {N} seconds", "terminate after {N} steps", "param {S} = 1",
    "param x = {N}, {S} = {S}", "require x as {N}", "require x as {S}", "record x as {S}",
    "record x to {S}", "mutate x by {N}", "x = {N} deg", "new Object with foo {S}",
    "behavior B():\n    wait for {N} steps", "behavior B():\n    do C() for {N} seconds",
    "model {S}", "x = {S} {S}", "x = {S} {N}", "x = {S}.y", "x = {{ {S}: {N} }}", "x = {N}.real",
    "x = {N} @ {N}", "x = {S} {S} {S}", "print({S}, {N})", "x = {N}if y else {N}",
    "new Object at ({N}, {N}), facing {N} deg", "x = Range({N}, {N})", "import {S}",
    "x: {S} = {S}", "def f(x={S}):\n    return {N}", "class C:\n    foo: {S}\n    bar: {N}",
    "require monitor {S}", "simulator {S}", "x = ({S}\n     {S})", "x = {S} if {N} else {S}",
    "match x:\n    case {N}:\n        pass\n    case {S}:\n        pass",
    "match x:\n    case -{N}+{N}:\n        pass", "x = {S} % ({N},)", "x = not {S}",
    "del {S}", "{S} = 1", "{N} = 1", "for {N} in x:\n    pass", "x = [{S} for y in {S}]",
]

# a (possibly prefixed) single-line string literal
_STR = re.compile(r"""(?P<prefix>[A-Za-z]{0,2})(?P<q>"|')(?P<body>(?:\\.|(?!(?P=q))[^\\\n])*)(?P=q)""")

KINDS = ["cdel", "cins", "crep", "cswap", "trunc", "tdel", "tdup", "tswap", "trep", "tdict",
         "tinsdict", "indent", "join", "split", "dupline", "delline", "swaplines", "wrap",
         "move", "moveown", "numrep", "strins", "strjoin", "strprefix", "stmt"]


def tokens(src):
    return _TOK.findall(src)


def _solid(toks):
    """Indices of the tokens that are not blanks/newlines."""
    return [i for i, t in enumerate(toks) if t.strip()]


def _lines(src):
    return src.split("\n")


def _indent_of(line):
    return line[:len(line) - len(line.lstrip(" \t"))]


def own_expressions(src):
    """Candidate Scenic(-looking) expressions of the program itself: the text after a statement
    head or `=` on a line, and the text of specifiers after `new Class`."""
    out = []
    for ln in _lines(src):
        t = ln.strip()
        if not t or t.startswith("#"):
            continue
        m = re.match(r"(?:require(?:\[[^\]]*\])?|terminate when|param \w+ =|record|take|wait until|"
                     r"do|[\w.]+\s*=|return|if|while|elif|interrupt when)\s+(.+?):?\s*(?:#.*)?$", t)
        if m and m.group(1).strip():
            out.append(m.group(1).strip().rstrip(",\\"))
    return out or ["new Object"]


_DYNAMIC_HEADS = ["behavior VfB():", "monitor VfM():", "scenario VfS():\n    compose:",
                  "scenario VfT():\n    setup:"]


def _wrap_dynamic(stmt, indent, c):
    """Half of the statements inserted at top level are put inside a behavior / monitor /
    scenario block of their own (local variables are compiled differently there)."""
    sel = (c // 997) % 8
    if indent or sel >= len(_DYNAMIC_HEADS) or stmt.startswith(
            ("behavior", "monitor", "scenario", "@", "class", "model", "param", "simulator")):
        return stmt
    head = _DYNAMIC_HEADS[sel]
    pad = " " * (8 if "\n" in head else 4)
    tail = "pass" if "setup" in head else "wait"
    return head + "\n" + "\n".join(pad + ln for ln in stmt.split("\n")) + "\n" + pad + tail


def apply_one(src, mut):
    kind, a, b, c = mut
    n = len(src)
    if kind == "cdel":
        if not n:
            return src
        i = a % n
        return src[:i] + src[i + 1 + b % 4:]
    if kind == "cins":
        i = a % (n + 1)
        return src[:i] + CHARS[b % len(CHARS)] * (1 + c % 2) + src[i:]
    if kind == "crep":
        if not n:
            return src
        i = a % n
        return src[:i] + CHARS[b % len(CHARS)] + src[i + 1:]
    if kind == "cswap":
        if n < 2:
            return src
        i, j = sorted((a % n, b % n))
        if i == j:
            return src
        return src[:i] + src[j] + src[i + 1:j] + src[i] + src[j + 1:]
    if kind == "trunc":
        return src[:a % (n + 1)]
    if kind in ("strins", "strjoin", "strprefix"):
        lits = list(_STR.finditer(src))
        if not lits:
            sep = "" if (src.endswith("\n") or not src) else "\n"
            return (src + sep + "x = " + STRINGS[b % len(STRINGS)] + " "
                    + STRINGS[c % len(STRINGS)] + "\n")
        m = lits[a % len(lits)]
        if kind == "strins":
            k = m.start("body") + (c % (len(m.group("body")) + 1))
            return src[:k] + ESCAPES[b % len(ESCAPES)] + src[k:]
        if kind == "strjoin":
            lit = STRINGS[b % len(STRINGS)]
            if c % 2:
                return src[:m.end()] + " " + lit + src[m.end():]
            return src[:m.start()] + lit + " " + src[m.start():]
        return src[:m.start()] + PREFIXES[b % len(PREFIXES)] + src[m.start():]
    if kind == "stmt":
        state = [a]

        def hole(mt):
            state[0] = state[0] * 7 + 3
            lst = NUMBERS if mt.group(0) == "{N}" else STRINGS
            return lst[state[0] % len(lst)]

        stmt = STATEMENTS[b % len(STATEMENTS)].replace("{{", "\x01").replace("}}", "\x02")
        stmt = re.sub(r"\{N\}|\{S\}", hole, stmt).replace("\x01", "{").replace("\x02", "}")
        lines = _lines(src)
        i = c % (len(lines) + 1)
        ref = lines[i] if i < len(lines) and lines[i].strip() else (lines[i - 1] if i else "")
        ind = _indent_of(ref)
        lines[i:i] = [ind + ln for ln in _wrap_dynamic(stmt, ind, c).split("\n")]
        return "\n".join(lines)
    toks = tokens(src)
    if kind == "numrep":
        idx = [i for i, t in enumerate(toks) if t[0].isdigit()]
        if not idx:
            sep = "" if (src.endswith("\n") or not src) else "\n"
            return src + sep + "x = " + NUMBERS[b % len(NUMBERS)] + "\n"
        toks[idx[a % len(idx)]] = NUMBERS[b % len(NUMBERS)]
        return "".join(toks)
    solid = _solid(toks)
    if kind in ("tdel", "tdup", "tswap", "trep", "tdict", "tinsdict", "wrap"):
        if not solid:
            return src
        i = solid[a % len(solid)]
        if kind == "tdel":
            del toks[i]
        elif kind == "tdup":
            toks.insert(i, toks[i] + (" " if toks[i][0].isalnum() else ""))
        elif kind == "tswap":
            j = solid[b % len(solid)]
            toks[i], toks[j] = toks[j], toks[i]
        elif kind == "trep":
            toks[i] = toks[solid[b % len(solid)]]
        elif kind == "tdict":
            toks[i] = DICTIONARY[b % len(DICTIONARY)]
        elif kind == "tinsdict":
            toks.insert(i, DICTIONARY[b % len(DICTIONARY)] + " ")
        elif kind == "wrap":
            k = solid.index(i)
            j = solid[min(len(solid) - 1, k + b % 6)]
            op, cl = [("(", ")"), ("[", "]"), ("{", "}"), ("(", "]"), ("f'{", "}'"),
                      ("(", "")][c % 6]
            toks[j] = toks[j] + cl
            toks[i] = op + toks[i]
        return "".join(toks)
    lines = _lines(src)
    if kind == "indent":
        i = a % len(lines)
        delta = ["    ", "  ", " ", "\t", "-4", "-2", "-1", "        "][b % 8]
        if delta.startswith("-"):
            k = int(delta[1:])
            ind = _indent_of(lines[i])
            lines[i] = ind[:max(0, len(ind) - k)] + lines[i][len(ind):]
        else:
            lines[i] = delta + lines[i]
        return "\n".join(lines)
    if kind == "join":
        if len(lines) < 2:
            return src
        i = a % (len(lines) - 1)
        sep = ["", " ", ", ", "; ", " \\\n"][b % 5]
        lines[i:i + 2] = [lines[i] + sep + lines[i + 1].lstrip()]
        return "\n".join(lines)
    if kind == "split":
        i = a % len(lines)
        ln = lines[i]
        k = b % (len(ln) + 1)
        lines[i:i + 1] = [ln[:k], _indent_of(ln) + ["", "    ", "\\"][c % 3] + ln[k:]]
        return "\n".join(lines)
    if kind == "dupline":
        i = a % len(lines)
        lines.insert(i, lines[i])
        return "\n".join(lines)
    if kind == "delline":
        if len(lines) < 2:
            return src
        del lines[a % len(lines)]
        return "\n".join(lines)
    if kind == "swaplines":
        i, j = a % len(lines), b % len(lines)
        lines[i], lines[j] = lines[j], lines[i]
        return "\n".join(lines)
    if kind in ("move", "moveown"):
        if kind == "move":
            e = SCENIC_EXPRS[a % len(SCENIC_EXPRS)]
        else:
            own = own_expressions(src)
            e = own[a % len(own)]
        pos = TARGET_POSITIONS[b % len(TARGET_POSITIONS)]
        stmt = pos.replace("{E}", e).replace("{{", "{").replace("}}", "}")
        i = c % (len(lines) + 1)
        # take the indentation of the line it is inserted before (or of the previous line)
        ref = lines[i] if i < len(lines) and lines[i].strip() else (lines[i - 1] if i else "")
        ind = _indent_of(ref)
        new = [ind + ln for ln in _wrap_dynamic(stmt, ind, c).split("\n")]
        lines[i:i] = new
        return "\n".join(lines)
    raise ValueError(kind)


def apply(src, muts):
    for m in muts:
        src = apply_one(src, m)
    return src


def selfcheck():
    from vf.core import HarnessError

    s = "ego = new Object at (1, 2), facing 30 deg\nrequire ego.x > 0  # c\n"
    if "".join(tokens(s)) != s:
        raise HarnessError("c10 lexer loses text")
    for k in KINDS:
        for a in (0, 7, 33):
            r = apply_one(s, [k, a, a + 3, a + 1])
            if not isinstance(r, str):
                raise HarnessError("c10 mutation " + k)
    if apply(s, [["tdel", 0, 0, 0]]) != " = new Object at (1, 2), facing 30 deg\nrequire ego.x > 0  # c\n":
        raise HarnessError("c10 tdel")
    if apply("a\nb\n", [["join", 0, 0, 0]]) != "ab\n":
        raise HarnessError("c10 join")
    k = TARGET_POSITIONS.index("(x := {E})")
    if "(x := new Object)" not in apply("x = 1\n", [["move", 0, k, 997]]) or \
            "behavior VfB():" not in apply("x = 1\n", [["move", 0, k, 0]]):
        raise HarnessError("c10 move/wrap: " + repr(apply("x = 1\n", [["move", 0, k, 0]])))
    k = TARGET_POSITIONS.index("del {E}")
    if "del new Object" not in apply("x = 1\n", [["move", 0, k, 997 * 5]]):
        raise HarnessError("c10 move: " + repr(apply("x = 1\n", [["move", 0, k, 997 * 5]])))
