"""Dynamic-fragment IR, emitter to Scenic text, and the reference machine (oracle) shared by C12
and C13.

The machine is written from docs/reference/dynamic_scenarios.rst (steps 1a-10) and
docs/reference/statements.rst; it is a small-step interpreter over *explicit continuation
stacks* (lists of frames; a try-interrupt frame owns one stack per block so a pre-empted block
resumes exactly where it stopped) and shares no structure with the generator-based
implementation.  Where the reference does not decide a behaviour the machine either raises
`Unjudged` or consults a *reading flag*; the judge accepts every combination of the consulted
flags.

IR (plain JSON):
  program = {"behaviors": [{"name","pre":[cond],"inv":[cond],"body":[stmt]}],
             "monitors":  [{"name","body":[stmt]}],
             "scenarios": [{"name","pre","inv","setup":[sstmt],"compose":[stmt]|None}],  # [0] = Main
             "toplevel": bool}
  cond  = "c" | "!c" | "rej:c"        (T("c"), not T("c"), TR("c"))
  sstmt = ["obj", name, beh|None] | ["term_when", cond] | ["term_sim_when", cond]
        | ["term_after", n, unit] | ["record", tag] | ["record_initial", tag]
        | ["record_final", tag] | ["monitor", mon]
  stmt  = ["take", k] | ["wait"] | ["wait_for", n, unit] | ["wait_until", cond]
        | ["do", [names]] | ["do_for", [names], n, unit] | ["do_until", [names], cond]
        | ["terminate"] | ["terminate_sim"] | ["log", tag] | ["require", cond] | ["pass"]
        | ["if", cond, [stmt], [stmt]] | ["for", k, [stmt]] | ["while", cond|None, [stmt]]
        | ["try", [stmt], [[cond, [stmt]], ...]] | ["abort"] | ["break"] | ["continue"]
        | ["return"]
"""

from __future__ import annotations

import math
from fractions import Fraction

from vf import core

# ---------------------------------------------------------------------------------------------
# Emitter
# ---------------------------------------------------------------------------------------------


def pc(c):
    if c.startswith("rej:"):
        return f'TR("{c[4:]}")'
    if c.startswith("!"):
        return f'(not T("{c[1:]}"))'
    return f'T("{c}")'


def pdur(n, unit):
    return f"{n!r} {unit}"


def emit_body(stmts, ind, out):
    p = "    " * ind
    if not stmts:
        out.append(p + "pass")
    for s in stmts:
        k = s[0]
        if k == "take":
            out.append(f"{p}take A({s[1]})")
        elif k == "wait":
            out.append(f"{p}wait")
        elif k == "wait_for":
            out.append(f"{p}wait for {pdur(s[1], s[2])}")
        elif k == "wait_until":
            out.append(f"{p}wait until {pc(s[1])}")
        elif k == "do":
            out.append(f"{p}do " + ", ".join(n + "()" for n in s[1]))
        elif k == "do_for":
            out.append(f"{p}do " + ", ".join(n + "()" for n in s[1]) + f" for {pdur(s[2], s[3])}")
        elif k == "do_until":
            out.append(f"{p}do " + ", ".join(n + "()" for n in s[1]) + f" until {pc(s[2])}")
        elif k == "terminate":
            out.append(f"{p}terminate")
        elif k == "terminate_sim":
            out.append(f"{p}terminate simulation")
        elif k == "log":
            out.append(f'{p}LOG("{s[1]}")')
        elif k == "require":
            out.append(f"{p}require {pc(s[1])}")
        elif k == "pass":
            out.append(f"{p}pass")
        elif k == "if":
            out.append(f"{p}if {pc(s[1])}:")
            emit_body(s[2], ind + 1, out)
            if s[3]:
                out.append(f"{p}else:")
                emit_body(s[3], ind + 1, out)
        elif k == "for":
            out.append(f"{p}for _i{ind} in range({s[1]}):")
            emit_body(s[2], ind + 1, out)
        elif k == "while":
            out.append(f"{p}while {pc(s[1]) if s[1] else 'True'}:")
            emit_body(s[2], ind + 1, out)
        elif k == "try":
            out.append(f"{p}try:")
            emit_body(s[1], ind + 1, out)
            for cond, body in s[2]:
                out.append(f"{p}interrupt when {pc(cond)}:")
                emit_body(body, ind + 1, out)
        elif k in ("abort", "break", "continue", "return"):
            out.append(p + k)
        else:
            raise ValueError(k)


def object_slots(prog):
    """Deterministic position slot of every object name."""
    slots = {}
    for sc in prog["scenarios"]:
        for s in sc["setup"]:
            if s[0] == "obj" and s[1] not in slots:
                slots[s[1]] = len(slots)
    return slots


def emit_setup(sc, ind, out, slots, is_main):
    p = "    " * ind
    first = True
    for s in sc["setup"]:
        k = s[0]
        if k == "obj":
            pre = "ego = " if (is_main and first) else ""
            first = False
            beh = f", with behavior {s[2]}()" if s[2] else ""
            out.append(f'{p}{pre}new Object at (0, {10 * slots[s[1]]}, 0), with name "{s[1]}"{beh}, '
                       f"with velocity (1, 0, 0), with allowCollisions True, "
                       f"with requireVisible False")
        elif k == "term_when":
            out.append(f"{p}terminate when {pc(s[1])}")
        elif k == "term_sim_when":
            out.append(f"{p}terminate simulation when {pc(s[1])}")
        elif k == "term_after":
            out.append(f"{p}terminate after {pdur(s[1], s[2])}")
        elif k == "record":
            out.append(f'{p}record R("{s[1]}") as {s[1]}')
        elif k == "record_initial":
            out.append(f'{p}record initial R("{s[1]}") as {s[1]}')
        elif k == "record_final":
            out.append(f'{p}record final R("{s[1]}") as {s[1]}')
        elif k == "monitor":
            out.append(f"{p}require monitor {s[1]}()")
        else:
            raise ValueError(k)
    if not sc["setup"]:
        out.append(p + "pass")


def emit(prog):
    from vf.dynsim import HEADER

    out = [HEADER.rstrip("\n")]
    slots = object_slots(prog)
    # "selfguards": the guards of behaviours also mention the agent (a conjunct that always
    # holds), as guards of real programs do: they need `self` bound whenever they are checked
    sg = "(self.position is not None) and " if prog.get("selfguards") else ""
    for b in prog["behaviors"]:
        out.append(f"behavior {b['name']}():")
        for c in b.get("pre", []):
            out.append(f"    precondition: {sg}{pc(c)}")
        for c in b.get("inv", []):
            out.append(f"    invariant: {sg}{pc(c)}")
        emit_body(b["body"], 1, out)
    for m in prog["monitors"]:
        out.append(f"monitor {m['name']}():")
        emit_body(m["body"], 1, out)
    scs = prog["scenarios"]
    for i, sc in list(enumerate(scs))[1:] + [(0, scs[0])]:
        if i == 0 and prog.get("toplevel"):
            emit_setup(sc, 0, out, slots, True)
            continue
        out.append(f"scenario {sc['name']}():")
        for c in sc.get("pre", []):
            out.append(f"    precondition: {pc(c)}")
        for c in sc.get("inv", []):
            out.append(f"    invariant: {pc(c)}")
        out.append("    setup:")
        emit_setup(sc, 2, out, slots, i == 0)
        if sc.get("compose") is not None:
            out.append("    compose:")
            emit_body(sc["compose"], 2, out)
    return "\n".join(out) + "\n"


# ---------------------------------------------------------------------------------------------
# Reference machine
# ---------------------------------------------------------------------------------------------

FIN, ABORT, RETURN, BREAK, CONTINUE = "fin", "abort", "return", "break", "continue"
WAIT = ()
ENDSCEN, ENDSIM = "endscen", "endsim"

#: reading flags (reference silent/ambiguous); value False = first reading
FLAGS = (
    "until_starts_first",      # `do X until c` with c true on entry: X is started, then stopped
    "beh_term_deferred",       # `terminate` by an agent of the top-level scenario only sets the
                               # flag examined in step 4 of the next time step
    "termwhen_before_compose", # terminate-when conditions examined before the compose block runs
    "comp_inv_after_sub",      # scenario invariants also checked when a sub-scenario returns
    "limit_on_entry_checks_invoker",  # `do X until c`, c true on entry: invoker's invariants checked
    "limit_counts_suspended_time",  # `terminate after` counts the steps a suspended scenario missed
)

#: defect models (switches reproducing a known deviation of the implementation)
DEFECTS = ("ti_inv", "sub_reqlike", "ti_flags", "ti_return2", "mon_term_sub", "sched_consumed",
           "comp_zombie", "comp_onelist")


class Unjudged(Exception):
    pass


class StallRef(Exception):
    pass


class ModelError(Exception):
    """The program is outside the fragment (generator bug) -> harness error."""


class Reject(Exception):
    def __init__(self, kind, classes=()):
        self.kind = kind  # "require" | "guard"
        self.classes = frozenset(classes)


class EndNow(Exception):
    """Leave the step loop: go to step 10."""

    def __init__(self, types):
        self.types = types


class Inst:
    """A behaviour / monitor / scenario instance as far as guards are concerned."""

    __slots__ = ("dfn", "kind", "scen", "terminated")

    def __init__(self, dfn, kind, scen=None):
        self.dfn = dfn
        self.kind = kind
        self.scen = scen
        self.terminated = False


class Scen:
    __slots__ = ("dfn", "parent", "running", "elapsed", "limit", "block", "inst", "monitors", "t0",
                 "children", "term_when", "term_sim_when", "records", "finals", "initials",
                 "is_top", "dyn", "by_mon")

    def __init__(self, dfn, parent):
        self.dfn = dfn
        self.parent = parent
        self.running = False
        self.elapsed = 0
        self.t0 = None
        self.limit = None
        self.block = None
        self.inst = Inst(dfn, "scen", self)
        self.monitors = []
        self.children = []
        self.term_when = []
        self.term_sim_when = []
        self.records = []
        self.finals = []
        self.initials = []
        self.is_top = parent is None
        self.dyn = parent is not None  # instantiated while the simulation runs
        self.by_mon = False  # stopped by a `terminate` of one of its monitors (classes only)


class Agent:
    __slots__ = ("name", "block", "inst", "scen", "finished", "idx")


class Mon:
    __slots__ = ("name", "block", "inst", "scen", "finished", "uid")


class Machine:
    MAX_TICKS = 4000  # small steps without a yield before the program is declared stalled

    def __init__(self, prog, table, schedule, maxSteps, timestep, flags=None, defects=None,
                 ti_flags=None):
        self.prog = prog
        self.table = table
        self.schedule = schedule
        self.maxSteps = maxSteps
        self.dt = Fraction(timestep)
        self.dt_raw = timestep
        self.flags = dict(flags or {})
        self.defects = dict(defects or {})
        # with a defect model the machine only names a failure: corners the reference leaves
        # open then follow the implementation instead of ending the run as unjudged
        self.lenient = any(self.defects.values())
        self.ti_flags = ti_flags or {}
        self.consulted = set()
        self.t = 0
        self.log = []
        self.actions = []
        self.records = {}
        self.behs = {b["name"]: b for b in prog["behaviors"]}
        self.mons = {m["name"]: m for m in prog["monitors"]}
        self.scens = {s["name"]: s for s in prog["scenarios"]}
        self.agents = []
        self.objects = []
        self.top = None
        self.top_done = False
        self.end_types = None
        self.ticks = 0
        self.mon_uid = 0
        self.features = set()
        self.stopped_with_finals = False

    # -- helpers --------------------------------------------------------------------------------
    def flag(self, name):
        self.consulted.add(name)
        return bool(self.flags.get(name, False))

    def tick(self):
        self.ticks += 1
        if self.ticks > self.MAX_TICKS:
            raise StallRef()

    def atom(self, c):
        neg = c.startswith("!")
        name = c[4:] if c.startswith("rej:") else c.lstrip("!")
        row = self.table[name]
        if self.t >= len(row):
            raise ModelError(f"table row {self.t} missing for {name}")
        v = bool(row[self.t])
        return (not v) if neg else v

    def steps_of(self, n, unit):
        """Duration as a number of steps (exact).  A duration in seconds is reached at the
        first step at which the elapsed time is >= the duration ("after the given amount of
        time").  Numbers are judged only when reading them as the decimals written in the
        program and reading them as the binary floats they become give the same step."""
        if unit == "steps":
            return Fraction(n)
        flt = Fraction(n) / self.dt
        if isinstance(self.dt_raw, float) or isinstance(n, float):
            def dec_of(x):
                return Fraction(repr(x)) if isinstance(x, float) else Fraction(x)

            dec = dec_of(n) / dec_of(self.dt_raw)
            if math.ceil(dec) != math.ceil(flt):
                if self.lenient:
                    return flt
                raise Unjudged("duration/timestep differs between decimal and binary reading")
            return dec
        return flt

    def check_guards(self, inst, pre):
        d = inst.dfn
        bad = set()
        if pre:
            if any(not self.atom(c) for c in d.get("pre", [])):
                bad.add("PreconditionViolation")
        if any(not self.atom(c) for c in d.get("inv", [])):
            bad.add("InvariantViolation")
        if bad:
            self.features.add("guard-violated")
            raise Reject("guard", bad)

    # -- scenario life cycle --------------------------------------------------------------------
    def start_scenario(self, dfn, parent):
        S = Scen(dfn, parent)
        # preconditions and invariants are checked when the scenario starts (before its setup)
        try:
            self.check_guards(S.inst, True)
        except Reject:
            if parent is None:
                self.features.add("top-guard-at-start")
            raise
        new_agents = []
        for s in dfn["setup"]:
            k = s[0]
            if k == "obj":
                self.objects.append(s[1])
                if S.dyn:
                    self.log.append(("create", self.t, s[1]))
                if s[2]:
                    a = Agent()
                    a.name, a.scen, a.finished = s[1], S, False
                    a.inst = Inst(self.behs[s[2]], "beh", S)
                    a.block = [["call", a.inst], ["seq", a.inst.dfn["body"], 0]]
                    a.idx = len(self.agents)
                    self.agents.append(a)
                    new_agents.append(a)
            elif k in ("term_when", "term_sim_when", "record", "record_initial", "record_final"):
                if S.dyn and self.defects.get("sub_reqlike"):
                    # defect model: the statement acts as a one-shot requirement at start
                    self._pending_reqlike.append((S, s))
                elif k == "term_when":
                    S.term_when.append(s[1])
                elif k == "term_sim_when":
                    S.term_sim_when.append(s[1])
                elif k == "record":
                    S.records.append(s[1])
                elif k == "record_initial":
                    if S.dyn and self.t > 0:
                        raise Unjudged("record initial in a sub-scenario started after step 0")
                    S.initials.append(s[1])
                else:
                    S.finals.append(s[1])
                if S.dyn:
                    self.features.add("sub-reqlike")
            elif k == "term_after":
                S.limit = self.steps_of(s[1], s[2])
            elif k == "monitor":
                m = Mon()
                m.name, m.scen, m.finished = s[1], S, False
                m.inst = Inst(self.mons[s[1]], "mon", S)
                m.block = [["call", m.inst], ["seq", m.inst.dfn["body"], 0]]
                self.mon_uid += 1
                m.uid = self.mon_uid
                S.monitors.append(m)
            else:
                raise ModelError(k)
        S.running = True
        if dfn.get("compose") is not None:
            S.block = [["call", S.inst], ["seq", dfn["compose"], 0]]
        elif dfn.get("pre") or dfn.get("inv"):
            # a scenario with guards but no compose block still has its invariants checked
            # at every step (1c): modelled as an endless wait
            S.block = [["call", S.inst], ["seq", [["while", None, [["wait"]]]], 0]]
        # behaviours of the new agents start now: preconditions and invariants
        for a in new_agents:
            self.check_guards(a.inst, True)
        if parent is not None:
            parent.children.append(S)
        return S

    _pending_reqlike = ()

    def stop_scenario(self, S):
        if not S.running:
            return
        S.running = False
        if S.dyn and S.finals:
            self.stopped_with_finals = True
        for c in list(S.children):
            self.stop_scenario(c)
        S.children = []
        S.block = None
        if S.parent is not None and S in S.parent.children:
            S.parent.children.remove(S)
        if S.is_top:
            self.top_done = True

    def step_scenario(self, S):
        """Steps 1b-1e for one scenario.  Returns "running" | "stopped" | ENDSIM."""
        if self.defects.get("sub_reqlike"):
            # defect model: `terminate [simulation] when` / `record*` executed in the setup of
            # a scenario instantiated while the simulation runs are registered as temporal
            # requirements: evaluated at the start of every step of the scenario, the value at
            # its first step decides (false -> rejection), and they have no other effect
            for S2, s in self._pending_reqlike:
                if S2 is S:
                    if s[0] in ("term_when", "term_sim_when"):
                        if S.elapsed == 0 and not self.atom(s[1]):
                            raise Reject("require")
                    else:
                        self.log.append(("rec", self.t, s[1]))
        hit = S.limit is not None and S.elapsed >= S.limit
        if S.limit is not None and S.t0 is not None:
            # a scenario that was suspended (its `do` pre-empted by an interrupt handler) has
            # executed fewer steps than have passed since it started: the reference does not
            # say which of the two `terminate after` counts
            hit2 = self.t - S.t0 >= S.limit
            if hit2 != hit and self.flag("limit_counts_suspended_time"):
                hit = hit2
        if S.t0 is None:
            S.t0 = self.t
        if hit:
            self.features.add("term-after-hit")
            self.stop_scenario(S)
            return "stopped"
        S.elapsed += 1
        early = self.flag("termwhen_before_compose") if S.term_when else False
        if early and any(self.atom(c) for c in S.term_when):
            self.features.add("term-when-hit")
            self.stop_scenario(S)
            return "stopped"
        if S.block is not None:
            r = self.run_block(S.block, S.inst, "comp")
            if r[0] == "done":
                self.features.add("compose-finished")
                self.stop_scenario(S)
                return "stopped"
            if r[1] == ENDSCEN:
                self.features.add("compose-terminate")
                self.stop_scenario(S)
                return "stopped"
            if r[1] == ENDSIM:
                self.features.add("compose-terminate-sim")
                self.stop_scenario(S)
                return ENDSIM
        if not early and any(self.atom(c) for c in S.term_when):
            self.features.add("term-when-hit")
            self.stop_scenario(S)
            return "stopped"
        return "running"

    def running_scenarios(self, S=None):
        S = S or self.top
        if not S.running:
            return []
        out = [S]
        for c in S.children:
            out.extend(self.running_scenarios(c))
        return out

    # -- the block interpreter ------------------------------------------------------------------
    def unwind(self, block, what):
        """Python's meaning of break/continue/return inside `block`.  Returns None if handled
        inside this block, else the conclusion to hand to the owner of the block."""
        while block:
            f = block[-1]
            k = f[0]
            if k in ("for", "while") and what in (BREAK, CONTINUE):
                if what == BREAK:
                    block.pop()
                return None
            if k == "call":
                if what == RETURN:
                    block.pop()
                    if block:
                        raise ModelError("call frame not at the bottom of its block")
                    return FIN
                raise ModelError(f"{what} outside loop")
            self.abandon_frame(f)
            block.pop()
        return what

    def abandon_frame(self, f):
        k = f[0]
        if k == "try":
            self.abandon_block(f[1])
            for h in f[2]:
                if h[2] is not None:
                    self.abandon_block(h[2])
                    h[2] = None
        elif k == "do":
            if f[2] is not None:
                self.abandon_block(f[2])
        elif k == "dosc":
            for S in (f[2] or ()):
                if S.running:
                    self.features.add("sub-scenario-abandoned")
                if self.defects.get("comp_zombie"):
                    # defect model: sub-scenarios under an abandoned block are not stopped;
                    # they are never stepped again but stay registered with their parent
                    # (monitors keep running) until its next `do` replaces the list
                    continue
                self.stop_scenario(S)

    def abandon_block(self, block):
        for f in block:
            self.abandon_frame(f)
        del block[:]

    def run_block(self, block, inst, ctx):
        """Run `block` (a continuation stack of instance `inst`) until it yields or concludes.
        Returns ("yield", payload) or ("done", conclusion)."""
        while True:
            self.tick()
            if not block:
                return ("done", FIN)
            f = block[-1]
            k = f[0]
            if k == "seq":
                if f[2] >= len(f[1]):
                    block.pop()
                    continue
                st = f[1][f[2]]
                f[2] += 1
                r = self.exec_stmt(st, block, inst, ctx)
                if r is not None:
                    return r
            elif k == "for":
                if f[1] > 0:
                    f[1] -= 1
                    block.append(["seq", f[2], 0])
                else:
                    block.pop()
            elif k == "while":
                if f[1] is None or self.atom(f[1]):
                    block.append(["seq", f[2], 0])
                else:
                    block.pop()
            elif k == "call":
                block.pop()
                if block:
                    raise ModelError("call frame not at the bottom of its block")
                return ("done", FIN)
            elif k == "resume":
                # the instance is resumed after an action / wait: its invariants are checked
                block.pop()
                self.check_guards(f[1], False)
            elif k == "waitc":
                # ["waitc", inst, spec, fresh]
                fresh = f[3]
                if not fresh:
                    self.check_guards(f[1], False)
                f[3] = False
                if self.spec_holds(f[2]):
                    block.pop()
                    # nothing was waited for: whether this counts as a resumption (invariant
                    # check) is not documented
                    if fresh and f[1].dfn.get("inv") and \
                            self.flag("limit_on_entry_checks_invoker"):
                        self.check_guards(f[1], False)
                else:
                    return ("yield", WAIT)
            elif k == "try":
                r = self.run_try(f, block, inst, ctx)
                if r is not None:
                    return r
            elif k == "do":
                r = self.run_do(f, block, inst, ctx)
                if r is not None:
                    return r
            elif k == "dosc":
                r = self.run_dosc(f, block, inst, ctx)
                if r is not None:
                    return r
            else:
                raise ModelError(k)

    def spec_holds(self, spec):
        if spec is None:
            return False
        if spec[0] == "until":
            return self.atom(spec[1])
        return self.t - spec[2] >= spec[1]  # ("for", nsteps, t0)

    def conclude(self, block, concl):
        """A nested block concluded with break/continue/return: apply it in `block`."""
        r = self.unwind(block, concl)
        if r is None:
            return None
        return ("done", r)

    def exec_stmt(self, st, block, inst, ctx):
        k = st[0]
        if k == "take":
            if ctx != "beh":
                raise ModelError("take outside behavior")
            block.append(["resume", inst])
            return ("yield", (st[1],))
        if k == "wait":
            block.append(["resume", inst])
            return ("yield", WAIT)
        if k == "wait_for":
            block.append(["waitc", inst, ("for", self.steps_of(st[1], st[2]), self.t), True])
            self.features.add("wait-for")
            return None
        if k == "wait_until":
            block.append(["waitc", inst, ("until", st[1]), True])
            self.features.add("wait-until")
            return None
        if k in ("do", "do_for", "do_until"):
            spec = None
            if k == "do_for":
                spec = ("for", self.steps_of(st[2], st[3]), self.t)
            elif k == "do_until":
                spec = ("until", st[2])
            if ctx == "comp":
                block.append(["dosc", spec, None, st[1], False])
            else:
                if len(st[1]) != 1:
                    raise ModelError("parallel do in behavior")
                block.append(["do", spec, None, st[1][0], False])
            return None
        if k == "terminate":
            block.append(["resume", inst])
            return ("yield", ENDSCEN)
        if k == "terminate_sim":
            if ctx == "comp":
                mine = self.running_scenarios(inst.scen)
                if not self.lenient and any(
                        not m.finished for S in self.running_scenarios() if S not in mine
                        for m in S.monitors):
                    raise Unjudged("terminate simulation in a sub-scenario whose ancestors "
                                   "have monitors")
            block.append(["resume", inst])
            return ("yield", ENDSIM)
        if k == "log":
            self.log.append(("log", self.t, st[1]))
            return None
        if k == "require":
            if not self.atom(st[1]):
                self.features.add("require-failed")
                raise Reject("require")
            return None
        if k == "pass":
            return None
        if k == "if":
            block.append(["seq", st[2] if self.atom(st[1]) else st[3], 0])
            return None
        if k == "for":
            block.append(["for", st[1], st[2]])
            return None
        if k == "while":
            block.append(["while", st[1], st[2]])
            return None
        if k == "try":
            block.append(["try", [["seq", st[1], 0]],
                          [[c, b, None] for c, b in st[2]], False, id(st)])
            return None
        if k == "abort":
            self.features.add("abort")
            return ("done", ABORT)
        if k in ("break", "continue", "return"):
            what = {"break": BREAK, "continue": CONTINUE, "return": RETURN}[k]
            return self.conclude(block, what)
        raise ModelError(k)

    def run_try(self, f, block, inst, ctx):
        """One arrival at a try-interrupt frame: f = ["try", body, handlers, pending, key]."""
        body, handlers = f[1], f[2]
        if f[3]:
            # defect model ti_inv: after every yield out of a try-interrupt statement the
            # invariants of the behaviour containing the statement are checked
            f[3] = False
            if self.defects.get("ti_inv"):
                self.check_guards(inst, False)
        chosen = None
        # later clauses take precedence over earlier ones; a handler in progress counts as
        # enabled; conditions are those of the current time step
        for i in range(len(handlers) - 1, -1, -1):
            h = handlers[i]
            if h[2] is not None or self.atom(h[0]):
                chosen = i
                break
        if chosen is None:
            blk = body
        else:
            h = handlers[chosen]
            if h[2] is None:
                h[2] = [["seq", h[1], 0]]
                self.features.add("handler-entered")
                if any(x[2] is not None for j, x in enumerate(handlers) if j < chosen):
                    self.features.add("handler-preempted-by-handler")
            blk = h[2]
        r = self.run_block(blk, inst, ctx)
        if r[0] == "yield":
            f[3] = True
            return r
        concl = r[1]
        if concl == FIN:
            if chosen is not None:
                handlers[chosen][2] = None
                self.features.add("handler-finished")
                return None  # conditions are examined again, in the same time step
            block.pop()
            return None
        # the whole statement terminates; whatever was suspended inside it is abandoned
        self.abandon_frame(f)
        block.pop()
        if concl == ABORT:
            return None
        self.features.add("ctl-in-try:" + concl)
        if (self.defects.get("ti_return2") and concl == RETURN and block
                and block[0][0] != "call"):
            # defect model: a `return` that has to cross a second try-interrupt statement only
            # terminates that enclosing statement
            self.abandon_block(block)
            return ("done", ABORT)
        if self.defects.get("ti_flags") and concl in (BREAK, CONTINUE):
            ok = self.ti_flags.get(f[4], (True, True))
            if not ok[0 if concl == BREAK else 1]:
                return None  # defect model: the conclusion is lost, execution falls through
        return self.conclude(block, concl)

    def run_do(self, f, block, inst, ctx):
        """`do Sub() [for/until]` in a behaviour or monitor:
        f = ["do", spec, subblock, name, pending]."""
        spec = f[1]
        if f[4]:
            f[4] = False
            if self.defects.get("ti_inv") and spec is not None:
                self.check_guards(inst, False)
        first = f[2] is None
        if first and spec is not None and self.spec_holds(spec):
            if spec[0] == "until" and self.flag("until_starts_first"):
                self.check_guards(Inst(self.behs[f[3]], "beh", inst.scen), True)
            block.pop()
            # no sub-behaviour ran: whether the invoker counts as "resumed after a
            # sub-behaviour terminates" (invariant check) is not documented
            if inst.dfn.get("inv") and self.flag("limit_on_entry_checks_invoker"):
                self.check_guards(inst, False)
            return None
        if first:
            sub = Inst(self.behs[f[3]], "beh", inst.scen)
            self.check_guards(sub, True)
            self.features.add("sub-behavior")
            f[2] = [["call", sub], ["seq", sub.dfn["body"], 0]]
            f.append(sub)
        elif spec is not None and self.spec_holds(spec):
            # the time/condition limit is reached: the sub-behaviour is terminated and the
            # invoker resumes (its invariants are checked)
            self.features.add("do-limit-hit")
            self.abandon_block(f[2])
            block.pop()
            self.check_guards(inst, False)
            return None
        sub = f[5]
        r = self.run_block(f[2], sub, ctx)
        if r[0] == "yield":
            f[4] = True
            return r
        if r[1] != FIN:
            raise ModelError(f"sub-behaviour concluded with {r[1]}")
        block.pop()
        self.check_guards(inst, False)  # the invoker resumes after the sub-behaviour
        return None

    def dosc_frames(self, S):
        """All `do` frames alive in the compose block of scenario S (also suspended ones)."""
        out = []

        def walk(block):
            for g in block or ():
                if g[0] == "dosc":
                    out.append(g)
                elif g[0] == "try":
                    walk(g[1])
                    for h in g[2]:
                        walk(h[2])

        walk(S.block)
        return out

    def run_dosc(self, f, block, inst, ctx):
        """`do S1(), S2() [for/until]` in a compose block:
        f = ["dosc", spec, subs, names, pending]."""
        spec = f[1]
        first = f[2] is None
        S = inst.scen
        if first and spec is not None and self.spec_holds(spec):
            if spec[0] == "until" and self.flag("until_starts_first"):
                for n in f[3]:
                    self.stop_scenario(self.start_scenario(self.scens[n], S))
            block.pop()
            if inst.dfn.get("inv") and self.flag("limit_on_entry_checks_invoker"):
                self.check_guards(inst, False)
            return None
        # defect model comp_onelist: the implementation keeps ONE list of running sub-scenarios
        # per scenario, replaced by every `do`; a `do` suspended under a pre-empted block then
        # steps / waits for whatever that list holds when it is resumed
        one = self.defects.get("comp_onelist")
        if first:
            if one:
                S.children = []
            f[2] = [self.start_scenario(self.scens[n], S) for n in f[3]]
            self.features.add("sub-scenario")
            if len(f[3]) > 1:
                self.features.add("parallel-do")
            if any(g is not f and g[0] == "dosc" and g[2] for g in self.dosc_frames(S)):
                self.features.add("do-while-another-do-suspended")
        else:
            gone = any(x.by_mon and not x.running for x in f[2])  # (classification only)
            if one:
                S.children = [x for x in S.children if x.running]
            else:
                f[2] = [x for x in f[2] if x.running]
            if gone:
                self.features.add("mon-terminate-sub:sibling-continues" if f[2]
                                  else "mon-terminate-sub:parent-resumes")
            if spec is not None and self.spec_holds(spec):
                self.features.add("do-limit-hit")
                for x in f[2]:
                    if x.running:
                        self.stop_scenario(x)
                block.pop()
                if self.flag("comp_inv_after_sub") if inst.dfn.get("inv") else False:
                    self.check_guards(inst, False)
                return None
        lst = list(S.children) if one else f[2]
        still = []
        for x in lst:
            r = self.step_scenario(x)
            if r == ENDSIM:
                if len(lst) > 1 and not self.lenient:
                    raise Unjudged("terminate simulation under a parallel do")
                return ("yield", ENDSIM)
            if r == "running":
                still.append(x)
        if one:
            S.children = still
        else:
            f[2] = still
        if still:
            return ("yield", WAIT)
        block.pop()
        if self.flag("comp_inv_after_sub") if inst.dfn.get("inv") else False:
            self.check_guards(inst, False)
        return None

    # -- the step loop (docs/reference/dynamic_scenarios.rst) ------------------------------------
    def run(self):
        status, classes = "done", None
        try:
            try:
                self._pending_reqlike = []
                self.top = self.start_scenario(self.prog["scenarios"][0], None)
                self.loop()
            except EndNow as e:
                self.end_types = e.types
            # step 10: record final
            if self.stopped_with_finals:
                raise Unjudged("record final in a sub-scenario that ended before the simulation")
            recs = []
            for S in self.all_scens_for_records():
                for tag in S.finals:
                    recs.append(("rec", self.t, tag))
                    self.records[tag] = f"{tag}@{self.t}"
            self.log.extend(sorted(recs))
        except Reject as e:
            status = "rejected" if e.kind == "require" else "guard"
            classes = e.classes
        self.log.append(("destroy", self.t))
        return {"status": status, "classes": classes, "log": self.log, "time": self.t,
                "types": self.end_types, "actions": self.actions, "records": self.records,
                "objects": list(self.objects), "consulted": set(self.consulted),
                "features": set(self.features)}

    def all_scens_for_records(self):
        # records of the top-level scenario are saved at every step, also the last one
        out = [self.top]
        for S in self.running_scenarios():
            if S is not self.top:
                out.append(S)
        return out

    def loop(self):
        deferred_end = None
        while True:
            self.ticks = 0
            t = self.t
            # 1. scenarios
            end_types = None
            if self.top.running:
                r = self.step_scenario(self.top)
                if r == ENDSIM or self.top_done:
                    end_types = {"scenarioComplete"} if r != ENDSIM else None
                    if r == ENDSIM:
                        end_types = "any"
                        self.top_done = True
            if deferred_end is not None:
                end_types = deferred_end
            # 2. records
            recs = []
            for S in self.all_scens_for_records():
                if t == 0:
                    for tag in S.initials:
                        recs.append(("rec", t, tag))
                        self.records[tag] = f"{tag}@{t}"
                for tag in S.records:
                    recs.append(("rec", t, tag))
                    self.records.setdefault(tag, []).append([t, f"{tag}@{t}"])
            self.log.extend(sorted(recs))
            # 3. monitors
            mon_types = self.run_monitors()
            if mon_types is not None:
                end_types = mon_types if end_types is None else \
                    ("any" if "any" in (mon_types, end_types) else set(end_types) | set(mon_types))
            # 4. termination checks
            cands = set()
            if end_types is not None or self.top_done:
                if end_types == "any":
                    raise EndNow(None)
                cands |= set(end_types or {"scenarioComplete"})
            if any(self.atom(c) for S in self.running_scenarios() for c in S.term_sim_when):
                self.features.add("term-sim-when-hit")
                cands.add("simulationTerminationCondition")
            if self.maxSteps and t >= self.maxSteps:
                cands.add("timeLimit")
            if cands:
                raise EndNow(cands)
            # 5. behaviours, in schedule order
            order = self.schedule_order()
            if self.defects.get("sched_consumed"):
                order = []  # defect model: a one-shot schedule is used up by its validation
            acts = []
            for a in order:
                self.ticks = 0
                if a.finished:
                    acts.append([a.name, []])
                    continue
                r = self.run_block(a.block, a.inst, "beh")
                if r[0] == "done":
                    a.finished = True
                    self.features.add("behavior-finished")
                    acts.append([a.name, []])
                    continue
                p = r[1]
                if p == ENDSIM:
                    self.features.add("beh-terminate-sim")
                    raise EndNow({"terminatedByBehavior"})
                if p == ENDSCEN:
                    self.features.add("beh-terminate")
                    if not a.scen.running:
                        if self.lenient:
                            # (only when naming a failure by a defect model: the agent
                            # simply takes no action, as the implementation does)
                            acts.append([a.name, []])
                            continue
                        raise Unjudged("terminate by an agent whose scenario has ended")
                    top = a.scen.is_top
                    self.stop_scenario(a.scen)
                    if top:
                        if self.flag("beh_term_deferred"):
                            deferred_end = {"terminatedByBehavior", "scenarioComplete"}
                        else:
                            raise EndNow({"terminatedByBehavior", "scenarioComplete"})
                    acts.append([a.name, []])
                    continue
                acts.append([a.name, list(p)])
            # 6. actions
            self.actions.append(acts)
            self.log.append(("exec", t, [[n, list(ks)] for n, ks in acts]))
            for n, ks in acts:
                for k in ks:
                    self.log.append(("apply", t, n, k))
            # 7.-9. simulator step, clock, properties
            self.log.append(("step", t))
            self.t += 1
            self.log.extend(sorted(("get", self.t, n) for n in self.objects))

    def schedule_order(self):
        if not self.schedule:
            return list(self.agents)
        order = self.schedule[self.t % len(self.schedule)]
        rank = {n: i for i, n in enumerate(order)}
        big = len(rank)
        return sorted(self.agents, key=lambda a: (rank.get(a.name, big), a.idx))

    def run_monitors(self):
        """Step 3.  Returns None or the set of termination types a monitor caused."""
        types = None
        scens = self.running_scenarios()
        mons = [m for S in scens for m in S.monitors]
        groups = []
        stopped = []
        for m in mons:
            if m.finished:
                continue
            self.ticks = 0
            start = len(self.log)
            r = self.run_block(m.block, m.inst, "mon")
            groups.append((m.uid, self.log[start:]))
            del self.log[start:]
            if r[0] == "done":
                m.finished = True
                continue
            p = r[1]
            if p == ENDSIM:
                self.features.add("mon-terminate-sim")
                if not m.scen.is_top:
                    self.features.add("mon-terminate-sim-sub")
                types = {"terminatedByMonitor"} if types is None else types | {"terminatedByMonitor"}
                self.top_done = True
            elif p == ENDSCEN:
                self.features.add("mon-terminate")
                S = m.scen
                others = [x for T_ in self.running_scenarios(S) for x in T_.monitors
                          if x is not m and not x.finished]
                if others and not self.lenient:
                    # whether the other monitors of the stopped scenarios still run in this
                    # step is not documented (when only naming a failure by a defect model:
                    # they do, as in the implementation)
                    raise Unjudged("monitor terminate with sibling monitors")
                stopped.append(S)
                if not S.is_top:
                    S.by_mon = True
                    self.features.add("mon-terminate-sub")
                    if not S.parent.is_top:
                        self.features.add("mon-terminate-sub:depth2")
                    if any(x is not S for x in S.parent.children):
                        self.features.add("mon-terminate-sub:under-parallel-do")
                if S.is_top:
                    t2 = {"terminatedByMonitor", "scenarioComplete"}
                    types = t2 if types is None else types | t2
                elif self.defects.get("mon_term_sub"):
                    # defect model: `terminate` executed by a monitor of a sub-scenario ends
                    # the whole simulation
                    t2 = {"terminatedByMonitor"}
                    types = t2 if types is None else types | t2
        for S in stopped:
            self.stop_scenario(S)
        # the order in which monitors run is not documented: canon_log() sorts the run of
        # monitor events of a step (LOG tags starting with "m" are reserved for monitors)
        for _, evs in groups:
            self.log.extend(evs)
        return types


# ---------------------------------------------------------------------------------------------
# Canonical form of an observed log (orders the reference leaves open)
# ---------------------------------------------------------------------------------------------

def canon_log(log, n_initial):
    """Canonicalise a log: strip the set-up prefix (creation and first read-back of the initial
    objects, not described by the reference) and sort every run of consecutive `get` events, of
    `rec` events and of monitor LOG events (tags starting with "m"): the reference does not
    fix the order of objects in step 9, of record statements in step 2, of monitors in step 3.
    Returns (events, prefix_ok)."""
    log = [tuple(e) for e in log]
    pre = log[: 2 * n_initial]
    ok = (len(pre) == 2 * n_initial
          and all(e[0] == "create" for e in pre[:n_initial])
          and all(e[0] == "get" for e in pre[n_initial:])
          and sorted(e[2] for e in pre[:n_initial]) == sorted(e[2] for e in pre[n_initial:]))
    rest = log[2 * n_initial:]
    out = []
    i = 0

    def kind(e):
        if e[0] == "log":
            return "mlog" if str(e[2]).startswith("m") else None
        return e[0] if e[0] in ("get", "rec") else None

    while i < len(rest):
        k = kind(rest[i])
        if k is not None:
            j = i
            while j < len(rest) and kind(rest[j]) == k:
                j += 1
            out.extend(sorted(rest[i:j]))
            i = j
        else:
            out.append(rest[i])
            i += 1
    return [tolist(e) for e in out], ok


def tolist(x):
    if isinstance(x, (list, tuple)):
        return [tolist(v) for v in x]
    return x


# ---------------------------------------------------------------------------------------------
# Static analysis used by the `ti_flags` defect model
# ---------------------------------------------------------------------------------------------

def compiler_flag_flow(prog):
    """Model of the known C13 defect: ScenicToPythonTransformer.usedBreak/usedContinue are one
    pair of attributes for the whole compilation; every try-interrupt statement clears them
    when its translation starts and never restores them, so a nested statement clobbers what
    the enclosing one has seen so far and leaks what it has seen itself.

    Walks the program in the compiler's visiting order (try block, then the handlers in
    clause order; statements in source order) and returns (flags, compile_error, two_level):
    flags[id(stmt)] = (break_honoured, continue_honoured) for every try-interrupt statement,
    compile_error = some statement gets a `break`/`continue` test appended at a place that is
    not inside a loop of the enclosing Python function, two_level = a break/continue has to
    cross two try-interrupt statements to reach its loop."""
    flags = {}
    state = {"b": False, "c": False}
    res = {"err": False, "two": False}

    def visit(stmts, in_block, in_loop):
        for x in stmts:
            k = x[0]
            if k == "break":
                if in_block and not in_loop:
                    state["b"] = True
            elif k == "continue":
                if in_block and not in_loop:
                    state["c"] = True
            elif k == "if":
                visit(x[2], in_block, in_loop)
                visit(x[3], in_block, in_loop)
            elif k in ("for", "while"):
                visit(x[2], in_block, True)
            elif k == "try":
                state["b"] = state["c"] = False
                visit(x[1], True, False)
                for _, body in x[2]:
                    visit(body, True, False)
                fb, fc = state["b"], state["c"]
                flags[id(x)] = (fb, fc)
                if (fb or fc) and not in_loop:
                    res["err"] = True

    def top(stmts):
        state["b"] = state["c"] = False
        visit(stmts, False, False)
        if _two_level(stmts):
            res["two"] = True

    def _two_level(stmts, depth=0, in_loop=False):
        for x in stmts:
            k = x[0]
            if k in ("break", "continue") and not in_loop and depth >= 2:
                return True
            if k == "if" and (_two_level(x[2], depth, in_loop) or _two_level(x[3], depth, in_loop)):
                return True
            if k in ("for", "while") and _two_level(x[2], 0, True):
                return True
            if k == "try":
                d = 1 if in_loop else depth + 1
                for part in [x[1]] + [h[1] for h in x[2]]:
                    if _two_level(part, d, False):
                        return True
        return False

    for b in prog["behaviors"]:
        top(b["body"])
    for m in prog["monitors"]:
        top(m["body"])
    for sc in prog["scenarios"]:
        if sc.get("compose"):
            top(sc["compose"])
    return flags, res["err"], res["two"]


# ---------------------------------------------------------------------------------------------
# Self check on hand-computed examples
# ---------------------------------------------------------------------------------------------

def selftest():
    def beh_prog(body, extra=()):
        return {"behaviors": [{"name": "B0", "pre": [], "inv": [], "body": body}] + list(extra),
                "monitors": [],
                "scenarios": [{"name": "Main", "pre": [], "inv": [], "compose": None,
                               "setup": [["obj", "a0", "B0"]]}],
                "toplevel": True}

    def acts(prog, table, n, **kw):
        m = Machine(prog, table, [], n, 1, **kw)
        r = m.run()
        return r["status"], [s[0][1] for s in r["actions"]], r

    # statements.rst / test_interrupt_interrupted: 2,4,3,1,1
    p = beh_prog([["try", [["while", None, [["take", 1]]]],
                  [["le1", [["take", 2], ["take", 3]]], ["eq1", [["take", 4]]]]]])
    tab = {"le1": [1, 1, 0, 0, 0, 0], "eq1": [0, 1, 0, 0, 0, 0]}
    st, a, _ = acts(p, tab, 5)
    if (st, a) != ("done", [[2], [4], [3], [1], [1]]):
        raise core.HarnessError(f"c12_model selftest 1: {st} {a}")
    # do Sub for 2 steps, then wait for 2, then take: Appendix A row 5
    sub = {"name": "B1", "pre": [], "inv": [], "body": [["while", None, [["take", 7]]]]}
    p = beh_prog([["take", 1], ["do_for", ["B1"], 2, "steps"], ["take", 2],
                  ["wait_for", 1, "seconds"], ["take", 3], ["do_until", ["B1"], "c"],
                  ["take", 4]], [sub])
    tab = {"c": [0, 0, 0, 0, 0, 0, 0, 1, 1, 1]}
    m = Machine(p, tab, [], 9, Fraction(1, 2))
    r = m.run()
    a = [s[0][1] for s in r["actions"]]
    if a != [[1], [7], [7], [2], [], [], [3], [4], []] or r["types"] != {"timeLimit"} \
            or r["time"] != 9:
        raise core.HarnessError(f"c12_model selftest 2: {a} {r['types']}")
    # break inside a handler leaves the enclosing loop (test_interrupt_break)
    p = beh_prog([["while", None, [["try", [["for", 3, [["take", 1]]]],
                                    [["eq2", [["take", 2], ["break"], ["take", 3]]]]]]]])
    st, a, _ = acts(p, {"eq2": [0, 0, 1, 0, 0]}, 4)
    if a != [[1], [1], [2], []]:
        raise core.HarnessError(f"c12_model selftest 3: {a}")
    # invariant: checked after each own action, not while the sub-behaviour runs
    p = beh_prog([["do", ["B1"]], ["take", 9]],
                 [{"name": "B1", "pre": [], "inv": [], "body": [["take", 1], ["take", 2]]}])
    p["behaviors"][0]["inv"] = ["i"]
    st, a, _ = acts(p, {"i": [1, 0, 1, 1, 1]}, 4)
    if (st, a) != ("done", [[1], [2], [9], []]):
        raise core.HarnessError(f"c12_model selftest 4: {st} {a}")
    st, a, r = acts(p, {"i": [1, 1, 0, 1, 1]}, 4)
    if st != "guard" or r["classes"] != {"InvariantViolation"} or r["time"] != 2:
        raise core.HarnessError(f"c12_model selftest 5: {st} {a}")
    # dynamic_scenarios.rst step 3: `terminate` in a monitor stops the scenario which instantiated
    # it; only `terminate simulation` sets the termination flag.  Main: do Sub; wait; wait.  Sub's
    # monitor waits twice, then terminates at step 2: step 2 runs completely, Main resumes at
    # step 3, waits during steps 3 and 4 and finishes at step 5 (5 action entries).
    def scope_prog(what):
        return {"behaviors": [{"name": "B0", "pre": [], "inv": [],
                               "body": [["while", None, [["take", 1]]]]}],
                "monitors": [{"name": "M0", "body": [["wait"], ["wait"], [what]]}],
                "scenarios": [{"name": "Main", "pre": [], "inv": [],
                               "setup": [["obj", "a0", "B0"]],
                               "compose": [["do", ["S1"]], ["log", "resumed"], ["wait"], ["wait"]]},
                              {"name": "S1", "pre": [], "inv": [], "setup": [["monitor", "M0"]],
                               "compose": [["while", None, [["log", "sub"], ["wait"]]]]}],
                "toplevel": False}

    st, a, r = acts(scope_prog("terminate"), {}, 10)
    logs = [(e[1], e[2]) for e in r["log"] if e[0] == "log"]
    if (r["time"], r["types"], len(a)) != (5, {"scenarioComplete"}, 5) or \
            logs != [(0, "sub"), (1, "sub"), (2, "sub"), (3, "resumed")] or \
            "mon-terminate-sub:parent-resumes" not in r["features"]:
        raise core.HarnessError(f"c12_model selftest 7: {r['time']} {r['types']} {logs}")
    # ... whereas `terminate simulation` there ends the simulation in step 4 of time step 2
    st, a, r = acts(scope_prog("terminate_sim"), {}, 10)
    if (r["time"], r["types"], len(a)) != (2, {"terminatedByMonitor"}, 2):
        raise core.HarnessError(f"c12_model selftest 8: {r['time']} {r['types']}")
    # terminate after 2 steps at the top level: scenarioComplete at time 2, 2 action entries
    p = beh_prog([["while", None, [["take", 1]]]])
    p["scenarios"][0]["setup"].append(["term_after", 2, "steps"])
    st, a, r = acts(p, {}, 5)
    if r["time"] != 2 or r["types"] != {"scenarioComplete"} or len(a) != 2:
        raise core.HarnessError(f"c12_model selftest 6: {r['time']} {r['types']}")
