"""Fresh-process control for C14 oracle (iv): `python -m vf.c14_fresh` reads a JSON job
{"prog", "scene_seed", "run_seed"} on stdin, compiles the program, samples the scene and runs the
fault-free simulation in this brand-new interpreter, and prints {"digest": sha1 of the canonical
result, "scene": sha1 of the canonical scene}."""

import hashlib
import json
import os
import sys


def main():
    job = json.load(sys.stdin)
    src = os.path.join(os.environ.get("VERIF_REPO", "/repo"), "src")
    if src not in sys.path[:1]:
        sys.path.insert(0, src)
    import scenic.core.dynamics as dynamics

    dynamics.stuckBehaviorWarningTimeout = 0
    from vf.props import c14

    d = c14.Driver()
    d.apply("compile", {"prog": job["prog"]})
    d.apply("generate", {"seed": job["scene_seed"]})
    ent = d.scenes[0]
    ctl = d._control(ent, job["run_seed"])
    out = {"scene": hashlib.sha1(repr(ent["snap"]).encode()).hexdigest(),
           "digest": hashlib.sha1(repr(ctl[0]).encode()).hexdigest() if ctl else None,
           "failures": [s for s, _ in d.out.failures]}
    sys.stdout.write(json.dumps(out))


if __name__ == "__main__":
    main()
