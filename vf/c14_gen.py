"""Program IR, emitter, strategy and the override reference model of the C14 check.

IR (plain JSON):
    {"mode2D": bool,
     "objs": [{"beh": "Base" | None}, ...],            objs[0] is the ego
     "subs": [{"ovr": [[obj, [[prop, value], ...]], ...],   one entry per `override` statement
               "life": n,                              terminate after n steps
               "compose": None | [["wait"] | ["do", [j, ...]]],   j > own index (acyclic)
               "fsetup": bool, "fcompose": bool}, ...],
     "main": [["wait"] | ["do", [k, ...]] | ["dofor", [k], n], ...],
     "pre": bool, "inv": bool, "intr": bool, "mon": bool, "reqa": bool, "sreq": bool,
     "rec": bool, "term": n, "termsec": bool,      terminate after n steps | n seconds
     "cassign": [prop, ...]}                       properties the *simulator* increments by 10
                                                   when it creates an object (run-time value
                                                   differs from the scene's value)

Every program-level fault site is a call FAULT("<site>") of vf.c14_lib.
"""

from __future__ import annotations

from hypothesis import strategies as st

PROPS = ["foo", "bar", "baz"]
BASE = {"foo": 1, "bar": 2, "baz": 3}


def emit(prog):
    m2d = prog["mode2D"]
    n = len(prog["objs"])
    params = ", ".join(f"a{i}" for i in range(n))
    L = ["from vf.c14_lib import *",
         "g = Range(0, 1)",  # a global read by behaviors: re-bound to its sampled value per run
         "param gp = g",
         "class Foo(Object):",
         "    cnt[dynamic]: 0",
         "    kind[dynamic]: None",  # type only known once a simulator reports a value
         "    foo: 1",
         "    bar: 2",
         "    baz: 3",
         "behavior Base(v):"]
    if prog["pre"]:
        L.append('    precondition: FAULT("g_pre")')
    if prog["inv"]:
        L.append('    invariant: FAULT("g_inv")')
    if prog["intr"]:
        L += ["    try:",
              "        while True:",
              '            FAULT("beh")',
              "            take Act(v + g)",
              '    interrupt when FAULT("int") and simulation().currentTime % 3 == 2:',
              "        take Act(0 - v)"]
    else:
        L += ["    while True:",
              '        FAULT("beh")',
              "        take Act(v + g)"]
    for k, sub in enumerate(prog["subs"]):
        # one behavior class per overriding scenario: an observed behavior names its origin
        if any(p == "behavior" for _, specs in sub["ovr"] for p, _ in specs):
            L += [f"behavior Alt{k}():",
                  "    while True:",
                  '        FAULT("beh2")',
                  "        take Act(Range(4, 5))"]
    if prog["mon"]:
        L += ["monitor Mon():",
              "    while True:",
              '        FAULT("mon")',
              "        wait"]
    for k, sub in enumerate(prog["subs"]):
        L.append(f"scenario Sub{k}({params}):")
        L.append("    setup:")
        if sub["fsetup"]:
            L.append(f'        FAULT("setup{k}")')
        for obj, specs in sub["ovr"]:
            sp = ", ".join(f"with behavior Alt{k}()" if p == "behavior" else f"with {p} {v}"
                           for p, v in specs)
            # object 0 has random properties: only `ego` names its sampled version at run time
            L.append(f"        override {'ego' if obj == 0 else f'a{obj}'} {sp}")
        L.append(f"        terminate after {sub['life']} steps")
        if sub["compose"] is not None:
            L.append("    compose:")
            if sub["fcompose"]:
                L.append(f'        FAULT("compose{k}")')
            for item in sub["compose"]:
                if item[0] == "wait":
                    L.append("        wait")
                else:
                    L.append("        do " + ", ".join(f"Sub{j}({params})" for j in item[1]))
            L.append("        wait")
    L.append("scenario Main():")
    L.append("    setup:")
    for i, o in enumerate(prog["objs"]):
        x = "Range(0, 1)" if i == 0 else str(10 * i)
        pos = f"({x}, 0)" if m2d else f"({x}, 0, 0)"
        beh = f", with behavior Base({i + 1})" if o["beh"] else ""
        L.append(f"        a{i} = new Foo at {pos}{beh}, with requireVisible False, "
                 f"with allowCollisions True")
    L.append("        ego = a0")
    if prog["mon"]:
        L.append("        require monitor Mon()")
    if prog["reqa"]:
        L.append('        require always FAULT("req")')
    if prog["sreq"]:
        L.append('        require FAULT("sreq")')
    if prog["rec"]:
        L.append('        record FAULT("rec") as r0')
    L.append("        record a0.foo as f0")
    unit = "seconds" if prog.get("termsec") else "steps"
    L.append(f"        terminate after {prog['term']} {unit}")
    L.append("    compose:")
    L.append('        FAULT("compose")')
    for item in prog["main"]:
        if item[0] == "wait":
            L.append("        wait")
        elif item[0] == "do":
            L.append("        do " + ", ".join(f"Sub{k}({params})" for k in item[1]))
        else:
            L.append("        do " + ", ".join(f"Sub{k}({params})" for k in item[1])
                     + f" for {item[2]} steps")
    L.append("        wait")
    L.append("        wait")
    return "\n".join(L) + "\n"


def closure(prog, k, seen=None):
    """Indices of the sub-scenarios that Sub k may run (itself and descendants)."""
    seen = set() if seen is None else seen
    if k in seen:
        return seen
    seen.add(k)
    comp = prog["subs"][k]["compose"] or []
    for item in comp:
        if item[0] == "do":
            for j in item[1]:
                closure(prog, j, seen)
    return seen


def targets(prog, k):
    """(obj, prop) pairs overridden by Sub k or its descendants."""
    out = set()
    for j in closure(prog, k):
        for obj, specs in prog["subs"][j]["ovr"]:
            for p, _ in specs:
                out.add((obj, p))
    return out


def expected_value(prog, running, obj, prop):
    """Reference for oracle (v): the value user code must read for `prop` of object `obj` while
    the scenarios `running` (class names, oldest first) are running -- the value given by the
    most recently started running scenario that overrides it (last such statement of that
    scenario), else the value the object was created with.  Returns (value, owner | None)."""
    val, owner = (("Base" if prog["objs"][obj]["beh"] else None) if prop == "behavior"
                  else BASE[prop] + (10 if prop in prog.get("cassign", ()) else 0)), None
    for name in running:
        if not name.startswith("Sub"):
            continue
        k = int(name[3:])
        for o, specs in prog["subs"][k]["ovr"]:
            if o != obj:
                continue
            for p, v in specs:
                if p == prop:
                    val, owner = (f"Alt{k}" if p == "behavior" else v), k
    return val, owner


def statement_rank(prog, k, obj, prop):
    """0 if the first `override` statement of Sub k naming `obj` sets `prop`, else the index
    (among Sub k's statements on that object) of the first statement that does."""
    r = 0
    for o, specs in prog["subs"][k]["ovr"]:
        if o != obj:
            continue
        if any(p == prop for p, _ in specs):
            return r
        r += 1
    return None


@st.composite
def programs(draw):
    nobj = draw(st.sampled_from([1, 2, 2, 3]))
    objs = [{"beh": "Base"}] + [{"beh": draw(st.sampled_from(["Base", None]))}
                                for _ in range(nobj - 1)]
    nsub = draw(st.integers(1, 3))
    subs = []
    for k in range(nsub):
        nst = draw(st.integers(1, 3))
        ovr = []
        for s in range(nst):
            obj = draw(st.integers(0, nobj - 1))
            nsp = draw(st.sampled_from([1, 1, 2]))
            props = draw(st.lists(st.sampled_from(PROPS + ["behavior"]), min_size=nsp,
                                  max_size=nsp, unique=True))
            ovr.append([obj, [[p, 100 * (k + 1) + 10 * s + j] for j, p in enumerate(props)]])
        subs.append({"ovr": ovr, "life": draw(st.integers(1, 3)), "compose": None,
                     "fsetup": draw(st.booleans()), "fcompose": draw(st.booleans())})
    prog = {"mode2D": draw(st.sampled_from([False, False, True])), "objs": objs, "subs": subs}
    # nesting: Sub k may run Sub j (j > k)
    for k in range(nsub - 1):
        if draw(st.booleans()):
            items = []
            for _ in range(draw(st.integers(1, 2))):
                if draw(st.integers(0, 2)) == 0:
                    items.append(["wait"])
                else:
                    items.append(["do", [draw(st.integers(k + 1, nsub - 1))]])
            subs[k]["compose"] = items
    if subs[-1]["compose"] is None and draw(st.integers(0, 3)) == 0:
        subs[-1]["compose"] = [["wait"]]

    def pick_parallel():
        a = draw(st.integers(0, nsub - 1))
        b = draw(st.integers(0, nsub - 1))
        if a != b and not (closure(prog, a) & closure(prog, b)) \
                and not (targets(prog, a) & targets(prog, b)):
            return [a, b]
        return [a]

    main = []
    for _ in range(draw(st.integers(2, 4))):
        kind = draw(st.sampled_from(["wait", "do", "do", "do", "dofor"]))
        if kind == "wait":
            main.append(["wait"])
        elif kind == "do":
            main.append(["do", pick_parallel()])
        else:
            main.append(["dofor", [draw(st.integers(0, nsub - 1))], draw(st.integers(1, 2))])
    if not any(m[0] != "wait" for m in main):
        main.append(["do", [0]])
    prog["main"] = main
    for flag in ("pre", "inv", "intr", "mon", "reqa", "sreq", "rec"):
        prog[flag] = draw(st.booleans())
    prog["termsec"] = draw(st.booleans())
    prog["term"] = draw(st.integers(2, 4)) if prog["termsec"] else draw(st.integers(4, 9))
    prog["cassign"] = draw(st.lists(st.sampled_from(PROPS), max_size=2, unique=True))
    return prog
