"""Python helpers importable from generated C14 programs (`from vf.c14_lib import *`).

`FAULT(site)` marks a fault-injection point inside the program (requirement, setup / compose
block, behavior, monitor, guard, interrupt condition, record expression); the harness simulator
reports its own sites (create, step, getProperties, applyTo) to the same plan.  The plan either
only counts hits (dry run / control run) or additionally raises one exception at the k-th hit of
exactly one site.
"""

from scenic.core.dynamics.actions import Action

__all__ = ["FAULT", "Act"]

EXCEPTIONS = ["RuntimeError", "RejectionException", "RejectSimulationException",
              "GuardViolation"]


class InjectedError(RuntimeError):
    """The 'user RuntimeError' raised by an armed fault site."""


def make_exception(name):
    if name == "RuntimeError":
        return InjectedError("injected fault")
    if name == "RejectionException":
        from scenic.core.distributions import RejectionException

        return RejectionException("injected fault")
    if name == "RejectSimulationException":
        from scenic.core.simulators import RejectSimulationException

        return RejectSimulationException("injected fault")
    if name == "GuardViolation":
        from scenic.core.dynamics.guards import PreconditionViolation

        class Injected:  # stands for the behavior whose guard is "violated"
            pass

        return PreconditionViolation(Injected(), 0)
    raise ValueError(name)


class Plan:
    def __init__(self):
        self.reset()

    def reset(self, armed=None):
        self.counts = {}
        self.armed = armed  # None | (site, k, exception name)
        self.fired = None  # context of the firing, if it happened
        self.enabled = True

    def hit(self, site):
        if not self.enabled:
            return
        n = self.counts.get(site, 0) + 1
        self.counts[site] = n
        a = self.armed
        if a is not None and self.fired is None and a[0] == site and a[1] == n:
            import scenic.syntax.veneer as veneer

            sim = veneer.currentSimulation
            self.fired = {
                "site": site, "k": n, "exc": a[2],
                "time": getattr(sim, "currentTime", None),
                "running": [type(s).__name__ for s in veneer.runningScenarios],
            }
            raise make_exception(a[2])


PLAN = Plan()


def FAULT(site):
    """Always true; counts a hit of `site` and raises when the plan arms this hit."""
    PLAN.hit(site)
    return True


class Act(Action):
    """Action understood by vf.c18_sim.HSimulator: sets the agent's velocity to (v, 0, 0)."""

    def __init__(self, v):
        self.v = float(v)

    def applyTo(self, agent, sim):
        from scenic.core.vectors import Vector

        sim.state[sim._index(agent)]["velocity"] = Vector(self.v, 0.0, 0.0)
