"""Child interpreter of the C15 check: compiles, samples and simulates a batch of programs and
prints one canonical digest record per program.  Run as
    python -m vf.c15_child <batch.json> <out.json> <variant-json>
The parent compares the records of several children that differ only in PYTHONHASHSEED, heap
layout (junk allocated before importing scenic), import order of unrelated modules and the
timing sequence seen by the requirement checker."""

import json
import os
import sys


def main():
    batch_path, out_path, variant = sys.argv[1], sys.argv[2], json.loads(sys.argv[3])
    # --- perturb the process before scenic is imported ----------------------------------------
    junk = []
    n = variant.get("junk", 0)
    for i in range(n):
        junk.append((object(), [i] * (i % 7), {"k%d" % i: i}))
    if n % 2:
        del junk[::3]
    for modname in variant.get("preimport", []):
        try:
            __import__(modname)
        except Exception:
            pass
    repo = os.environ.get("VERIF_REPO", "/repo")
    sys.path.insert(0, os.path.join(repo, "src"))

    import random

    import numpy

    jit = random.Random(variant.get("jitter", 0))  # private generator, never the global one

    import scenic
    import scenic.core.sample_checking as sc
    from scenic.core.distributions import RejectionException
    from scenic.core.simulators import DummySimulator

    class FakeTime:
        """perf_counter with generated increments, so requirement re-ordering differs per child."""

        def __init__(self):
            self.t = 0.0

        def perf_counter(self):
            self.t += jit.choice([1e-6, 1e-4, 1e-2, 1.0]) * jit.random()
            return self.t

    if variant.get("jitter") is not None:
        sc.time = FakeTime()

    def fx(v):
        if isinstance(v, bool) or v is None or isinstance(v, (int, str)):
            return v
        if isinstance(v, float):
            return v.hex()
        if isinstance(v, (tuple, list)):
            return [fx(x) for x in v]
        if isinstance(v, dict):
            return {str(k): fx(x) for k, x in sorted(v.items(), key=lambda kv: str(kv[0]))}
        if hasattr(v, "coordinates"):
            return [float(c).hex() for c in v.coordinates]
        if hasattr(v, "eulerAngles"):
            return [float(c).hex() for c in v.eulerAngles]
        if hasattr(v, "item") and getattr(v, "shape", None) == ():
            return fx(v.item())
        return type(v).__name__

    PROPS = ("position", "yaw", "pitch", "roll", "width", "length", "height", "foo", "bar")

    def scene_digest(scene):
        objs = []
        for o in scene.objects:
            objs.append({p: fx(getattr(o, p)) for p in PROPS if hasattr(o, p)})
        return {"params": fx(dict(scene.params)), "objects": objs}

    programs = json.load(open(batch_path))
    records = []
    for prog in programs:
        rec = {}
        try:
            random.seed(prog["seed"])
            numpy.random.seed(prog["seed"])
            scenario = scenic.scenarioFromString(prog["source"], mode2D=prog["mode2D"])
            scenes = []
            its = []
            scene = None
            try:
                for _ in range(prog["history"]):
                    scene, it = scenario.generate(maxIterations=prog["maxIterations"])
                    scenes.append(scene_digest(scene))
                    its.append(it)
            except RejectionException:
                scenes.append("REJECTED")
                scene = None
            rec["scenes"] = scenes
            rec["iterations"] = its
            rec["rng_py"] = random.random().hex()
            rec["rng_np"] = float(numpy.random.random()).hex()
            if prog.get("dynamic") and scene is not None:
                sim = DummySimulator().simulate(scene, maxSteps=prog["maxSteps"],
                                                maxIterations=3, verbosity=0)
                if sim is None:
                    rec["sim"] = "REJECTED"
                else:
                    res = sim.result
                    rec["sim"] = {
                        "actions": [[[fx(a) for a in acts] for _, acts in sorted(
                            ((str(scene.objects.index(ag)) if ag in scene.objects else "?", ac)
                             for ag, ac in step.items()))] for step in res.actions],
                        "records": fx({k: v for k, v in res.records.items()}),
                        "termination": str(res.terminationType),
                        "final": [fx(st.positions) if hasattr(st, "positions") else fx(st)
                                  for st in res.trajectory[-1:]],
                    }
                rec["rng_py_after_sim"] = random.random().hex()
        except Exception as e:  # the same exception must occur in every child
            rec["exception"] = f"{type(e).__name__}: {str(e)[:200]}"
        records.append(rec)
    with open(out_path, "w") as f:
        json.dump(records, f)


if __name__ == "__main__":
    sys.path.insert(0, os.path.dirname(os.path.dirname(os.path.abspath(__file__))))
    from vf.core import with_big_stack

    with_big_stack(main)
