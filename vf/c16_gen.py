"""Generator of region specs (plain JSON) and builder of the corresponding Scenic regions,
shared by C16 and C03.  The spec is the single source of truth: `vf.regoracle.from_spec`
builds the oracle shape from it, `build` builds the Scenic region from it.

Everything random comes from the `random.Random` handed in by the caller (seeded from
VERIF_SEED, the shard and the case index), so a case is a pure function of its JSON."""

from __future__ import annotations

import math

KINDS = ["Box", "Spheroid", "MeshVol", "MeshSurf", "Polygon", "Circle", "Sector", "Rectangle",
         "Polyline", "Path", "PointSet", "Grid", "Footprint"]

FAMILY = {"Box": "MeshVolume", "Spheroid": "MeshVolume", "MeshVol": "MeshVolume",
          "MeshSurf": "MeshSurface", "Polygon": "Polygonal", "Circle": "Polygonal",
          "Sector": "Polygonal", "Rectangle": "Polygonal", "Polyline": "Polyline",
          "Path": "Path", "PointSet": "PointSet", "Grid": "Grid", "Footprint": "Footprint",
          "Everywhere": "All", "Nowhere": "Empty"}

PLANAR = ("Polygon", "Circle", "Sector", "Rectangle")
LAZY_OK = ("Circle", "Sector", "Rectangle", "Box", "Spheroid")


def r3(x):
    return round(float(x), 3)


def star_polygon(rnd, cx, cy, R, nmin=4, nmax=9):
    n = rnd.randint(nmin, nmax)
    pts = []
    for i in range(n):
        a = 2 * math.pi * (i + 0.4 * rnd.random()) / n
        rad = R * rnd.uniform(0.5, 1.0)
        pts.append([r3(cx + rad * math.cos(a)), r3(cy + rad * math.sin(a))])
    return pts


def convex_polygon(rnd, cx, cy, R, n):
    a0 = rnd.uniform(0, 2 * math.pi)
    return [[r3(cx + R * math.cos(a0 + 2 * math.pi * i / n)),
             r3(cy + R * math.sin(a0 + 2 * math.pi * i / n))] for i in range(n)]


def gen_poly(rnd, cx, cy, R, multi=True):
    """[[exterior, [holes]], ...] : star-shaped outline, optional central hole, optional second
    component placed clear of the first.  Valid by construction."""
    comps = []
    ext = star_polygon(rnd, cx, cy, R)
    holes = []
    if rnd.random() < 0.4:
        holes.append(convex_polygon(rnd, cx, cy, R * rnd.uniform(0.08, 0.16), rnd.randint(3, 5)))
    comps.append([ext, holes])
    if multi and rnd.random() < 0.3:
        R2 = R * rnd.uniform(0.3, 0.7)
        a = rnd.uniform(0, 2 * math.pi)
        d = (R + R2) * 1.15
        comps.append([star_polygon(rnd, cx + d * math.cos(a), cy + d * math.sin(a), R2), []])
    return comps


def gen_rot(rnd):
    if rnd.random() < 0.25:
        return [0.0, 0.0, 0.0]
    if rnd.random() < 0.3:
        return [r3(rnd.uniform(-math.pi, math.pi)), 0.0, 0.0]
    return [r3(rnd.uniform(-math.pi, math.pi)), r3(rnd.uniform(-1.2, 1.2)),
            r3(rnd.uniform(-1.2, 1.2))]


def near(rnd, c, s, f=0.35):
    return [r3(c[i] + rnd.uniform(-f, f) * s) for i in range(3)]


def gen_shape(kind, rnd, ctx):
    """ctx: {"c": anchor point, "zp": height of the shared plane, "s": size scale,
    "members": points known to belong to the partner shape (for point sets)}"""
    c, zp, s = ctx["c"], ctx["zp"], ctx["s"]
    size = s * rnd.uniform(0.6, 1.4)
    if kind in ("Box", "Spheroid"):
        return {"kind": kind, "dims": [r3(size * rnd.uniform(0.4, 1.2)) for _ in range(3)],
                "pos": near(rnd, c, s), "rot": gen_rot(rnd)}
    if kind in ("MeshVol", "MeshSurf"):
        if kind == "MeshSurf" and rnd.random() < 0.5:
            return {"kind": kind, "base": "box",
                    "dims": [r3(size * rnd.uniform(0.4, 1.2)) for _ in range(3)],
                    "pos": near(rnd, c, s), "rot": gen_rot(rnd)}
        R = size * 0.6
        comps = gen_poly(rnd, 0.0, 0.0, R, multi=False)
        spec = {"kind": kind, "poly": comps, "height": r3(size * rnd.uniform(0.3, 1.0)),
                "pos": near(rnd, c, s), "rot": gen_rot(rnd)}
        if kind == "MeshSurf":
            spec["base"] = "prism"
        if rnd.random() < 0.3:
            spec["dims"] = [r3(size * rnd.uniform(0.5, 1.2)) for _ in range(3)]
        return spec
    # planar kinds: in the shared plane most of the time, in a parallel plane otherwise
    z = zp if rnd.random() < 0.8 else r3(zp + rnd.choice([-1, 1]) * rnd.uniform(0.5, 3.0))
    z = float(z)
    ctr = near(rnd, c, s)
    if kind == "Polygon":
        return {"kind": kind, "poly": gen_poly(rnd, ctr[0], ctr[1], size * 0.6), "z": z}
    if kind == "Footprint":
        return {"kind": kind, "poly": gen_poly(rnd, ctr[0], ctr[1], size * 0.6)}
    if kind == "Circle":
        return {"kind": kind, "center": [ctr[0], ctr[1], z], "radius": r3(size * 0.5)}
    if kind == "Sector":
        u = rnd.random()
        if u < 0.1:
            angle = 2 * math.pi
        elif u < 0.55:
            angle = r3(rnd.uniform(0.3, 2.0))
        else:
            angle = r3(rnd.uniform(2.0, 6.0))
        return {"kind": kind, "center": [ctr[0], ctr[1], z], "radius": r3(size * 0.6),
                "heading": r3(rnd.uniform(-math.pi, math.pi)), "angle": angle}
    if kind == "Rectangle":
        return {"kind": kind, "pos": [ctr[0], ctr[1], z],
                "heading": r3(rnd.uniform(-math.pi, math.pi)),
                "width": r3(size * rnd.uniform(0.3, 1.0)), "length": r3(size * rnd.uniform(0.3, 1.0))}
    if kind == "Polyline":
        lines = []
        for _ in range(rnd.choice([1, 1, 2])):
            n = rnd.randint(2, 5)
            lines.append([[r3(c[0] + rnd.uniform(-0.9, 0.9) * s), r3(c[1] + rnd.uniform(-0.9, 0.9) * s)]
                          for _ in range(n)])
        return {"kind": kind, "lines": lines}
    if kind == "Path":
        lines = []
        for _ in range(rnd.choice([1, 1, 2])):
            n = rnd.randint(2, 5)
            flat = rnd.random() < 0.5  # lying in the shared plane: meets planar partners in a length
            pl = []
            for _ in range(n):
                zz = zp if flat else r3(c[2] + rnd.uniform(-0.9, 0.9) * s)
                pl.append([r3(c[0] + rnd.uniform(-0.9, 0.9) * s),
                           r3(c[1] + rnd.uniform(-0.9, 0.9) * s), float(zz)])
            lines.append(pl)
        return {"kind": kind, "lines": lines}
    if kind == "PointSet":
        pts = [list(map(float, m)) for m in ctx.get("members", [])[:rnd.randint(2, 5)]]
        for _ in range(rnd.randint(3, 7)):
            zz = zp if rnd.random() < 0.4 else r3(c[2] + rnd.uniform(-0.9, 0.9) * s)
            pts.append([r3(c[0] + rnd.uniform(-0.9, 0.9) * s), r3(c[1] + rnd.uniform(-0.9, 0.9) * s),
                        float(zz)])
        return {"kind": kind, "points": pts}
    if kind == "Grid":
        nx, ny = rnd.randint(2, 5), rnd.randint(2, 4)
        grid = [[1 if rnd.random() < 0.35 else 0 for _ in range(nx)] for _ in range(ny)]
        grid[rnd.randrange(ny)][rnd.randrange(nx)] = 0
        grid[rnd.randrange(ny)][rnd.randrange(nx)] = 0
        Ax, Ay = r3(1.6 * s / nx), r3(1.6 * s / ny)
        return {"kind": kind, "grid": grid, "Ax": Ax, "Ay": Ay,
                "Bx": r3(c[0] - 0.8 * s + Ax / 2), "By": r3(c[1] - 0.8 * s + Ay / 2)}
    if kind in ("Everywhere", "Nowhere"):
        return {"kind": kind}
    raise ValueError(kind)


def gen_pair(ka, kb, rnd):
    """Two shapes placed so that they overlap partially most of the time.  Planar regions sit at
    a non-zero height in most cases; regions that only exist at z = 0 (polylines, grids) pull
    the shared plane to 0 in half of their cases."""
    from vf import regoracle as ro
    import numpy as np

    s = rnd.uniform(2.0, 8.0)
    zero_bound = any(k in ("Polyline", "Grid") for k in (ka, kb))
    if zero_bound:
        zp = 0.0 if rnd.random() < 0.6 else r3(rnd.choice([-1, 1]) * rnd.uniform(0.5, 30.0))
    else:
        zp = 0.0 if rnd.random() < 0.15 else r3(rnd.choice([-1, 1]) * rnd.uniform(0.5, 30.0))
    zp = float(zp)
    c = [r3(rnd.uniform(-40, 40)), r3(rnd.uniform(-40, 40)), r3(zp + rnd.uniform(-0.2, 0.2) * s)]
    ctx = {"c": c, "zp": zp, "s": s, "members": []}
    # point sets are generated second so that they can share points with their partner
    first, second = (ka, kb) if ka not in ("PointSet",) else (kb, ka)
    if ka == kb == "PointSet":
        first, second = ka, kb
    sa = gen_shape(first, rnd, ctx)
    if second == "PointSet" and first not in ("Everywhere", "Nowhere"):
        o = ro.from_spec(sa)
        g = np.random.default_rng(rnd.randrange(1 << 30))
        if first == "PointSet":
            mem = o.P[: max(1, len(o.P) // 2)]
        elif first == "Footprint":
            mem = o.sample(g, 4, (c[2] - s, c[2] + s))
        else:
            mem = o.sample(g, 4)
        ctx["members"] = [[float(x) for x in m] for m in mem]
    sb = gen_shape(second, rnd, ctx)
    if first == ka:
        A, B = sa, sb
    else:
        A, B = sb, sa
    for spec in (A, B):
        if spec["kind"] in LAZY_OK and rnd.random() < 0.15:
            spec["lazy"] = True
    return A, B


# ------------------------------------------------------------------------------------------
# Scenic side
# ------------------------------------------------------------------------------------------

def shapely_poly(ps):
    import shapely.geometry as sg

    polys = [sg.Polygon(ext, holes) for ext, holes in ps]
    return polys[0] if len(polys) == 1 else sg.MultiPolygon(polys)


def build(spec):
    """The Scenic region described by `spec` (may be lazy if spec['lazy'])."""
    import trimesh
    from scenic.core import regions as R
    from scenic.core.distributions import Range
    from scenic.core.vectors import Orientation, Vector

    k = spec["kind"]
    lazy = bool(spec.get("lazy"))

    def rv(v):  # a random value that can only take the value v
        return Range(v, v) if lazy else v

    if k in ("Box", "Spheroid"):
        cls = R.BoxRegion if k == "Box" else R.SpheroidRegion
        pos = spec["pos"]
        position = Vector(rv(pos[0]), pos[1], pos[2]) if lazy else Vector(*pos)
        return cls(dimensions=tuple(spec["dims"]), position=position,
                   rotation=Orientation.fromEuler(*spec["rot"]))
    if k in ("MeshVol", "MeshSurf"):
        if k == "MeshSurf" and spec["base"] == "box":
            mesh = trimesh.creation.box((1, 1, 1))
            dims = tuple(spec["dims"])
        else:
            mesh = trimesh.creation.extrude_polygon(shapely_poly(spec["poly"]), spec["height"])
            dims = tuple(spec["dims"]) if spec.get("dims") else None
        cls = R.MeshVolumeRegion if k == "MeshVol" else R.MeshSurfaceRegion
        return cls(mesh=mesh, dimensions=dims, position=Vector(*spec["pos"]),
                   rotation=Orientation.fromEuler(*spec["rot"]))
    if k == "Polygon":
        return R.PolygonalRegion(polygon=shapely_poly(spec["poly"]), z=spec["z"])
    if k == "Footprint":
        return R.PolygonalFootprintRegion(shapely_poly(spec["poly"]))
    if k == "Circle":
        return R.CircularRegion(Vector(*spec["center"]), rv(spec["radius"]))
    if k == "Sector":
        return R.SectorRegion(Vector(*spec["center"]), rv(spec["radius"]), spec["heading"],
                              spec["angle"])
    if k == "Rectangle":
        return R.RectangularRegion(Vector(*spec["pos"]), spec["heading"], rv(spec["width"]),
                                   spec["length"])
    if k == "Polyline":
        lines = spec["lines"]
        if len(lines) == 1:
            return R.PolylineRegion(points=[tuple(p) for p in lines[0]])
        import shapely.geometry as sg

        return R.PolylineRegion(polyline=sg.MultiLineString([[tuple(p) for p in ln] for ln in lines]))
    if k == "Path":
        return R.PathRegion(polylines=[[tuple(p) for p in ln] for ln in spec["lines"]])
    if k == "PointSet":
        return R.PointSetRegion("ps", [tuple(p) for p in spec["points"]])
    if k == "Grid":
        return R.GridRegion("grid", spec["grid"], spec["Ax"], spec["Ay"], spec["Bx"], spec["By"])
    if k == "Everywhere":
        return R.everywhere
    if k == "Nowhere":
        return R.nowhere
    raise ValueError(k)
