"""Generator of region specs (plain JSON) and builder of the corresponding Scenic regions,
shared by C16 and C03.  The spec is the single source of truth: `vf.regoracle.from_spec`
builds the oracle shape from it, `build` builds the Scenic region from it.

Everything random comes from the `random.Random` handed in by the caller (seeded from
VERIF_SEED, the shard and the case index), so a case is a pure function of its JSON."""

from __future__ import annotations

import math

KINDS = ["Box", "Spheroid", "MeshVol", "MeshSurf", "Polygon", "Circle", "Sector", "Rectangle",
         "Polyline", "Path", "PointSet", "Grid", "Footprint"]

FAMILY = {"Box": "MeshVolume", "Spheroid": "MeshVolume", "MeshVol": "MeshVolume",
          "MeshSurf": "MeshSurface", "Polygon": "Polygonal", "Circle": "Polygonal",
          "Sector": "Polygonal", "Rectangle": "Polygonal", "Polyline": "Polyline",
          "Path": "Path", "PointSet": "PointSet", "Grid": "Grid", "Footprint": "Footprint",
          "Everywhere": "All", "Nowhere": "Empty"}

PLANAR = ("Polygon", "Circle", "Sector", "Rectangle")
LAZY_OK = ("Circle", "Sector", "Rectangle", "Box", "Spheroid")


def r3(x):
    return round(float(x), 3)


def star_polygon(rnd, cx, cy, R, nmin=4, nmax=9):
    n = rnd.randint(nmin, nmax)
    pts = []
    for i in range(n):
        a = 2 * math.pi * (i + 0.4 * rnd.random()) / n
        rad = R * rnd.uniform(0.5, 1.0)
        pts.append([r3(cx + rad * math.cos(a)), r3(cy + rad * math.sin(a))])
    return pts


def convex_polygon(rnd, cx, cy, R, n):
    a0 = rnd.uniform(0, 2 * math.pi)
    return [[r3(cx + R * math.cos(a0 + 2 * math.pi * i / n)),
             r3(cy + R * math.sin(a0 + 2 * math.pi * i / n))] for i in range(n)]


def gen_poly(rnd, cx, cy, R, multi=True):
    """[[exterior, [holes]], ...] : star-shaped outline, optional central hole, optional second
    component placed clear of the first.  Valid by construction."""
    comps = []
    ext = star_polygon(rnd, cx, cy, R)
    holes = []
    if rnd.random() < 0.4:
        holes.append(convex_polygon(rnd, cx, cy, R * rnd.uniform(0.08, 0.16), rnd.randint(3, 5)))
    comps.append([ext, holes])
    if multi and rnd.random() < 0.3:
        R2 = R * rnd.uniform(0.3, 0.7)
        a = rnd.uniform(0, 2 * math.pi)
        d = (R + R2) * 1.15
        comps.append([star_polygon(rnd, cx + d * math.cos(a), cy + d * math.sin(a), R2), []])
    return comps


def gen_rot(rnd):
    if rnd.random() < 0.25:
        return [0.0, 0.0, 0.0]
    if rnd.random() < 0.3:
        return [r3(rnd.uniform(-math.pi, math.pi)), 0.0, 0.0]
    return [r3(rnd.uniform(-math.pi, math.pi)), r3(rnd.uniform(-1.2, 1.2)),
            r3(rnd.uniform(-1.2, 1.2))]


def near(rnd, c, s, f=0.35):
    return [r3(c[i] + rnd.uniform(-f, f) * s) for i in range(3)]


def gen_shape(kind, rnd, ctx):
    """ctx: {"c": anchor point, "zp": height of the shared plane, "s": size scale,
    "members": points known to belong to the partner shape (for point sets)}"""
    c, zp, s = ctx["c"], ctx["zp"], ctx["s"]
    size = s * rnd.uniform(0.6, 1.4)
    if kind in ("Box", "Spheroid"):
        return {"kind": kind, "dims": [r3(size * rnd.uniform(0.4, 1.2)) for _ in range(3)],
                "pos": near(rnd, c, s), "rot": gen_rot(rnd)}
    if kind in ("MeshVol", "MeshSurf"):
        if kind == "MeshSurf" and rnd.random() < 0.5:
            return {"kind": kind, "base": "box",
                    "dims": [r3(size * rnd.uniform(0.4, 1.2)) for _ in range(3)],
                    "pos": near(rnd, c, s), "rot": gen_rot(rnd)}
        R = size * 0.6
        comps = gen_poly(rnd, 0.0, 0.0, R, multi=False)
        spec = {"kind": kind, "poly": comps, "height": r3(size * rnd.uniform(0.3, 1.0)),
                "pos": near(rnd, c, s), "rot": gen_rot(rnd)}
        if kind == "MeshSurf":
            spec["base"] = "prism"
        if rnd.random() < 0.3:
            spec["dims"] = [r3(size * rnd.uniform(0.5, 1.2)) for _ in range(3)]
        return spec
    # planar kinds: in the shared plane most of the time, in a parallel plane otherwise
    z = zp if rnd.random() < 0.8 else r3(zp + rnd.choice([-1, 1]) * rnd.uniform(0.5, 3.0))
    z = float(z)
    ctr = near(rnd, c, s)
    if kind == "Polygon":
        return {"kind": kind, "poly": gen_poly(rnd, ctr[0], ctr[1], size * 0.6), "z": z}
    if kind == "Footprint":
        return {"kind": kind, "poly": gen_poly(rnd, ctr[0], ctr[1], size * 0.6)}
    if kind == "Circle":
        return {"kind": kind, "center": [ctr[0], ctr[1], z], "radius": r3(size * 0.5)}
    if kind == "Sector":
        u = rnd.random()
        if u < 0.1:
            angle = 2 * math.pi
        elif u < 0.55:
            angle = r3(rnd.uniform(0.3, 2.0))
        else:
            angle = r3(rnd.uniform(2.0, 6.0))
        return {"kind": kind, "center": [ctr[0], ctr[1], z], "radius": r3(size * 0.6),
                "heading": r3(rnd.uniform(-math.pi, math.pi)), "angle": angle}
    if kind == "Rectangle":
        return {"kind": kind, "pos": [ctr[0], ctr[1], z],
                "heading": r3(rnd.uniform(-math.pi, math.pi)),
                "width": r3(size * rnd.uniform(0.3, 1.0)), "length": r3(size * rnd.uniform(0.3, 1.0))}
    if kind == "Polyline":
        lines = []
        for _ in range(rnd.choice([1, 1, 2])):
            n = rnd.randint(2, 5)
            lines.append([[r3(c[0] + rnd.uniform(-0.9, 0.9) * s), r3(c[1] + rnd.uniform(-0.9, 0.9) * s)]
                          for _ in range(n)])
        return {"kind": kind, "lines": lines}
    if kind == "Path":
        lines = []
        for _ in range(rnd.choice([1, 1, 2])):
            n = rnd.randint(2, 5)
            flat = rnd.random() < 0.5  # lying in the shared plane: meets planar partners in a length
            pl = []
            for _ in range(n):
                zz = zp if flat else r3(c[2] + rnd.uniform(-0.9, 0.9) * s)
                pl.append([r3(c[0] + rnd.uniform(-0.9, 0.9) * s),
                           r3(c[1] + rnd.uniform(-0.9, 0.9) * s), float(zz)])
            lines.append(pl)
        return {"kind": kind, "lines": lines}
    if kind == "PointSet":
        pts = [list(map(float, m)) for m in ctx.get("members", [])[:rnd.randint(2, 5)]]
        for _ in range(rnd.randint(3, 7)):
            zz = zp if rnd.random() < 0.4 else r3(c[2] + rnd.uniform(-0.9, 0.9) * s)
            pts.append([r3(c[0] + rnd.uniform(-0.9, 0.9) * s), r3(c[1] + rnd.uniform(-0.9, 0.9) * s),
                        float(zz)])
        return {"kind": kind, "points": pts}
    if kind == "Grid":
        nx, ny = rnd.randint(2, 5), rnd.randint(2, 4)
        grid = [[1 if rnd.random() < 0.35 else 0 for _ in range(nx)] for _ in range(ny)]
        grid[rnd.randrange(ny)][rnd.randrange(nx)] = 0
        grid[rnd.randrange(ny)][rnd.randrange(nx)] = 0
        Ax, Ay = r3(1.6 * s / nx), r3(1.6 * s / ny)
        return {"kind": kind, "grid": grid, "Ax": Ax, "Ay": Ay,
                "Bx": r3(c[0] - 0.8 * s + Ax / 2), "By": r3(c[1] - 0.8 * s + Ay / 2)}
    if kind in ("Everywhere", "Nowhere"):
        return {"kind": kind}
    raise ValueError(kind)


def gen_pair(ka, kb, rnd):
    """Two shapes placed so that they overlap partially most of the time.  Planar regions sit at
    a non-zero height in most cases; regions that only exist at z = 0 (polylines, grids) pull
    the shared plane to 0 in half of their cases."""
    from vf import regoracle as ro
    import numpy as np

    s = rnd.uniform(2.0, 8.0)
    zero_bound = any(k in ("Polyline", "Grid") for k in (ka, kb))
    if zero_bound:
        zp = 0.0 if rnd.random() < 0.6 else r3(rnd.choice([-1, 1]) * rnd.uniform(0.5, 30.0))
    else:
        zp = 0.0 if rnd.random() < 0.15 else r3(rnd.choice([-1, 1]) * rnd.uniform(0.5, 30.0))
    zp = float(zp)
    c = [r3(rnd.uniform(-40, 40)), r3(rnd.uniform(-40, 40)), r3(zp + rnd.uniform(-0.2, 0.2) * s)]
    ctx = {"c": c, "zp": zp, "s": s, "members": []}
    # point sets are generated second so that they can share points with their partner
    first, second = (ka, kb) if ka not in ("PointSet",) else (kb, ka)
    if ka == kb == "PointSet":
        first, second = ka, kb
    sa = gen_shape(first, rnd, ctx)
    if second == "PointSet" and first not in ("Everywhere", "Nowhere"):
        o = ro.from_spec(sa)
        g = np.random.default_rng(rnd.randrange(1 << 30))
        if first == "PointSet":
            mem = o.P[: max(1, len(o.P) // 2)]
        elif first == "Footprint":
            mem = o.sample(g, 4, (c[2] - s, c[2] + s))
        else:
            mem = o.sample(g, 4)
        ctx["members"] = [[float(x) for x in m] for m in mem]
    sb = gen_shape(second, rnd, ctx)
    if first == ka:
        A, B = sa, sb
    else:
        A, B = sb, sa
    if {ka, kb} <= {"Polygon", "Footprint"} and rnd.random() < 0.5:
        hug(A, B, rnd, c, s)
    for spec in (A, B):
        if spec["kind"] in LAZY_OK and rnd.random() < 0.15:
            spec["lazy"] = True
    return A, B


def hug(A, B, rnd, c, s):
    """Re-shape two polygonal operands so that they overlap in area *and* share a stretch of
    boundary outside the overlap (a step-shaped B hugging one side of a rectangle A while
    covering one of its corners): the exact intersection is then a polygon plus a line.
    Coordinates are multiples of 1/8 and the shared side is axis-parallel, so the contact is
    exact in floating point."""
    q = lambda v: round(v * 8) / 8
    w, h = q(s * rnd.uniform(0.5, 1.2)) + 0.5, q(s * rnd.uniform(0.5, 1.2)) + 0.5
    a, b = q(w * rnd.uniform(0.2, 0.7)) + 0.125, q(s * rnd.uniform(0.3, 0.9)) + 0.25
    m = q(h * rnd.uniform(0.25, 0.7)) + 0.125
    # local frame: A = [0, w] x [0, h]; B covers [w - a, w] x [0, m] and hugs x = w above m
    rect = [(0, 0), (w, 0), (w, h), (0, h)]
    step = [(w - a, 0), (w + b, 0), (w + b, h), (w, h), (w, m), (w - a, m)]
    turn = rnd.randrange(4)
    flip = rnd.random() < 0.5
    ox, oy = q(c[0]), q(c[1])

    def place(pts):
        out = []
        for x, y in pts:
            if flip:
                y = h - y
            for _ in range(turn):
                x, y = -y, x
            out.append([ox + x, oy + y])
        return out

    A["poly"] = [[place(rect), []]]
    B["poly"] = [[place(step), []]]
    if "z" in A and "z" in B:
        B["z"] = A["z"]
    A["hug"] = B["hug"] = True


# ------------------------------------------------------------------------------------------
# Scenic side
# ------------------------------------------------------------------------------------------

def shapely_poly(ps):
    import shapely.geometry as sg

    polys = [sg.Polygon(ext, holes) for ext, holes in ps]
    return polys[0] if len(polys) == 1 else sg.MultiPolygon(polys)


def build(spec):
    """The Scenic region described by `spec` (may be lazy if spec['lazy'])."""
    import trimesh
    from scenic.core import regions as R
    from scenic.core.distributions import Range
    from scenic.core.vectors import Orientation, Vector

    k = spec["kind"]
    lazy = bool(spec.get("lazy"))

    def rv(v):  # a random value that can only take the value v
        return Range(v, v) if lazy else v

    if k in ("Box", "Spheroid"):
        cls = R.BoxRegion if k == "Box" else R.SpheroidRegion
        pos = spec["pos"]
        position = Vector(rv(pos[0]), pos[1], pos[2]) if lazy else Vector(*pos)
        return cls(dimensions=tuple(spec["dims"]), position=position,
                   rotation=Orientation.fromEuler(*spec["rot"]))
    if k in ("MeshVol", "MeshSurf"):
        if k == "MeshSurf" and spec["base"] == "box":
            mesh = trimesh.creation.box((1, 1, 1))
            dims = tuple(spec["dims"])
        else:
            mesh = trimesh.creation.extrude_polygon(shapely_poly(spec["poly"]), spec["height"])
            dims = tuple(spec["dims"]) if spec.get("dims") else None
        cls = R.MeshVolumeRegion if k == "MeshVol" else R.MeshSurfaceRegion
        return cls(mesh=mesh, dimensions=dims, position=Vector(*spec["pos"]),
                   rotation=Orientation.fromEuler(*spec["rot"]))
    if k == "Polygon":
        return R.PolygonalRegion(polygon=shapely_poly(spec["poly"]), z=spec["z"])
    if k == "Footprint":
        return R.PolygonalFootprintRegion(shapely_poly(spec["poly"]))
    if k == "Circle":
        return R.CircularRegion(Vector(*spec["center"]), rv(spec["radius"]))
    if k == "Sector":
        return R.SectorRegion(Vector(*spec["center"]), rv(spec["radius"]), spec["heading"],
                              spec["angle"])
    if k == "Rectangle":
        return R.RectangularRegion(Vector(*spec["pos"]), spec["heading"], rv(spec["width"]),
                                   spec["length"])
    if k == "Polyline":
        lines = spec["lines"]
        if len(lines) == 1:
            return R.PolylineRegion(points=[tuple(p) for p in lines[0]])
        import shapely.geometry as sg

        return R.PolylineRegion(polyline=sg.MultiLineString([[tuple(p) for p in ln] for ln in lines]))
    if k == "Path":
        return R.PathRegion(polylines=[[tuple(p) for p in ln] for ln in spec["lines"]])
    if k == "PointSet":
        return R.PointSetRegion("ps", [tuple(p) for p in spec["points"]])
    if k == "Grid":
        return R.GridRegion("grid", spec["grid"], spec["Ax"], spec["Ay"], spec["Bx"], spec["By"])
    if k == "Everywhere":
        return R.everywhere
    if k == "Nowhere":
        return R.nowhere
    raise ValueError(k)


# ------------------------------------------------------------------------------------------
# histories: several operations in sequence on the SAME region object
# ------------------------------------------------------------------------------------------

SHARED_KINDS = ["Footprint", "Footprint", "Footprint", "Polygon", "Box", "MeshVol", "Circle"]
HISTORY_PARTNERS = ["Box", "Spheroid", "MeshVol", "MeshSurf", "Path", "Box", "Path"]


def gen_history(rnd):
    """One shared region and 3-4 partners met one after the other.  Partners differ by orders
    of magnitude in vertical extent (0.1 ... 600) and sit at far-apart heights, so that whatever
    the shared object memoised for an earlier partner (bounded footprints, cached results) does
    not fit the later ones."""
    s = rnd.uniform(2.0, 6.0)
    zp = float(r3(rnd.choice([0.0, rnd.uniform(-2, 2), rnd.uniform(-30, 30)])))
    c = [r3(rnd.uniform(-40, 40)), r3(rnd.uniform(-40, 40)), zp]
    shared_kind = rnd.choice(SHARED_KINDS)
    shared = gen_shape(shared_kind, rnd, {"c": c, "zp": zp, "s": s, "members": []})
    n = rnd.randint(3, 4)
    heights = [10 ** rnd.uniform(-1, 0.5), 10 ** rnd.uniform(1.8, 2.8), 10 ** rnd.uniform(-1, 2.8),
               10 ** rnd.uniform(0.5, 2.8)][:n]
    if rnd.random() < 0.4:
        rnd.shuffle(heights)
    partners = []
    zc = zp + rnd.uniform(-1, 1)
    for h in heights:
        k = rnd.choice(HISTORY_PARTNERS)
        h = float(r3(h))
        zc = float(r3(zc + rnd.uniform(-0.45, 0.45) * h))
        ctr = [r3(c[0] + rnd.uniform(-0.4, 0.4) * s), r3(c[1] + rnd.uniform(-0.4, 0.4) * s), zc]
        w = [r3(s * rnd.uniform(0.3, 1.5)), r3(s * rnd.uniform(0.3, 1.5))]
        yaw = [r3(rnd.uniform(-math.pi, math.pi)), 0.0, 0.0]
        if k in ("Box", "Spheroid"):
            spec = {"kind": k, "dims": [w[0], w[1], h], "pos": ctr, "rot": yaw}
        elif k == "MeshSurf":
            spec = {"kind": k, "base": "box", "dims": [w[0], w[1], h], "pos": ctr, "rot": yaw}
        elif k == "MeshVol":
            spec = {"kind": k, "poly": gen_poly(rnd, 0.0, 0.0, s * 0.6, multi=False), "height": h,
                    "pos": ctr, "rot": yaw}
        else:  # Path: mostly vertical runs through / beside the shared region
            pl = []
            for j in range(rnd.randint(2, 4)):
                pl.append([r3(c[0] + rnd.uniform(-0.8, 0.8) * s), r3(c[1] + rnd.uniform(-0.8, 0.8) * s),
                           float(r3(zc + (j % 2 - 0.5) * h * rnd.uniform(0.7, 1.0)))])
            spec = {"kind": "Path", "lines": [pl]}
        partners.append(spec)
    return shared, partners


# ------------------------------------------------------------------------------------------
# containment: a convex (often very thin) container and a region placed inside it with margin
# ------------------------------------------------------------------------------------------

CONTAINERS = ["Rectangle", "Rectangle", "Circle", "Polygon", "Box", "Box", "Spheroid", "Footprint"]
INNERS_FLAT = ["Polyline", "PointSet", "Polygon", "Rectangle", "Circle", "Path"]
INNERS_SOLID = ["Path", "PointSet", "Box", "Polyline", "Spheroid"]


def gen_contained(rnd):
    """(container, inner, inside): `inner` lies within 55% of the container's half extents
    (inside=True) or has one piece pushed clearly out of it (inside=False).  Containers are
    convex and thin in 2/3 of the cases (aspect up to 1:80), inner regions of lower dimension
    are made long / numerous so that their measure *number* exceeds the container's."""
    import numpy as np

    L = rnd.uniform(4.0, 30.0)
    thin = rnd.random() < 0.67
    W = L / rnd.uniform(10, 80) if thin else L * rnd.uniform(0.4, 1.0)
    kind = rnd.choice(CONTAINERS)
    inside = rnd.random() < 0.75
    solid = kind in ("Box", "Spheroid")
    inner_kind = rnd.choice(INNERS_SOLID if solid else INNERS_FLAT)
    z = 0.0 if (inner_kind == "Polyline" and not solid) or rnd.random() < 0.2 else float(r3(rnd.uniform(-20, 20)))
    c = [r3(rnd.uniform(-30, 30)), r3(rnd.uniform(-30, 30)), z]
    heading = r3(rnd.uniform(-math.pi, math.pi))
    ch, sh = math.cos(heading), math.sin(heading)

    def to_world(u, v, w=0.0):  # container-local (u along width, v along length) -> world
        return [r3(c[0] + ch * u - sh * v), r3(c[1] + sh * u + ch * v), float(r3(c[2] + w))]

    H = W * rnd.uniform(0.5, 2.0) if solid else 0.0
    if kind == "Rectangle":
        cont = {"kind": kind, "pos": c, "heading": heading, "width": r3(W), "length": r3(L)}
        hu, hv = W / 2, L / 2
    elif kind == "Circle":
        cont = {"kind": kind, "center": c, "radius": r3(L / 2)}
        hu = hv = L / 2 / math.sqrt(2)
    elif kind in ("Polygon", "Footprint"):
        corners = [to_world(su * W / 2, sv * L / 2)[:2] for su, sv in ((1, 1), (-1, 1), (-1, -1), (1, -1))]
        cont = {"kind": kind, "poly": [[corners, []]]}
        if kind == "Polygon":
            cont["z"] = z
        hu, hv = W / 2, L / 2
    else:
        cont = {"kind": kind, "dims": [r3(W), r3(L), r3(H)], "pos": c, "rot": [heading, 0.0, 0.0]}
        f = 1.0 if kind == "Box" else 1 / math.sqrt(3)
        hu, hv, H = f * W / 2, f * L / 2, f * H
    m = 0.55
    flat_in = not solid and kind != "Footprint"

    def pt(out=False):
        u, v = rnd.uniform(-m, m) * hu, rnd.uniform(-m, m) * hv
        w = 0.0 if flat_in else (rnd.uniform(-m, m) * H / 2 if solid else rnd.uniform(-5, 5))
        if out:
            u = (1.0 + rnd.uniform(0.5, 2.0)) * hu * rnd.choice([-1, 1]) + rnd.choice([-1, 1]) * 0.2
        return to_world(u, v, w)

    if inner_kind in ("Polyline", "Path"):
        n = rnd.randint(4, 14)  # zig-zag: long compared with the container's area / volume
        pts = [to_world((-1) ** j * m * hu * rnd.uniform(0.6, 1.0), (-m + 2 * m * j / (n - 1)) * hv,
                        0.0 if flat_in else (rnd.uniform(-m, m) * H / 2 if solid else rnd.uniform(-5, 5)))
               for j in range(n)]
        if not inside:
            pts[rnd.randrange(n)] = pt(out=True)
        if inner_kind == "Polyline":
            pts = [[p[0], p[1], 0.0] for p in pts]
            inner = {"kind": "Polyline", "lines": [[p[:2] for p in pts]]}
            if c[2] != 0.0 and not solid and kind != "Footprint":
                inside = False  # a polyline lives at z = 0, the container does not
            if solid and abs(0.0 - c[2]) > m * H / 2:
                inside = inside and False
        else:
            inner = {"kind": "Path", "lines": [pts]}
    elif inner_kind == "PointSet":
        pts = [pt() for _ in range(rnd.randint(3, 40))]
        if not inside:
            pts[rnd.randrange(len(pts))] = pt(out=True)
        inner = {"kind": "PointSet", "points": pts}
    else:
        ctr = pt(out=not inside)
        r = 0.3 * min(hu, hv) * rnd.uniform(0.3, 1.0)
        if inner_kind == "Polygon":
            inner = {"kind": "Polygon", "poly": [[convex_polygon(rnd, ctr[0], ctr[1], r, rnd.randint(3, 6)), []]],
                     "z": ctr[2]}
        elif inner_kind == "Rectangle":
            inner = {"kind": "Rectangle", "pos": ctr, "heading": r3(rnd.uniform(-3, 3)),
                     "width": r3(r), "length": r3(r)}
        elif inner_kind == "Circle":
            inner = {"kind": "Circle", "center": ctr, "radius": r3(r)}
        else:
            rr = 0.3 * min(hu, hv, H / 2 if H else hu)
            inner = {"kind": inner_kind, "dims": [r3(rr), r3(rr), r3(rr)], "pos": ctr,
                     "rot": [r3(rnd.uniform(-3, 3)), 0.0, 0.0]}
    return cont, inner
