"""Independent geometry for C17 (visibility): rotations, analytic view volume, conservative
certificates for spheres, convex polytopes rebuilt from object *properties*, exact
segment/convex-polytope clipping.  Pure numpy; nothing here calls scenic.core.visibility,
Object.canSee, visibleRegion or trimesh ray casting.

Conventions (docs/reference/data.rst "Orientation", tutorials/fundamentals.rst):
intrinsic yaw (about +Z), pitch (about the resulting +X), roll (about the resulting +Y), all
counter-clockwise by the right-hand rule, i.e. R = Rz(yaw) Rx(pitch) Ry(roll); heading 0 faces
+Y; azimuth is measured counter-clockwise from the local +Y axis, altitude from the local XY
plane."""

from __future__ import annotations

import math

import numpy as np

from vf import core

TAU = 2 * math.pi


# ---------------------------------------------------------------------------------------------
# rotations
# ---------------------------------------------------------------------------------------------

def rz(a):
    c, s = math.cos(a), math.sin(a)
    return np.array([[c, -s, 0.0], [s, c, 0.0], [0.0, 0.0, 1.0]])


def rx(a):
    c, s = math.cos(a), math.sin(a)
    return np.array([[1.0, 0.0, 0.0], [0.0, c, -s], [0.0, s, c]])


def ry(a):
    c, s = math.cos(a), math.sin(a)
    return np.array([[c, 0.0, s], [0.0, 1.0, 0.0], [-s, 0.0, c]])


def rot(yaw, pitch, roll):
    return rz(yaw) @ rx(pitch) @ ry(roll)


def euler_of(M):
    """(yaw, pitch, roll) with rot(yaw, pitch, roll) == M (pitch in [-pi/2, pi/2])."""
    sp = max(-1.0, min(1.0, float(M[2][1])))
    pitch = math.asin(sp)
    if abs(sp) > 1 - 1e-12:  # gimbal lock: put everything into yaw
        return (math.atan2(M[1][0], M[0][0]), pitch, 0.0)
    return (math.atan2(-M[0][1], M[1][1]), pitch, math.atan2(-M[2][0], M[2][2]))


def direction(az, alt):
    """Unit vector (local frame) with the given azimuth/altitude."""
    return np.array([-math.sin(az) * math.cos(alt), math.cos(az) * math.cos(alt), math.sin(alt)])


def az_alt(q):
    d = float(np.linalg.norm(q))
    az = math.atan2(-q[0], q[1])
    alt = math.asin(max(-1.0, min(1.0, q[2] / d))) if d > 0 else 0.0
    return az, alt, d


# ---------------------------------------------------------------------------------------------
# analytic view volume
# ---------------------------------------------------------------------------------------------

class View:
    """|d| <= vd, |azimuth| <= h/2, |altitude| <= v/2 in the camera frame."""

    def __init__(self, cam, R, h, v, vd):
        self.cam = np.asarray(cam, float)
        self.R = np.asarray(R, float)
        self.h = min(float(h), TAU)
        self.v = min(float(v), math.pi)
        self.vd = float(vd)
        self.full_h = self.h >= TAU - 1e-12
        self.full_v = self.v >= math.pi - 1e-12

    def local(self, p):
        return self.R.T @ (np.asarray(p, float) - self.cam)

    def classify_local(self, q, ang_band=1e-3, rel_band=1e-6):
        """'in' / 'out' / 'near' for the local vector q: 'out' if some constraint is violated
        by more than its band, 'in' if all hold by more than their bands."""
        az, alt, d = az_alt(q)
        if d <= 1e-9:
            return "near"
        cons = [(self.vd - d, rel_band * max(d, self.vd))]
        if not self.full_v:
            cons.append((self.v / 2 - abs(alt), ang_band))
        if not self.full_h:
            daz = self.h / 2 - abs(az)
            # angular distance of the direction from the bounding half-plane through the z axis
            ang = math.asin(min(1.0, math.cos(alt) * math.sin(min(abs(daz), math.pi / 2))))
            cons.append((math.copysign(ang, daz), ang_band))
        if any(m < -b for m, b in cons):
            return "out"
        if all(m > b for m, b in cons):
            return "in"
        return "near"

    def classify(self, p, ang_band=1e-3, rel_band=1e-6):
        return self.classify_local(self.local(p), ang_band, rel_band)

    def sphere(self, centre, r, band=1e-3):
        """Conservative certificate for the ball B(centre, r): 'outside' (no point of it is in
        the view volume), 'inside' (all of it is, with margin) or None."""
        q = self.local(centre)
        az, alt, d = az_alt(q)
        if d - r > self.vd * (1 + 1e-6) + 1e-9:
            return "outside"
        if d <= r * (1 + 1e-9) + 1e-9:
            return None
        rho = math.asin(min(1.0, r / d))
        delta = None  # half-width of the azimuth interval of the cap
        if math.sin(rho) < math.cos(alt) * (1 - 1e-9):
            delta = math.asin(math.sin(rho) / math.cos(alt))
        if not self.full_v and abs(alt) - rho > self.v / 2 + band:
            return "outside"
        if not self.full_h and delta is not None:
            gap = abs(az) - delta - self.h / 2
            if gap > 0 and gap * math.cos(min(abs(alt) + rho, math.pi / 2)) > band:
                return "outside"
        inside = d + r < self.vd * (1 - 1e-6)
        if not self.full_v:
            inside = inside and abs(alt) + rho < self.v / 2 - band
        if not self.full_h:
            inside = inside and delta is not None and \
                (self.h / 2 - abs(az) - delta) * math.cos(min(abs(alt) + rho, math.pi / 2)) > band
        return "inside" if inside else None


# ---------------------------------------------------------------------------------------------
# convex solids rebuilt from properties
# ---------------------------------------------------------------------------------------------

class Solid:
    """World-frame convex polytope  R diag(w,l,h) v + pos  of a unit mesh (vertices, faces)."""

    def __init__(self, unit_vertices, faces, dims, R, pos):
        self.pos = np.asarray(pos, float)
        self.dims = np.asarray(dims, float)
        self.R = np.asarray(R, float)
        V = (np.asarray(unit_vertices, float) * self.dims) @ self.R.T + self.pos
        F = np.asarray(faces, int)
        a, b, c = V[F[:, 0]], V[F[:, 1]], V[F[:, 2]]
        n = np.cross(b - a, c - a)
        ln = np.linalg.norm(n, axis=1)
        keep = ln > 1e-14 * (float(np.max(self.dims)) ** 2 + 1e-300)
        n = n[keep] / ln[keep][:, None]
        off = np.einsum("ij,ij->i", n, a[keep])
        flip = (n @ self.pos) > off
        n[flip] *= -1
        off[flip] *= -1
        self.n, self.off = n, off
        self.V = V
        self.r_bound = 0.5 * float(np.linalg.norm(self.dims))
        self.r_in = float(np.min(off - n @ self.pos))
        self.scale = float(np.max(np.abs(self.dims)))

    def contains(self, p, eps=0.0):
        return bool(np.all(self.n @ np.asarray(p, float) <= self.off + eps))

    def clip_fast(self, c, w, lo, hi, eps):
        """Parameter interval of {c + s w, lo<=s<=hi} inside the polytope inflated by eps;
        None if empty."""
        nc = self.n @ c - (self.off + eps)
        nw = self.n @ w
        par = np.abs(nw) < 1e-15
        if np.any(par & (nc > 0)):
            return None
        with np.errstate(divide="ignore", invalid="ignore"):
            s = -nc / nw
        pos = (nw > 0) & ~par
        neg = (nw < 0) & ~par
        if np.any(pos):
            hi = min(hi, float(np.min(s[pos])))
        if np.any(neg):
            lo = max(lo, float(np.max(s[neg])))
        return (lo, hi) if lo <= hi else None

    def segment(self, c, t, rel=1e-6):
        """'hit' / 'miss' / 'near' for the closed segment c..t."""
        c = np.asarray(c, float)
        w = np.asarray(t, float) - c
        eps = rel * (self.scale + float(np.linalg.norm(w)))
        big = self.clip_fast(c, w, 0.0, 1.0, eps) is not None
        small = self.clip_fast(c, w, 0.0, 1.0, -eps) is not None
        if big != small:
            return "near"
        return "hit" if big else "miss"

    def covers_cone(self, c, centre, r, band=2e-3, n_edges=16):
        """True if every ray from c towards the ball B(centre, r) meets this polytope at a
        distance smaller than the distance at which it could reach the ball (certificate)."""
        c = np.asarray(c, float)
        u = np.asarray(centre, float) - c
        d = float(np.linalg.norm(u))
        if d <= r * 1.001 + 1e-9:
            return False
        u = u / d
        rho = math.asin(r / d) + band
        if rho >= math.radians(80):
            return False
        rho2 = math.atan(math.tan(rho) / math.cos(math.pi / n_edges))
        if rho2 >= math.radians(85):
            return False
        limit = (d - r) * (1 - 1e-3) - 1e-6
        if limit <= 0:
            return False
        if self.contains(c, eps=1e-6 * self.scale):
            return False
        # orthonormal basis around u
        a = np.array([1.0, 0.0, 0.0]) if abs(u[0]) < 0.9 else np.array([0.0, 1.0, 0.0])
        e1 = np.cross(u, a)
        e1 /= np.linalg.norm(e1)
        e2 = np.cross(u, e1)
        eps = -1e-6 * (self.scale + d)
        for k in range(n_edges):
            phi = TAU * k / n_edges
            w = math.cos(rho2) * u + math.sin(rho2) * (math.cos(phi) * e1 + math.sin(phi) * e2)
            if self.clip_fast(c, w, 0.0, limit, eps) is None:
                return False
        return True


def cone_disjoint(c, centre_t, r_t, centre_o, r_o, band=2e-3):
    """Certificate that no ray from c towards B(centre_t, r_t) can touch B(centre_o, r_o)
    before or while reaching the target ball: angularly separated, or wholly farther away."""
    c = np.asarray(c, float)
    ut = np.asarray(centre_t, float) - c
    uo = np.asarray(centre_o, float) - c
    dt, do = float(np.linalg.norm(ut)), float(np.linalg.norm(uo))
    if do - r_o > (dt + r_t) * (1 + 1e-6) + 1e-6:
        return True
    if do <= r_o * 1.001 + 1e-9 or dt <= r_t * 1.001 + 1e-9:
        return False
    cosang = float(ut @ uo) / (dt * do)
    ang = math.acos(max(-1.0, min(1.0, cosang)))
    return ang > math.asin(r_t / dt) + math.asin(r_o / do) + band


# ---------------------------------------------------------------------------------------------
# ray spacing documented by the implementation (classes.rst / visibility.rst)
# ---------------------------------------------------------------------------------------------

def ray_spacing(ray, h, v, dist):
    """Nominal angular distance (radians) between neighbouring rays for a target whose
    position is `dist` away: viewRayDensity rays per degree (times the distance with
    viewRayDistanceScaling), or viewAngles / viewRayCount."""
    if ray["mode"] == "count":
        return max(h / ray["c"][0], v / ray["c"][1])
    dens = ray["d"] * (dist if ray.get("scale") else 1.0)
    return math.radians(1.0 / dens) if dens > 0 else math.inf


def window_rays(ray, h, v, dist):
    """Nominal number of rays in the whole view window (cost estimate)."""
    if ray["mode"] == "count":
        return ray["c"][0] * ray["c"][1]
    dens = ray["d"] * (dist if ray.get("scale") else 1.0)
    return math.degrees(h) * dens * math.degrees(v) * dens


# ---------------------------------------------------------------------------------------------
# self-check (hand-computed; scipy as an independent second opinion)
# ---------------------------------------------------------------------------------------------

_checked = False


def selfcheck():
    global _checked
    if _checked:
        return
    def need(c, msg):
        if not c:
            raise core.HarnessError("c17_view self-check failed: " + msg)

    d90 = math.pi / 2
    # documented: yaw = CCW about +Z, heading 0 faces +Y  => yaw 90deg faces -X
    need(np.allclose(rot(d90, 0, 0) @ [0, 1, 0], [-1, 0, 0]), "yaw")
    # pitch = CCW about the (resulting) +X axis => forward tips up
    need(np.allclose(rot(0, d90, 0) @ [0, 1, 0], [0, 0, 1]), "pitch")
    # roll = CCW about the (resulting) +Y axis => the right-hand side (+X) dips down
    need(np.allclose(rot(0, 0, d90) @ [1, 0, 0], [0, 0, -1]), "roll")
    # intrinsic composition: yaw 90 then pitch 90 about the *new* X axis: forward still ends up
    need(np.allclose(rot(d90, d90, 0) @ [0, 1, 0], [0, 0, 1]), "intrinsic yaw-pitch")
    # ... and the local X axis (new right) points along world +Y
    need(np.allclose(rot(d90, d90, 0) @ [1, 0, 0], [0, 1, 0]), "intrinsic yaw-pitch x")
    need(np.allclose(rot(d90, 0, d90) @ [1, 0, 0], [0, 0, -1]), "intrinsic yaw-roll")
    try:
        from scipy.spatial.transform import Rotation

        rs = np.random.RandomState(17)
        for _ in range(100):
            y, p, r = rs.uniform(-math.pi, math.pi, 3)
            M = Rotation.from_euler("ZXY", [y, p, r]).as_matrix()
            need(np.allclose(M, rot(y, p, r), atol=1e-12), "scipy ZXY")
            need(np.allclose(rot(*euler_of(M)), M, atol=1e-9), "euler_of")
    except ImportError:
        pass
    need(np.allclose(direction(d90, 0), [-1, 0, 0]) and np.allclose(direction(0, d90), [0, 0, 1]),
         "direction")
    # viewer at (30,40,5) facing -X (yaw 90), 40x40 degrees, 50 m
    V = View([30, 40, 5], rot(d90, 0, 0), math.radians(40), math.radians(40), 50)
    need(V.classify([10, 40, 5]) == "in", "ahead")
    need(V.classify([50, 40, 5]) == "out", "behind")
    need(V.classify([10, 40, 5 + 20 * math.tan(math.radians(19))]) == "in", "alt 19")
    need(V.classify([10, 40, 5 + 20 * math.tan(math.radians(21))]) == "out", "alt 21")
    need(V.classify([10, 40 - 20 * math.tan(math.radians(19)), 5]) == "in", "az 19")
    need(V.classify([10, 40 - 20 * math.tan(math.radians(21)), 5]) == "out", "az 21")
    need(V.classify([10, 40 - 20 * math.tan(math.radians(20)), 5]) == "near", "az 20")
    need(V.classify([-19.9, 40, 5]) == "in" and V.classify([-20.1, 40, 5]) == "out", "dist")
    need(V.classify([-20, 40, 5]) == "near", "dist edge")
    # pitched viewer: facing up by 30 deg
    V2 = View([1, 2, 3], rot(0, math.radians(30), 0), math.radians(20), math.radians(20), 100)
    need(V2.classify([1, 2 + 10 * math.cos(math.radians(30)), 3 + 10 * math.sin(math.radians(30))])
         == "in", "pitched ahead")
    need(V2.classify([1, 12, 3]) == "out", "pitched horizon")
    # wide view: 300 deg sees everything but a 60 deg wedge behind
    V3 = View([0, 0, 0], np.eye(3), math.radians(300), math.pi, 10)
    need(V3.classify([0, -5, 0]) == "out" and V3.classify([3, -3, 0]) == "in", "wide")
    need(V3.classify([0, 0, 5]) == "near", "pole")
    # spheres
    need(V.sphere([10, 40, 5], 1.0) == "inside", "sphere inside")
    need(V.sphere([50, 40, 5], 5.0) == "outside", "sphere behind")
    need(V.sphere([-25, 40, 5], 4.0) == "outside", "sphere far")
    need(V.sphere([10, 40 - 20 * math.tan(math.radians(20)), 5], 1.0) is None, "sphere edge")
    need(V.sphere([10, 40, 5 + 20 * math.tan(math.radians(26))], 1.0) == "outside", "sphere above")
    need(V.sphere([10, 40, 5 + 20 * math.tan(math.radians(22))], 1.0) is None, "sphere above edge")
    # solid: unit cube as a box of dims (2,4,6) rotated by yaw 90 at (10,0,0)
    cube_v = np.array([[x, y, z] for x in (-.5, .5) for y in (-.5, .5) for z in (-.5, .5)])
    cube_f = np.array([[0, 1, 3], [0, 3, 2], [4, 7, 5], [4, 6, 7], [0, 5, 1], [0, 4, 5],
                       [2, 3, 7], [2, 7, 6], [0, 2, 6], [0, 6, 4], [1, 5, 7], [1, 7, 3]])
    S = Solid(cube_v, cube_f, (2, 4, 6), rot(d90, 0, 0), (10, 0, 0))
    need(abs(S.r_in - 1.0) < 1e-12 and abs(S.r_bound - math.sqrt(56) / 2) < 1e-12, "radii")
    need(S.contains([11.9, 0.9, 2.9]) and not S.contains([12.1, 0, 0]), "contains (x half = 2)")
    need(not S.contains([10, 1.1, 0]), "contains (y half = 1)")
    need(S.segment([0, 0, 0], [20, 0, 0]) == "hit", "seg hit")
    need(S.segment([0, 0, 0], [7.9, 0, 0]) == "miss", "seg short")
    need(S.segment([0, 1.5, 0], [20, 1.5, 0]) == "miss", "seg beside")
    need(S.segment([0, 1.0, 0], [20, 1.0, 0]) == "near", "seg grazing")
    need(S.segment([0, 0, 0], [8.0, 0, 0]) == "near", "seg touching")
    # cover certificate: wall 2x4x6 seen from the origin; target ball at (30,0,0)
    need(S.covers_cone([0, 0, 0], [30, 0, 0], 1.0), "covers")
    need(not S.covers_cone([0, 0, 0], [30, 0, 0], 4.0), "not covers (ball too wide)")
    need(not S.covers_cone([0, 0, 0], [30, 3.5, 0], 0.5), "not covers (off axis)")
    need(not S.covers_cone([0, 0, 0], [9, 0, 0], 1.5), "not covers (target in front)")
    need(cone_disjoint([0, 0, 0], [30, 0, 0], 1.0, [10, 8, 0], 2.0), "disjoint beside")
    need(not cone_disjoint([0, 0, 0], [30, 0, 0], 1.0, [10, 2, 0], 2.0), "not disjoint")
    need(cone_disjoint([0, 0, 0], [10, 0, 0], 1.0, [30, 0, 0], 5.0), "disjoint behind")
    need(abs(ray_spacing({"mode": "density", "d": 5.0}, 1, 1, 10) - math.radians(0.2)) < 1e-12,
         "spacing")
    need(abs(ray_spacing({"mode": "density", "d": 5.0, "scale": True}, 1, 1, 10)
             - math.radians(0.02)) < 1e-12, "spacing scaled")
    need(abs(ray_spacing({"mode": "count", "c": [100, 50]}, 2.0, 0.5, 10) - 0.02) < 1e-12,
         "spacing count")
    _checked = True
