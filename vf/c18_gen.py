"""Program IR, Hypothesis strategies and the Scenic emitter for the C18 check.

A *program* is plain JSON:

    {"mode2D": bool, "modular": bool, "model": bool, "ovr": {name: value},
     "stmts": [...static statements...], "dyn": None | {...}}

Static statements
    ["let", name, E]            name = E
    ["param", name, E]          param name = E
    ["req", name, op, const]    require name op const   (always satisfiable, see `programs`)
    ["obj", {...}]              new <cls> ...           (see emit_obj)
    ["mutate", [names] | None, scale | None]

Expressions E (every built-in primitive distribution and every value type they produce)
    ["c", const]  ["v", name]  ["range", E, E]  ["normal", E, c]  ["tnormal", E, c, c, c]
    ["drange", int, int]  ["uni", [E...]]  ["disc", [[E, w]...]]  ["bigopts", n]
    ["staruni", name]  ["bin", op, E, E]  ["neg", E]  ["call", "pyfun", [E, E]]
    ["tup", [E...]]  ["list", [E...]]  ["idx", name, k]  ["vec", [E, E(, E)]]
    ["vecop", ["vec"...], ["vec"...]]  ["resample", name]  ["color"]  ["pointin", R]
Regions R
    ["circ", [cx, cy], E]  ["rect", [cx, cy], E, E, E]  ["box", [a, b, c], [x, y, z]]
    ["pline", [[x, y]...]]
"""

from __future__ import annotations

from hypothesis import strategies as st

# integers at the codec boundaries of serialization.writeInt (1 / 3 / 5 / 2+n byte forms)
INT_BOUNDS = [252, 253, 0, -1, 32767, 32768, -32768, -32769, 2 ** 31 - 1, 2 ** 31,
              -2 ** 31, -2 ** 31 - 1, 2 ** 63 - 1, 2 ** 63, -2 ** 63, -2 ** 63 - 1,
              2 ** 64, 2 ** 200, -2 ** 200, 2 ** 1000, -2 ** 1000, 2 ** 1023 - 2, 255, 256, 65535,
              65536, -255, -256]

CONSTS = [0, 1, 2, -1, 3, 0.5, -0.5, 1.5, 0.25, 2.0, -2.0, 10, 7]
STRS = ["a", "bb", "", "zoggle", "é中", "x y"]


def pc(c):
    if isinstance(c, int) and not isinstance(c, bool) and abs(c) > 2 ** 70:
        # keep the source short (the parser costs ~1 ms per character)
        k = abs(c).bit_length() - 1
        r = abs(c) - 2 ** k
        if r > 2 ** (k - 1):
            k += 1
            r = abs(c) - 2 ** k
        t = f"2**{k}" + (f"+{r}" if r > 0 else f"-{-r}" if r < 0 else "")
        return f"-({t})" if c < 0 else f"({t})"
    return repr(c)


def pe(e, m2d=False):
    k = e[0]
    if k == "c":
        return pc(e[1])
    if k == "v":
        return e[1]
    if k == "range":
        return f"Range({pe(e[1])}, {pe(e[2])})"
    if k == "normal":
        return f"Normal({pe(e[1])}, {pc(e[2])})"
    if k == "tnormal":
        return f"TruncatedNormal({pe(e[1])}, {pc(e[2])}, {pc(e[3])}, {pc(e[4])})"
    if k == "drange":
        return f"DiscreteRange({pc(e[1])}, {pc(e[2])})"
    if k == "uni":
        return "Uniform(" + ", ".join(pe(x, m2d) for x in e[1]) + ")"
    if k == "disc":
        return "Discrete({" + ", ".join(f"{pe(x, m2d)}: {w!r}" for x, w in e[1]) + "})"
    if k == "bigopts":
        # index distribution concentrated on the last options: crosses the 252/253 boundary
        n = e[1]
        return ("Discrete({_i * 3: (40 if _i >= 250 else 1) for _i in range(%d)})" % n)
    if k == "staruni":
        return f"Uniform(*{e[1]})"
    if k == "bin":
        a, b = pe(e[2], m2d), pe(e[3], m2d)
        if e[2][0] in ("bin", "neg", "vecop"):
            a = f"({a})"
        if e[3][0] in ("bin", "neg", "vecop") or b.startswith("-"):
            b = f"({b})"
        return f"{a} {e[1]} {b}"
    if k == "neg":
        a = pe(e[1], m2d)
        return f"-({a})" if e[1][0] in ("bin", "neg") or a.startswith("-") else f"-{a}"
    if k == "call":
        return f"{e[1]}(" + ", ".join(pe(x, m2d) for x in e[2]) + ")"
    if k == "tup":
        return "(" + "".join(pe(x, m2d) + ", " for x in e[1]) + ")"
    if k == "list":
        return "[" + ", ".join(pe(x, m2d) for x in e[1]) + "]"
    if k == "idx":
        return f"{e[1]}[{e[2]}]"
    if k == "vec":
        xs = e[1][:2] if m2d else e[1]
        if len(xs) == 2:
            return f"({pe(xs[0], m2d)} @ {pe(xs[1], m2d)})"
        return "Vector(" + ", ".join(pe(x, m2d) for x in xs) + ")"
    if k == "vecop":
        return f"{pe(e[1], m2d)} + {pe(e[2], m2d)}"
    if k == "resample":
        return f"resample({e[1]})"
    if k == "color":
        return "Color.defaultCarColor()"
    if k == "pointin":
        return f"(new Point in {pr(e[1], m2d)}).position"
    raise ValueError(k)


def pr(r, m2d=False):
    k = r[0]
    if k == "circ":
        return f"CircularRegion(({pc(r[1][0])}, {pc(r[1][1])}), {pe(r[2])})"
    if k == "rect":
        return (f"RectangularRegion(({pc(r[1][0])}, {pc(r[1][1])}), {pe(r[2])}, {pe(r[3])}, "
                f"{pe(r[4])})")
    if k == "box":
        if m2d:
            return f"RectangularRegion(({pc(r[2][0])}, {pc(r[2][1])}), 0, {pc(r[1][0])}, {pc(r[1][1])})"
        return (f"BoxRegion(dimensions=({pc(r[1][0])}, {pc(r[1][1])}, {pc(r[1][2])}), "
                f"position=({pc(r[2][0])}, {pc(r[2][1])}, {pc(r[2][2])}))")
    if k == "pline":
        return "PolylineRegion([" + ", ".join(f"({pc(x)}, {pc(y)})" for x, y in r[1]) + "])"
    raise ValueError(k)


def emit_obj(o, m2d, indent=""):
    parts = []
    if o.get("region") is not None:
        parts.append(f"in {pr(o['region'], m2d)}")
    else:
        pos = o["pos"][:2] if m2d else o["pos"]
        parts.append("at (" + ", ".join(pe(x) for x in pos) + ")")
    if o.get("facing") is not None:
        f = o["facing"]
        if m2d or len(f) == 1:
            parts.append(f"facing {pe(f[0])}")
        else:
            parts.append("facing (" + ", ".join(pe(x) for x in f) + ")")
    for name, e in o.get("props", []):
        parts.append(f"with {name} {pe(e, m2d)}")
    if o.get("behavior"):
        b = o["behavior"]
        parts.append(f"with behavior {b[0]}(" + ", ".join(pe(x, m2d) for x in b[1]) + ")")
    parts.append("with allowCollisions True")
    parts.append("with requireVisible False")
    head = f"{o['name']} = new {o['cls']} "
    text = indent + head + (",\n" + indent + "    ").join(parts)
    if o.get("ego"):
        text += f"\n{indent}ego = {o['name']}"
    return text


LIB_HEADER = "from vf.c18_lib import *\nfrom scenic.simulators.utils.colors import Color\n"

CLASS_DEFS = '''class Foo(Object):
    bar[dynamic]: 3
    fl[dynamic]: 0.25
    tag[dynamic]: "s"
    width: 0.5
'''


def emit_body(body, ind):
    out = []
    for s in body:
        k = s[0]
        if k == "take":
            out.append(ind + "take " + ", ".join(pe(x) for x in s[1]))
        elif k == "wait":
            out.append(ind + "wait")
        elif k == "let":
            out.append(ind + f"{s[1]} = {pe(s[2])}")
        elif k == "loop":
            out.append(ind + f"for _k{len(ind)} in range({s[1]}):")
            out.extend(emit_body(s[2], ind + "    "))
        elif k == "forever":
            out.append(ind + "while True:")
            out.extend(emit_body(s[1], ind + "    "))
        elif k == "if":
            out.append(ind + f"if {pe(s[1])} {s[2]} {pc(s[3])}:")
            out.extend(emit_body(s[4], ind + "    "))
            if s[5]:
                out.append(ind + "else:")
                out.extend(emit_body(s[5], ind + "    "))
        elif k == "choose" or k == "shuffle":
            if s[2]:  # weighted
                out.append(ind + f"do {k} {{" + ", ".join(
                    f"{n}({pe(a)}): {w!r}" for (n, a), w in zip(s[1], s[2])) + "}")
            else:
                out.append(ind + f"do {k} " + ", ".join(f"{n}({pe(a)})" for n, a in s[1]))
        elif k == "do":
            out.append(ind + f"do {s[1]}({pe(s[2])})")
        elif k == "dofor":
            out.append(ind + f"do {s[1]}({pe(s[2])}) for {s[3]} steps")
        elif k == "softreq":
            out.append(ind + f"require[{s[1]!r}] {pe(s[2])} {s[3]} {pc(s[4])}")
        elif k == "terminate":
            out.append(ind + "terminate")
        elif k == "termsim":
            out.append(ind + "terminate simulation")
        else:
            raise ValueError(k)
    return out


def emit(prog, variant=None):
    """Scenic source of a program.  `variant` = None or ("ast", k): the k-th numeric constant of
    the first Range is changed (a different AST, same shape)."""
    m2d = prog["mode2D"]
    lines = [LIB_HEADER]
    if prog.get("model"):
        lines.append("model vf.c18_model_a")
        lines.append("param modelk = MODELK")
    lines.append(CLASS_DEFS)
    ind = ""
    dyn = prog.get("dyn")
    if dyn:
        for b in dyn["behaviors"]:
            lines.append(f"behavior {b['name']}({', '.join(b['params'])}):")
            lines.extend(emit_body(b["body"], "    "))
        for mo in dyn["monitors"]:
            lines.append(f"monitor {mo['name']}():")
            lines.extend(emit_body(mo["body"], "    "))
    static, kinds = [], []

    def add(kind, text):
        kinds.append(kind)
        static.append(text)

    for s in prog["stmts"]:
        k = s[0]
        if k == "let":
            add("let", f"{s[1]} = {pe(s[2], m2d)}")
        elif k == "param":
            add("param", f"param {s[1]} = {pe(s[2], m2d)}")
        elif k == "req":
            add("req", f"require {s[1]} {s[2]} {pc(s[3])}")
        elif k == "obj":
            add("obj", emit_obj(s[1], m2d))
        elif k == "mutate":
            t = "mutate" + (" " + ", ".join(s[1]) if s[1] else "")
            if s[2] is not None:
                t += f" by {pc(s[2])}"
            add("mutate", t)
        else:
            raise ValueError(k)
    if dyn:
        for mo in dyn["monitors"]:
            add("dyn", f"require monitor {mo['name']}()")
        for i, (kind, e) in enumerate(dyn["records"]):
            kw = {"series": "record", "initial": "record initial", "final": "record final"}[kind]
            add("dyn", f"{kw} {pe(e)} as rec{i}")
        if dyn.get("term_after") is not None:
            add("dyn", f"terminate after {dyn['term_after']} steps")
        if dyn.get("term_when") is not None:
            add("dyn", f"terminate when simulation().currentTime >= {dyn['term_when']}")
    # a constant that is the only difference between a program and its "ast" variant
    add("let", f"astpad = {variant[1] if variant and variant[0] == 'ast' else 0}")
    if prog.get("modular"):
        # globals and params stay at top level; objects, requirements etc. move into Main's
        # setup block; a second scenario gives `scenario=` something to select
        top = [t for t, st_ in zip(static, kinds) if st_ in ("let", "param")]
        inner = [t for t, st_ in zip(static, kinds) if st_ not in ("let", "param")]
        lines.extend(top)
        lines.append("scenario Main():")
        lines.append("    setup:")
        for t in inner:
            lines.extend("        " + u for u in t.split("\n"))
        lines.append("scenario Alt():")
        lines.append("    setup:")
        lines.append("        ego = new Object at (5, 5), with requireVisible False")
    else:
        lines.extend(static)
    return "\n".join(lines) + "\n"


# ----------------------------------------------------------------------------------------------
# Strategies
# ----------------------------------------------------------------------------------------------

def _const_num(draw):
    return ["c", draw(st.sampled_from(CONSTS))]


@st.composite
def programs(draw, dynamic=None):
    """A program of the C18 fragment.  dynamic=None: either; True/False: forced."""
    m2d = draw(st.sampled_from([False, False, True]))
    want_dyn = draw(st.booleans()) if dynamic is None else dynamic
    counter = [0]
    nums = []  # names of numeric variables
    prims = []  # names bound directly to a primitive distribution (resample-able)
    tups = []  # (name, length) of tuple-valued random variables
    stmts = []

    def fresh(p="x"):
        counter[0] += 1
        return f"{p}{counter[0]}"

    def drange(ar=False):
        # inside arithmetic keep |value| < 2^65: int * float overflows beyond 2^1024 (plain
        # Python semantics, not the property under test)
        b = draw(st.sampled_from([x for x in INT_BOUNDS if abs(x) < 2 ** 65] if ar
                                 else INT_BOUNDS))
        lo = b - draw(st.integers(0, 2))
        hi = b + draw(st.integers(0, 2))
        return ["drange", lo, hi]

    def num(d, ar=False):
        """numeric (int or float valued) expression; ar = used as an operand of arithmetic"""
        ch = ["c", "range", "range", "normal", "tnormal", "drange", "drange"]
        if nums:
            ch += ["v", "v"]
        if d > 0:
            ch += ["uni", "disc", "bin", "bin", "neg", "call", "nrange", "bigopts"]
            if prims:
                ch += ["resample"]
            if tups:
                ch += ["idx", "staruni"]
        k = draw(st.sampled_from(ch))
        if k == "c":
            return _const_num(draw)
        if k == "v":
            return ["v", draw(st.sampled_from(nums))]
        if k == "range":
            lo = draw(st.sampled_from([-2.0, -1, 0, 0.5, 1, 3]))
            return ["range", ["c", lo], ["c", lo + draw(st.sampled_from([0.5, 1, 2, 4.5]))]]
        if k == "nrange":  # bounds themselves random (nested, never encoded themselves)
            lo = num(d - 1, True)
            return ["range", lo, ["bin", "+", lo, ["c", draw(st.sampled_from([1, 2.5]))]]]
        if k == "normal":
            mean = num(d - 1, True) if d > 0 and draw(st.booleans()) else _const_num(draw)
            return ["normal", mean, draw(st.sampled_from([0.5, 1, 2.0]))]
        if k == "tnormal":
            m = draw(st.sampled_from([0, 1.5, -2]))
            return ["tnormal", ["c", m], draw(st.sampled_from([0.5, 1.0])), m - 1, m + 2]
        if k == "drange":
            return drange(ar)
        if k == "bigopts":
            return ["bigopts", draw(st.sampled_from([254, 256, 260]))]
        if k == "uni":
            if nums and draw(st.integers(0, 2)) == 0:
                # options with equal values but different payloads: a variable, and a nested
                # choice between the same variable and a fresh distribution
                v = ["v", draw(st.sampled_from(nums))]
                return ["uni", [v, ["uni", [v, ["range", ["c", 0], ["c", 1]]]], drange(ar)]]
            n = draw(st.integers(1, 4))
            return ["uni", [num(d - 1, ar) for _ in range(n)]]
        if k == "disc":
            n = draw(st.integers(2, 3))
            return ["disc", [[num(d - 1, ar), draw(st.sampled_from([1, 2, 0.5, 3]))]
                             for _ in range(n)]]
        if k == "bin":
            return ["bin", draw(st.sampled_from(["+", "-", "*"])), num(d - 1, True),
                    num(d - 1, True)]
        if k == "neg":
            return ["neg", num(d - 1, ar)]
        if k == "call":
            return ["call", "pyfun", [num(d - 1, True), num(d - 1, True)]]
        if k == "resample":
            return ["resample", draw(st.sampled_from(prims))]
        if k == "idx":
            name, ln = draw(st.sampled_from(tups))
            return ["idx", name, draw(st.integers(0, ln - 1))]
        if k == "staruni":
            return ["staruni", draw(st.sampled_from(tups))[0]]
        raise AssertionError(k)

    def small(d):
        """bounded numeric expression (|value| small): for poses and region parameters"""
        k = draw(st.sampled_from(["c", "range", "range", "uni", "tnormal"] + (["bin"] if d else [])))
        if k == "c":
            return ["c", draw(st.sampled_from([0, 1, 2.5, -3, 0.5]))]
        if k == "range":
            lo = draw(st.sampled_from([-2.0, 0, 0.5, 1]))
            return ["range", ["c", lo], ["c", lo + draw(st.sampled_from([0.5, 1, 2]))]]
        if k == "uni":
            return ["uni", [small(0) for _ in range(draw(st.integers(2, 3)))]]
        if k == "tnormal":
            return ["tnormal", ["c", 0], 1.0, -1, 2]
        return ["bin", draw(st.sampled_from(["+", "-"])), small(d - 1), small(d - 1)]

    def positive():
        k = draw(st.sampled_from(["c", "range", "uni"]))
        if k == "c":
            return ["c", draw(st.sampled_from([1, 2.5, 4]))]
        if k == "range":
            lo = draw(st.sampled_from([0.5, 1, 2]))
            return ["range", ["c", lo], ["c", lo + draw(st.sampled_from([0.5, 2]))]]
        return ["uni", [["c", 1], ["c", 2.5], ["range", ["c", 3], ["c", 4]]]]

    def region():
        k = draw(st.sampled_from(["circ", "rect", "box", "pline"]))
        c2 = [draw(st.sampled_from([0, 5, -7.5])), draw(st.sampled_from([0, 3, -4]))]
        if k == "circ":
            return ["circ", c2, positive()]
        if k == "rect":
            return ["rect", c2, small(0), positive(), positive()]
        if k == "box":
            return ["box", [2, 3, draw(st.sampled_from([1, 4]))], c2 + [draw(st.sampled_from([0, 2.5]))]]
        return ["pline", [[0, 0], [5, draw(st.sampled_from([5, -2]))], [10, 0]]]

    def anyv(d, hashable=False):
        """expression of arbitrary value type (options with unequal payload types)"""
        ch = ["num", "num", "str", "bool", "none", "vec", "vecop", "color", "pointin"]
        if d > 0:
            ch += ["tup", "uni", "uni", "disc"] + ([] if hashable else ["list"])
        k = draw(st.sampled_from(ch))
        if k == "num":
            return num(d)
        if k == "str":
            return ["c", draw(st.sampled_from(STRS))]
        if k == "bool":
            return ["c", draw(st.booleans())]
        if k == "none":
            return ["c", None]
        if k == "vec":
            return ["vec", [small(0), small(0), small(0)]]
        if k == "vecop":
            return ["vecop", ["vec", [small(0), small(0), small(0)]],
                    ["vec", [["c", 1], small(0), ["c", 0]]]]
        if k == "color":
            return ["color"]
        if k == "pointin":
            return ["pointin", region()]
        if k == "tup":
            return ["tup", [anyv(d - 1, hashable) for _ in range(draw(st.integers(1, 3)))]]
        if k == "list":
            return ["list", [anyv(d - 1) for _ in range(draw(st.integers(0, 3)))]]
        if k == "uni":
            return ["uni", [anyv(d - 1, hashable) for _ in range(draw(st.integers(2, 4)))]]
        if k == "disc":
            return ["disc", [[anyv(d - 1, True), draw(st.sampled_from([1, 2, 0.5]))]
                             for _ in range(draw(st.integers(2, 3)))]]
        raise AssertionError(k)

    # ---- static part ---------------------------------------------------------------------
    nlets = draw(st.integers(1, 2 if want_dyn else 4))
    for _ in range(nlets):
        k = draw(st.sampled_from(["num", "num", "prim", "prim", "tup", "any", "shared"]))
        if k == "shared" and not nums:
            k = "prim"
        if k == "shared":
            # options with equal values but different payloads: a variable, and a nested
            # choice between the same variable and a fresh distribution
            v = ["v", draw(st.sampled_from(nums))]
            name = fresh()
            stmts.append(["let", name, ["uni", [v, ["uni", [v, ["range", ["c", 0], ["c", 1]]]],
                                               drange()]]])
            nums.append(name)
        elif k == "num":
            name = fresh()
            stmts.append(["let", name, num(draw(st.integers(0, 1)))])
            nums.append(name)
        elif k == "prim":
            name = fresh()
            e = draw(st.sampled_from(["range", "normal", "drange", "uni"]))
            if e == "range":
                ex = ["range", ["c", 0], ["c", draw(st.sampled_from([1, 2.5]))]]
            elif e == "normal":
                ex = ["normal", ["c", 1], 0.5]
            elif e == "drange":
                ex = drange()
            else:
                ex = ["uni", [["c", 1], ["c", 2.5], ["range", ["c", 3], ["c", 4]]]]
            stmts.append(["let", name, ex])
            nums.append(name)
            prims.append(name)
        elif k == "tup":
            name = fresh("t")
            n1, n2 = draw(st.integers(1, 3)), draw(st.integers(1, 3))
            stmts.append(["let", name, ["uni", [["tup", [num(1) for _ in range(n1)]],
                                                ["tup", [num(1) for _ in range(n2)]]]]])
            tups.append((name, min(n1, n2)))
        else:
            stmts.append(["let", fresh("a"), anyv(1)])
    nobj = draw(st.integers(1, 2 if want_dyn else 3))
    objnames = []
    for i in range(nobj):
        name = f"o{i}"
        objnames.append(name)
        o = {"name": name, "ego": i == 0, "cls": draw(st.sampled_from(["Object", "Foo"]))}
        if draw(st.integers(0, 3)) == 0:
            o["region"] = region()
        else:
            o["pos"] = [["bin", "+", ["c", 20 * i], small(0)], small(1), small(0)]
        f = draw(st.integers(0, 3))
        if f == 1:
            o["facing"] = [small(0)]
        elif f == 2:
            o["facing"] = [small(0), small(0), small(0)]
        props = []
        for j in range(draw(st.integers(0, 1 if want_dyn else 2))):
            props.append([f"p{j}", anyv(1)])
        if draw(st.integers(0, 3)) == 0:
            props.append(["width", positive()])
        if draw(st.integers(0, 4)) == 0:
            props.append(["color", ["color"]])
        o["props"] = props
        stmts.append(["obj", o])
    nparams = draw(st.integers(1, 1 if want_dyn else 3))
    for j in range(nparams):
        stmts.append(["param", f"q{j}", anyv(draw(st.integers(1, 2)))])
    if nums:
        stmts.append(["param", "allnums", ["tup", [["v", n] for n in nums[-4:]]]])
    if nums and draw(st.integers(0, 2)) == 0:
        # a random value used on its own first and then as one option of a later choice
        # (decoded before the choice is reached), next to an option that is new
        v = ["v", draw(st.sampled_from(nums))]
        fresh_opt = ["range", ["c", 5], ["c", 6]]
        stmts.append(["param", "sh0", v])
        if draw(st.booleans()):
            stmts.append(["param", "sh1", ["uni", [v, fresh_opt]]])
        else:
            stmts.append(["param", "sh1", ["disc", [[v, 3], [fresh_opt, 1]]]])
        stmts.append(["param", "sh2", ["range", ["c", 10], ["c", 11]]])
    if nums and draw(st.booleans()):
        # a requirement that always holds: the value it mentions is encoded even if nothing
        # else refers to it
        name = fresh()
        stmts.append(["let", name, ["range", ["c", 0], ["c", 1]]])
        stmts.append(["req", name, "<", 5])
    mut = draw(st.sampled_from([9] * 14 + [0, 1]))
    if mut == 0:
        stmts.append(["mutate", None, draw(st.sampled_from([None, 2, 0.5]))])
    elif mut == 1:
        stmts.append(["mutate", [draw(st.sampled_from(objnames))], None])

    prog = {"mode2D": m2d, "modular": draw(st.integers(0, 3)) == 0,
            "model": draw(st.integers(0, 3)) == 0, "ovr": {}, "stmts": stmts, "dyn": None}
    if draw(st.integers(0, 2)) == 0:
        # override a param from outside (becomes a compile option)
        # (also "empty" values: an override is an override whatever its truth value)
        prog["ovr"] = {"q0": draw(st.sampled_from([1, 2.5, "s", True, 0, 0.0, False, "", None]))}

    if not want_dyn:
        return prog

    # ---- dynamic part --------------------------------------------------------------------
    def rnum(d, locs, ar=False):
        """numeric expression evaluated at run time (random values drawn immediately)"""
        ch = ["c", "range", "normal", "drange", "uni", "disc", "tnormal"]
        if locs:
            ch += ["v", "v"]
        if nums:
            ch += ["glob"]
        if d > 0:
            ch += ["bin", "call", "nrange"]
        k = draw(st.sampled_from(ch))
        if k == "c":
            return _const_num(draw)
        if k == "v":
            return ["v", draw(st.sampled_from(locs))]
        if k == "glob":
            return ["v", draw(st.sampled_from(nums))]
        if k == "range":
            lo = draw(st.sampled_from([-1, 0, 0.5, 2]))
            return ["range", ["c", lo], ["c", lo + draw(st.sampled_from([0.5, 1, 3]))]]
        if k == "nrange":
            lo = rnum(d - 1, locs, True)
            return ["range", lo, ["bin", "+", lo, ["c", 2]]]
        if k == "normal":
            return ["normal", _const_num(draw), draw(st.sampled_from([0.5, 1]))]
        if k == "tnormal":
            return ["tnormal", ["c", 0], 1.0, -1, 2]
        if k == "drange":
            return drange(ar)
        if k == "uni":
            return ["uni", [rnum(d - 1, locs, ar) if d > 0 else _const_num(draw)
                            for _ in range(draw(st.integers(2, 4)))]]
        if k == "disc":
            return ["disc", [[_const_num(draw), 1], [["c", 4.5], 2],
                             [["range", ["c", 0], ["c", 1]], 0.5]]]
        if k == "bin":
            return ["bin", draw(st.sampled_from(["+", "-", "*"])), rnum(d - 1, locs, True),
                    rnum(d - 1, locs, True)]
        if k == "call":
            return ["call", "pyfun", [rnum(d - 1, locs, True), rnum(d - 1, locs, True)]]
        raise AssertionError(k)

    def rany(d, locs):
        k = draw(st.sampled_from(["num", "num", "str", "tup", "vec", "action", "mixed"]))
        if k == "num":
            return rnum(d, locs)
        if k == "mixed":  # options with unequal payload types, chosen at run time
            return ["uni", [["c", draw(st.sampled_from(STRS))], rnum(0, locs),
                            ["list", [rnum(0, locs), ["c", 1]]]]]
        if k == "str":
            return ["c", draw(st.sampled_from(STRS))]
        if k == "tup":
            return ["list", [rnum(0, locs), ["c", draw(st.sampled_from(STRS))]]]
        if k == "vec":
            return ["vec", [rnum(0, locs, True), rnum(0, locs, True), ["c", 0]]]
        if draw(st.booleans()):
            return ["call", "SetVel", [rnum(0, locs, True), rnum(0, locs, True)]]
        return ["call", "Spin", [rnum(0, locs, True)]]

    subnames = []

    def body(d, locs, subs, top=False):
        out = []
        n = draw(st.integers(1, 3))
        for _ in range(n):
            ch = ["take", "take", "take", "wait", "let"]
            if d > 0:
                ch += ["loop", "if", "softreq"]
                if subs:
                    ch += ["choose", "shuffle", "do", "dofor"]
            k = draw(st.sampled_from(ch))
            if k == "take":
                out.append(["take", [rany(1, locs)] + ([rany(0, locs)] if draw(st.integers(0, 3)) == 0 else [])])
            elif k == "wait":
                out.append(["wait"])
            elif k == "let":
                name = fresh("l")
                out.append(["let", name, rnum(1, locs, True)])
                locs = locs + [name]
            elif k == "loop":
                out.append(["loop", draw(st.integers(1, 3)),
                            body(d - 1, locs, subs) + [["take", [rany(1, locs)]]]])
            elif k == "if":
                out.append(["if", rnum(0, locs), draw(st.sampled_from(["<", ">="])),
                            draw(st.sampled_from([0, 0.5, 1])), body(d - 1, locs, subs),
                            body(d - 1, locs, subs) if draw(st.booleans()) else []])
            elif k == "softreq":
                out.append(["softreq", draw(st.sampled_from([0.5, 0.9])),
                            ["range", ["c", 0], ["c", 1]], "<", 0.8])
            elif k in ("choose", "shuffle"):
                m = draw(st.integers(2, 3))
                opts = [[draw(st.sampled_from(subs)), rnum(0, locs)] for _ in range(m)]
                w = [draw(st.sampled_from([1, 2, 0.5])) for _ in range(m)] \
                    if draw(st.booleans()) else None
                if w is not None and len({(o[0], repr(o[1])) for o in opts}) < m:
                    w = None  # dict keys must be distinct invocations; keep the list form
                out.append([k, opts, w])
            elif k == "do":
                out.append(["do", draw(st.sampled_from(subs)), rnum(0, locs)])
            elif k == "dofor":
                out.append(["dofor", draw(st.sampled_from(subs)), rnum(0, locs),
                            draw(st.integers(1, 3))])
        return out

    behaviors = []
    for i in range(draw(st.integers(0, 2))):
        name = f"S{i}"
        b = body(1, ["a"], [])
        if not any(s[0] in ("take", "wait") for s in b):
            b.append(["take", [["v", "a"]]])
        behaviors.append({"name": name, "params": ["a"], "body": b})
        subnames.append(name)
    nagents = 0
    for s in stmts:
        if s[0] == "obj" and (nagents == 0 or draw(st.booleans())):
            name = f"B{nagents}"
            nagents += 1
            b = body(2, ["x"], subnames, top=True)
            tail = draw(st.sampled_from(["forever", "forever", "end", "terminate", "termsim"]))
            if tail == "forever":
                b.append(["forever", [["take", [rany(1, ["x"])]]]])
            elif tail == "terminate":
                b.append(["take", [["c", 0]]])
                b.append(["terminate"])
            elif tail == "termsim":
                b.append(["take", [["c", 0]]])
                b.append(["termsim"])
            else:
                b.append(["take", [["c", 1]]])
            behaviors.append({"name": name, "params": ["x"], "body": b})
            s[1]["behavior"] = [name, [num(1)]]
    monitors = []
    if draw(st.booleans()):
        monitors.append({"name": "M0", "body": [["forever", [
            ["if", ["range", ["c", 0], ["c", 1]], "<", draw(st.sampled_from([0, 0.5])) / 4,
             [[draw(st.sampled_from(["terminate", "termsim"]))]], []],
            ["wait"]]]]})
    records = []
    for _ in range(draw(st.integers(0, 3))):
        kind = draw(st.sampled_from(["series", "initial", "final"]))
        e = draw(st.sampled_from([
            ["v", "ego.position"], ["v", "ego.bar if hasattr(ego, 'bar') else -1"],
            ["v", "ego.yaw"], ["v", "ego.velocity"], ["v", "simulation().currentTime"]]))
        records.append([kind, e])
    prog["dyn"] = {
        "behaviors": behaviors, "monitors": monitors, "records": records,
        "term_after": draw(st.sampled_from([None, None, 3, 6])),
        "term_when": draw(st.sampled_from([None, None, 4])),
        "maxSteps": draw(st.integers(2, 8)),
        "timestep": draw(st.sampled_from([1, 0.5, 0.25])),
        "maxIterations": draw(st.sampled_from([1, 1, 4])),
    }
    return prog


def features(prog):
    feats = set()

    def walk(e):
        if isinstance(e, list) and e and isinstance(e[0], str) and e[0] in KINDS:
            feats.add(e[0])
            for x in e[1:]:
                walk(x)
        elif isinstance(e, list):
            for x in e:
                walk(x)
        elif isinstance(e, dict):
            for x in e.values():
                walk(x)

    walk(prog["stmts"])
    if prog.get("dyn"):
        walk(prog["dyn"]["behaviors"])
        walk(prog["dyn"]["monitors"])
    return feats


KINDS = {"range", "normal", "tnormal", "drange", "uni", "disc", "bigopts", "staruni", "bin",
         "call", "tup", "list", "idx", "vec", "vecop", "resample", "color", "pointin", "circ",
         "rect", "box", "pline", "mutate", "req", "choose", "shuffle", "dofor", "softreq",
         "loop", "if"}
