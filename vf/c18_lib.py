"""Python helpers importable from generated Scenic programs (`from vf.c18_lib import *`).

Actions understood by the harness simulator `vf.c18_sim.HSimulator` plus a few plain Python
functions used as deterministic "user code" inside generated programs."""

from scenic.core.dynamics.actions import Action
from scenic.core.vectors import Vector

__all__ = ["SetVel", "Spin", "SetProp", "pyfun", "pytuple"]


class SetVel(Action):
    def __init__(self, x, y, z=0.0):
        self.x, self.y, self.z = float(x), float(y), float(z)

    def applyTo(self, agent, sim):
        sim.state[sim._index(agent)]["velocity"] = Vector(self.x, self.y, self.z)


class Spin(Action):
    def __init__(self, w):
        self.w = float(w)

    def applyTo(self, agent, sim):
        sim.state[sim._index(agent)]["angularSpeed"] = self.w


class SetProp(Action):
    def __init__(self, prop, value):
        self.prop, self.value = prop, value

    def applyTo(self, agent, sim):
        st = sim.state[sim._index(agent)]
        if self.prop in st:
            st[self.prop] = self.value


def pyfun(a, b=0):
    """Plain Python function of two numbers (exact for small dyadic inputs)."""
    return a * 2 + b


def pytuple(a, b):
    return (a, b, a)
