"""World model A for generated C18 programs (`model vf.c18_model_a`)."""
MODELK = 3
