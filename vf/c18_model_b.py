"""World model B: what `model=` overrides model A with in the C18 cross-decoding oracle."""
MODELK = 4
