"""Deterministic simulator owned by the harness (used by the C18 and C14 checks).

`HSimulator` keeps the physical state of every object *itself* (a dict per object, created in
`createObjectInSimulator` from the object's simulator-provided dynamic properties) and advances
it with exact, process independent arithmetic:

    position += velocity * timestep        angular: yaw += angularSpeed * timestep
    every user-defined dynamic property of type int is incremented by 1, of type float by 0.5

Actions may be arbitrary values (as with Scenic's DummySimulator); `Action` instances get their
`applyTo` called, tuples ("vel", x, y, z) / ("spin", w) / ("set", prop, value) are interpreted by
the simulator, anything else is only logged.

Two optional plans make it a test instrument:

* ``perturb = {"update": u, "obj": i, "prop": p, "delta": d}`` -- the value of property `p` of
  object number `i` *reported* by the u-th call of `getProperties` for that object is shifted by
  `d` (a number, a 3-list for vectors, or a replacement string).  The internal state is not
  changed, so exactly one reported value differs (C18 divergence oracle).
* ``drift = {"obj": i, "prop": p, "delta": d, "freeze_from": u0 | None}`` -- the value of property
  `p` of object `i` reported by its u-th update is ``true + d * u`` (a number, or a 3-list for
  vectors); with ``freeze_from = u0 >= 1`` every update ``u >= u0`` reports again exactly what
  update ``u0 - 1`` reported (the property is *stuck* as far as Scenic can see).  The internal
  state is not changed.  With ``keep_reports`` every reported dict is kept in ``reports`` as
  ``(object index, update number, {prop: value})`` (C18 oracle for stuck recordings / replays).
* ``faults`` -- an object with a method ``hit(site)``, called at the sites ``create``, ``step``,
  ``getProperties``, ``applyTo``; it may raise (C14 fault injection).
* ``observer`` -- callable invoked with the simulation at the start of every ``step()`` (after
  all scenarios, monitors and behaviors of the time step ran): C14 reads object properties as
  user code would see them.
"""

from __future__ import annotations

from scenic.core.dynamics.actions import Action
from scenic.core.simulators import Simulation, Simulator
from scenic.core.vectors import Vector


class HSimulator(Simulator):
    def __init__(self, perturb=None, faults=None, observer=None, create_assign=None,
                 none_value=None, drift=None, keep_reports=False):
        super().__init__()
        self.drift = drift
        self.keep_reports = keep_reports or drift is not None
        self.reports = []  # (object index, update number, reported values) of the last simulation
        self.frozen = None
        # {property: increment}: like real interfaces, the simulator may write (non-dynamic)
        # properties of an object while creating it -- before it can fail
        self.create_assign = create_assign or {}
        # what the simulator reports for dynamic properties whose Scenic default is None
        self.none_value = none_value
        self.perturb = perturb
        self.faults = faults
        self.observer = observer  # called with the simulation at the start of every step()
        self.log = []  # (kind, ...) events of the last simulation
        self.perturbed = 0  # how many reported values were actually shifted
        self.effects = []  # (true value, reported value) of every shifted report
        self.last = None  # last HSimulation created (also when it was rejected)

    def hit(self, site):
        if self.faults is not None:
            self.faults.hit(site)

    def createSimulation(self, scene, **kwargs):
        self.log = []
        self.reports = []
        self.frozen = None
        return HSimulation(scene, owner=self, **kwargs)


def _shift(value, delta):
    if isinstance(value, Vector):
        return value + Vector(*delta)
    if isinstance(value, str):
        return delta
    return value + delta


class HSimulation(Simulation):
    def __init__(self, scene, owner, **kwargs):
        self.owner = owner
        owner.last = self
        self.state = []
        self.updates = []
        super().__init__(scene, **kwargs)

    # -- helpers ---------------------------------------------------------------------------
    def _index(self, obj):
        for i, o in enumerate(self.objects):
            if o is obj:
                return i
        raise RuntimeError("object unknown to the harness simulator")

    # -- Simulation interface --------------------------------------------------------------
    def createObjectInSimulator(self, obj):
        for prop, inc in self.owner.create_assign.items():
            if hasattr(obj, prop):
                setattr(obj, prop, getattr(obj, prop) + inc)
        self.owner.hit("create")
        st = {}
        for prop in obj._simulatorProvidedProperties:
            st[prop] = getattr(obj, prop)
            if st[prop] is None and self.owner.none_value is not None:
                st[prop] = self.owner.none_value
        self.state.append(st)
        self.updates.append(0)
        self.owner.log.append(("create", len(self.state) - 1, type(obj).__name__))

    def actionsAreCompatible(self, agent, actions):
        return True

    def executeActions(self, allActions):
        for agent, actions in allActions.items():
            i = self._index(agent)
            for act in actions:
                self.owner.hit("applyTo")
                if isinstance(act, Action):
                    act.applyTo(agent, self)
                elif isinstance(act, tuple) and act and act[0] == "vel" and len(act) == 4:
                    self.state[i]["velocity"] = Vector(float(act[1]), float(act[2]),
                                                       float(act[3]))
                elif isinstance(act, tuple) and act and act[0] == "spin" and len(act) == 2:
                    self.state[i]["angularSpeed"] = float(act[1])
                elif isinstance(act, tuple) and act and act[0] == "set" and len(act) == 3 \
                        and act[1] in self.state[i]:
                    self.state[i][act[1]] = act[2]

    def step(self):
        if self.owner.observer is not None:
            self.owner.observer(self)
        self.owner.hit("step")
        dt = self.timestep
        for i, st in enumerate(self.state):
            builtin = builtin_dynamic()
            st["position"] = st["position"] + st["velocity"] * dt
            st["yaw"] = st["yaw"] + st["angularSpeed"] * dt
            for prop, val in st.items():
                if prop in builtin:
                    continue
                if isinstance(val, bool):
                    continue
                if isinstance(val, int):
                    st[prop] = val + 1
                elif isinstance(val, float):
                    st[prop] = val + 0.5
        self.owner.log.append(("step", self.currentTime))

    def getProperties(self, obj, properties):
        self.owner.hit("getProperties")
        i = self._index(obj)
        vals = {p: self.state[i][p] for p in properties}
        u = self.updates[i]
        self.updates[i] = u + 1
        pl = self.owner.perturb
        if pl is not None and pl["obj"] == i and pl["update"] == u and pl["prop"] in vals:
            orig = vals[pl["prop"]]
            vals[pl["prop"]] = _shift(orig, pl["delta"])
            self.owner.perturbed += 1
            self.owner.effects.append((orig, vals[pl["prop"]]))
        dr = self.owner.drift
        if dr is not None and dr["obj"] == i and dr["prop"] in vals:
            p, f0 = dr["prop"], dr.get("freeze_from")
            if f0 is not None and u >= f0:
                if self.owner.frozen is None:
                    raise RuntimeError("harness simulator: frozen value missing")
                vals[p] = self.owner.frozen[0]
            else:
                d = dr["delta"]
                vals[p] = _shift(vals[p], [c * u for c in d] if isinstance(d, list) else d * u)
                if f0 is not None and u == f0 - 1:
                    self.owner.frozen = (vals[p],)
        if self.owner.keep_reports:
            self.owner.reports.append((i, u, dict(vals)))
        return vals


_BUILTIN = None


def builtin_dynamic():
    """Names of the dynamic properties Scenic's own Object class asks the simulator for."""
    global _BUILTIN
    if _BUILTIN is None:
        import scenic.core.object_types as ot

        _BUILTIN = frozenset(ot.Object._simulatorProvidedProperties)
    return _BUILTIN
