"""Harness-owned mutable flags for generated C19 programs.

A generated program may start with

    from vf.c19_flags import FLAG, SETFLAG

`SETFLAG("f0", 1)` is an ordinary statement in the body of a sub-behaviour / compose block,
`FLAG("f0") == 1` an ordinary precondition.  Unlike the truth table of vf.tablesim (a function
of the time step only), a flag can change *within* one time step, namely when an item of a
`do shuffle` finishes without consuming a step.  The harness calls `reset()` before every
simulation; every flag starts at 0.
"""

from __future__ import annotations

FLAGS = {}


def reset():
    FLAGS.clear()


def FLAG(name):
    return FLAGS.get(name, 0)


def SETFLAG(name, value):
    FLAGS[name] = value
    return True
