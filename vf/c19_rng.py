"""Extension of vf.rngenum for C19: `random.random()` observed through *affine* images.

vf.rngenum.U refuses arithmetic, which is right for C01 (scene generation never scales a
uniform draw) but an implementation of a weighted discrete choice may legitimately compute
`random.random() * total` and then bisect a table of cumulative weights.  `AU` represents
a*u + b (a != 0, exact Fractions) of one underlying uniform draw u; every comparison with a
number is translated back into a comparison of u itself, i.e. into an exact choice point of
the enumerator.  Anything else (float(), products of two draws, ...) is still refused.
"""

from __future__ import annotations

import contextlib
import random as _random
from fractions import Fraction

from vf import rngenum


def _num(c):
    if isinstance(c, bool) or not isinstance(c, (int, float, Fraction)):
        raise rngenum.OutOfFragment("arithmetic between random.random() and a non-constant")
    return rngenum.frac(c)


class AU:
    __slots__ = ("u", "a", "b")
    __hash__ = None

    def __init__(self, u, a=Fraction(1), b=Fraction(0)):
        self.u, self.a, self.b = u, a, b

    def _below(self, p):  # a*u + b < p   (ties have probability zero)
        q = (_num(p) - self.b) / self.a
        return self.u._below(q) if self.a > 0 else not self.u._below(q)

    def __lt__(self, p):
        return self._below(p)

    __le__ = __lt__

    def __gt__(self, p):
        return not self._below(p)

    __ge__ = __gt__

    def __mul__(self, c):
        c = _num(c)
        if c == 0:
            return 0.0
        return AU(self.u, self.a * c, self.b * c)

    __rmul__ = __mul__

    def __truediv__(self, c):
        c = _num(c)
        return AU(self.u, self.a / c, self.b / c)

    def __add__(self, c):
        return AU(self.u, self.a, self.b + _num(c))

    __radd__ = __add__

    def __sub__(self, c):
        return AU(self.u, self.a, self.b - _num(c))

    def __rsub__(self, c):
        return AU(self.u, -self.a, _num(c) - self.b)

    def __neg__(self):
        return AU(self.u, -self.a, -self.b)

    def _bad(self, *a, **k):
        raise rngenum.OutOfFragment("non-affine use of random.random()")

    __float__ = __int__ = __index__ = __bool__ = __rtruediv__ = __pow__ = __eq__ = __ne__ = _bad
    __floordiv__ = __mod__ = __round__ = __abs__ = _bad


@contextlib.contextmanager
def patched_rng(en):
    with rngenum.patched_rng(en):
        inner = _random.random
        _random.random = lambda: AU(rngenum.U(en))
        try:
            yield en
        finally:
            _random.random = inner


def selftest():
    import bisect

    en = rngenum.Enumerator()
    cum = (1, 3, 4)
    with patched_rng(en):
        def f():
            x = _random.random() * (cum[-1] + 0.0)
            return bisect.bisect(cum, x, 0, len(cum) - 1)

        t = en.run(f)
    assert t == {0: Fraction(1, 4), 1: Fraction(1, 2), 2: Fraction(1, 4)}, t
    en = rngenum.Enumerator()
    with patched_rng(en):
        def g():
            u = _random.random()
            return (1 - u < 0.25, 2 * u + 1 >= 2)

        t = en.run(g)
    assert t == {(True, True): Fraction(1, 4), (False, True): Fraction(1, 4),
                 (False, False): Fraction(1, 2)}, t
    return True
