"""C20 oracle: consistency predicates over a built `Network`, written from the docstrings of
scenic.domains.driving.roads, the property statement and tests/domains/driving/test_network.py.

Nothing here calls the look-up machinery under test (findPointIn / elementAt / ...) to decide
what the right answer is: point/polygon distances are computed with shapely directly on the
element polygons, nearest centreline segments with numpy on the centreline vertices.

Every predicate returns a list of (predicate-name, detail-dict); the empty list = holds.
"""

from __future__ import annotations

import math

import numpy as np
import shapely
from shapely.geometry import Point as SPoint

EPS_D = 1e-7        # metres: distances below this are "touching" (not judged as in/out)
EPS_ANG = 1e-6      # radians: float rounding of atan2 on identical vertex data
SEG_TIE = 1e-6      # metres: centreline segments this close to the minimum distance all count
                    # as "nearest" (their headings are all acceptable tangents)


class Violations(list):
    def add(self, pred, **detail):
        self.append((pred, detail))


# ---------------------------------------------------------------------------------------------
# small helpers
# ---------------------------------------------------------------------------------------------

def uid(e):
    return None if e is None else getattr(e, "uid", repr(e))


def heading_of_segment(a, b):
    """Scenic heading (0 = +y, counter-clockwise positive) of the vector a->b.
    reference: LinearElement docstring 'direction from first to last point of centerline';
    Vector.angleTo convention documented in the language reference (heading 0 = North/+y)."""
    return normalize(math.atan2(b[1] - a[1], b[0] - a[0]) - math.pi / 2)


def normalize(a):
    while a > math.pi:
        a -= 2 * math.pi
    while a <= -math.pi:
        a += 2 * math.pi
    return a


def angdiff(a, b):
    return abs(normalize(a - b))


def polyline_vertices(pl):
    """(n,2) array of the vertices of a PolylineRegion which is a single chain, else None."""
    ls = pl.lineString
    if ls.geom_type != "LineString":
        return None
    return np.asarray(ls.coords)[:, :2]


def tangent_headings(verts, p, tie=SEG_TIE):
    """Headings of every centreline segment whose distance to p is within `tie` of the minimum,
    and that minimum distance."""
    a = verts[:-1]
    b = verts[1:]
    ab = b - a
    l2 = (ab * ab).sum(axis=1)
    ok = l2 > 0
    ap = np.asarray(p)[None, :] - a
    t = np.where(ok, (ap * ab).sum(axis=1) / np.where(ok, l2, 1.0), 0.0)
    t = np.clip(t, 0.0, 1.0)
    c = a + t[:, None] * ab
    d = np.hypot(c[:, 0] - p[0], c[:, 1] - p[1])
    d = np.where(ok, d, np.inf)
    dmin = d.min()
    idx = np.nonzero(d <= dmin + tie)[0]
    return [heading_of_segment(a[i], b[i]) for i in idx], float(dmin)


_CHECKED = [False]


def selfcheck_once():
    if not _CHECKED[0]:
        selfcheck()
        _CHECKED[0] = True


def selfcheck():
    """Hand-computed examples for the oracle's own geometry (raise on mismatch)."""
    from vf.core import HarnessError

    def req(c, msg):
        if not c:
            raise HarnessError("c20_oracle selfcheck: " + msg)

    req(abs(heading_of_segment((0, 0), (0, 1)) - 0) < 1e-12, "north = 0")
    req(abs(heading_of_segment((0, 0), (-1, 0)) - math.pi / 2) < 1e-12, "west = +pi/2")
    req(abs(heading_of_segment((0, 0), (1, 0)) + math.pi / 2) < 1e-12, "east = -pi/2")
    req(abs(abs(heading_of_segment((0, 0), (0, -1))) - math.pi) < 1e-12, "south = pi")
    v = np.array([[0.0, 0.0], [10.0, 0.0], [10.0, 10.0]])
    hs, d = tangent_headings(v, (5.0, 1.0))
    req(len(hs) == 1 and abs(hs[0] + math.pi / 2) < 1e-12 and abs(d - 1) < 1e-12, "tangent 1")
    hs, d = tangent_headings(v, (9.0, 5.0))
    req(len(hs) == 1 and abs(hs[0]) < 1e-12 and abs(d - 1) < 1e-12, "tangent 2")
    hs, d = tangent_headings(v, (11.0, -1.0))  # nearest point is the corner: both acceptable
    req(len(hs) == 2 and abs(d - math.sqrt(2)) < 1e-12, "tangent corner")
    hs, d = tangent_headings(v, (9.0, 1.0))  # equidistant from both segments
    req(len(hs) == 2, "tangent tie")
    req(abs(angdiff(math.pi - 1e-3, -math.pi + 1e-3) - 2e-3) < 1e-12, "angdiff wraps")
    sq = shapely.geometry.box(0, 0, 2, 2)
    req(sq.distance(SPoint(3, 1)) == 1.0 and sq.distance(SPoint(1, 1)) == 0.0, "shapely dist")
    req(abs(sq.exterior.distance(SPoint(1, 0.5)) - 0.5) < 1e-12, "shapely boundary dist")


# ---------------------------------------------------------------------------------------------
# link reciprocity / ownership  (property statement + test_network.test_linkage)
# ---------------------------------------------------------------------------------------------

def check_links(net):
    from scenic.core.distributions import RejectionException
    from scenic.domains.driving import roads as R

    V = Violations()
    elements = net.elements

    # registry: uid -> element, element.uid == uid, element.network is this network
    for u, e in elements.items():
        if e.uid != u:
            V.add("registry:uid-key", uid=u, elem=e.uid)
        if e.network is None or e.network.elements is not elements:
            V.add("registry:network-backlink", uid=u)

    def registered(e, ctx):
        if e is None:
            return
        if elements.get(e.uid) is not e:
            V.add("registry:unregistered-element", elem=uid(e), via=ctx)

    allRoads = tuple(net.roads) + tuple(net.connectingRoads)
    if tuple(net.allRoads) != allRoads:
        V.add("network:allRoads", got=len(net.allRoads))
    seen_lanes_net = []
    seen_groups_net = []
    for road in allRoads:
        registered(road, "network.allRoads")
        # Road docstring: 1 or 2 lane groups; one may be None
        if not (road.forwardLanes or road.backwardLanes):
            V.add("road:no-lane-group", road=road.uid)
        if road.is1Way != (not (road.forwardLanes and road.backwardLanes)):
            V.add("road:is1Way", road=road.uid)
        exp_groups = tuple(g for g in (road.forwardLanes, road.backwardLanes) if g)
        if tuple(road.laneGroups) != exp_groups:
            V.add("road:laneGroups-order", road=road.uid)
        seen = []
        for group in exp_groups:
            registered(group, "road.laneGroups")
            seen_groups_net.append(group)
            if group.road is not road:
                V.add("ownership:group.road", group=group.uid, road=road.uid, got=uid(group.road))
            other = road.backwardLanes if group is road.forwardLanes else road.forwardLanes
            if group._opposite is not other:
                V.add("opposite:group._opposite", group=group.uid, got=uid(group._opposite),
                      expected=uid(other))
            if other is not None:
                try:
                    if group.opposite is not other:
                        V.add("opposite:group.opposite", group=group.uid)
                except RejectionException:
                    V.add("opposite:group.opposite-rejects", group=group.uid)
            else:
                try:
                    group.opposite
                    V.add("opposite:none-but-no-reject", group=group.uid)
                except RejectionException:
                    pass
            for attr, owner_attr in (("_sidewalk", "sidewalk"), ("_shoulder", "shoulder"),
                                     ("_bikeLane", "bikeLane")):
                x = getattr(group, attr)
                if x is not None:
                    registered(x, "group." + attr)
                    if getattr(group, owner_attr) is not x:
                        V.add("ownership:group." + owner_attr, group=group.uid)
                    if x.road is not road:
                        V.add(f"ownership:{owner_attr}.road", group=group.uid, elem=uid(x),
                              got=uid(x.road))
                else:
                    try:
                        getattr(group, owner_attr)
                        V.add(f"ownership:{owner_attr}-none-but-no-reject", group=group.uid)
                    except RejectionException:
                        pass
            for lane in group.lanes:
                registered(lane, "group.lanes")
                if any(lane is s for s in seen):
                    V.add("ownership:lane-in-two-groups", lane=lane.uid)
                seen.append(lane)
                if lane.group is not group:
                    V.add("ownership:lane.group", lane=lane.uid, got=uid(lane.group),
                          expected=group.uid)
                if lane.road is not road:
                    V.add("ownership:lane.road", lane=lane.uid, got=uid(lane.road))
                if not lane.sections:
                    V.add("ownership:lane-without-sections", lane=lane.uid)
                for sec in lane.sections:
                    registered(sec, "lane.sections")
                    if sec.lane is not lane:
                        V.add("ownership:section.lane", section=sec.uid, got=uid(sec.lane),
                              expected=lane.uid)
                    if sec.group is not group:
                        V.add("ownership:section.group", section=sec.uid, got=uid(sec.group))
                    if sec.road is not road:
                        V.add("ownership:section.road", section=sec.uid, got=uid(sec.road))
                    if sec.isForward != (group is road.forwardLanes):
                        V.add("ownership:section.isForward", section=sec.uid,
                              isForward=sec.isForward)
                    check_adjacent(V, sec)
                for m in lane.maneuvers:
                    if m.startLane is not lane:
                        V.add("maneuver:startLane", lane=lane.uid, got=uid(m.startLane))
                check_lane_adjacent(V, lane)
        seen_lanes_net.extend(seen)
        if {id(x) for x in road.lanes} != {id(x) for x in seen} or len(road.lanes) != len(seen):
            V.add("ownership:road.lanes-vs-groups", road=road.uid, road_lanes=len(road.lanes),
                  group_lanes=len(seen))
        # road sections: ordered start to end, each owned by the road, lane sections inside
        # belong to lanes of this road
        secs = tuple(road.sections)
        if not secs:
            V.add("ownership:road-without-sections", road=road.uid)
        lane_secs_of_road = {id(s) for lane in road.lanes for s in lane.sections}
        seen_ls = set()
        for i, rs in enumerate(secs):
            registered(rs, "road.sections")
            if rs.road is not road:
                V.add("ownership:roadSection.road", section=rs.uid, got=uid(rs.road))
            if i + 1 < len(secs) and rs._successor is not secs[i + 1]:
                V.add("succ:roadSection-chain", section=rs.uid, got=uid(rs._successor),
                      expected=secs[i + 1].uid)
            if i > 0 and rs._predecessor is not secs[i - 1]:
                V.add("pred:roadSection-chain", section=rs.uid, got=uid(rs._predecessor),
                      expected=secs[i - 1].uid)
            if tuple(rs.lanes) != tuple(rs.forwardLanes) + tuple(rs.backwardLanes):
                V.add("ownership:roadSection.lanes-order", section=rs.uid)
            for ls in rs.lanes:
                if id(ls) not in lane_secs_of_road:
                    V.add("ownership:roadSection-lane-not-in-road-lanes", section=rs.uid,
                          lane_section=uid(ls))
                if id(ls) in seen_ls:
                    V.add("ownership:laneSection-in-two-roadSections", lane_section=uid(ls))
                seen_ls.add(id(ls))
                if ls.isForward != any(ls is x for x in rs.forwardLanes):
                    V.add("ownership:roadSection.forwardLanes", lane_section=uid(ls))
                if rs.lanesByOpenDriveID.get(ls.openDriveID) is not ls:
                    V.add("ownership:lanesByOpenDriveID", lane_section=uid(ls))
                if (ls.openDriveID < 0) != ls.isForward:
                    V.add("ownership:openDriveID-sign", lane_section=uid(ls))
        if seen_ls != lane_secs_of_road:
            V.add("ownership:lane-sections-vs-road-sections", road=road.uid,
                  in_lanes=len(lane_secs_of_road), in_road_sections=len(seen_ls))

    # network-level tuples (Network attribute docs)
    def same_set(a, b):
        return len(a) == len(b) and {id(x) for x in a} == {id(x) for x in b}

    if not same_set(tuple(net.lanes), seen_lanes_net):
        V.add("network:lanes", got=len(net.lanes), expected=len(seen_lanes_net))
    if not same_set(tuple(net.laneGroups), seen_groups_net):
        V.add("network:laneGroups", got=len(net.laneGroups), expected=len(seen_groups_net))
    if not same_set(tuple(net.laneSections), [s for l in seen_lanes_net for s in l.sections]):
        V.add("network:laneSections")
    if not same_set(tuple(net.roadSections), [s for r in net.roads for s in r.sections]):
        V.add("network:roadSections")
    if not same_set(tuple(net.shoulders), [g._shoulder for g in seen_groups_net if g._shoulder]):
        V.add("network:shoulders")
    if not same_set(tuple(net.sidewalks), [g._sidewalk for g in seen_groups_net if g._sidewalk]):
        V.add("network:sidewalks")

    check_succ_pred(V, net, seen_lanes_net)
    check_intersections(V, net, allRoads)
    return V


def check_adjacent(V, sec):
    """LaneSection left/right/faster/slower links (LaneSection docstring; test_linkage)."""
    from scenic.core.distributions import RejectionException

    left, right = sec._laneToLeft, sec._laneToRight
    fastSlow = (sec._fasterLane, sec._slowerLane)
    for name, x in (("faster", sec._fasterLane), ("slower", sec._slowerLane)):
        if x is not None:
            if not (x is left or x is right):
                V.add(f"adjacent:{name}-not-left-or-right", section=sec.uid)
            if x.isForward != sec.isForward:
                V.add(f"adjacent:{name}-opposite-direction", section=sec.uid)
    exp_adj = [x for x in (left, right) if x is not None]
    if len(sec.adjacentLanes) != len(exp_adj) or any(
            a is not b for a, b in zip(sec.adjacentLanes, exp_adj)):
        V.add("adjacent:adjacentLanes-vs-left-right", section=sec.uid)
    for side, x, back_same, back_opp in (("left", left, "_laneToRight", "_laneToLeft"),
                                         ("right", right, "_laneToLeft", "_laneToRight")):
        prop = "laneToLeft" if side == "left" else "laneToRight"
        if x is None:
            try:
                getattr(sec, prop)
                V.add(f"adjacent:{side}-none-but-no-reject", section=sec.uid)
            except RejectionException:
                pass
            continue
        if getattr(sec, prop) is not x:
            V.add(f"adjacent:{prop}-property", section=sec.uid)
        if x is (right if side == "left" else left):
            V.add("adjacent:left-is-right", section=sec.uid)
        if x.road is not sec.road:
            V.add(f"adjacent:{side}-other-road", section=sec.uid, other=uid(x))
        if sec.isForward == x.isForward:
            if sum(1 for y in fastSlow if y is x) != 1:
                V.add(f"adjacent:{side}-same-direction-not-faster-xor-slower", section=sec.uid)
            if getattr(x, back_same) is not sec:
                V.add(f"adjacent:{side}-not-reciprocal", section=sec.uid, other=uid(x),
                      back=uid(getattr(x, back_same)))
        else:
            if getattr(x, back_opp) is not sec:
                V.add(f"adjacent:{side}-not-reciprocal-opposite", section=sec.uid, other=uid(x),
                      back=uid(getattr(x, back_opp)))


def check_lane_adjacent(V, lane):
    """Lane.adjacentLanes ("adjacent lanes of same type, if any"; the statement lists adjacent
    lanes among the reciprocal links): as a set it is the set of lanes owning the sections
    adjacent to this lane's sections (LaneSection.adjacentLanes), every member is another lane
    of the same road, and adjacency is mutual.  Multiplicity and order are not judged."""
    adj = list(lane.adjacentLanes)
    ids = {id(b) for b in adj}
    exp = {}
    for sec in lane.sections:
        for s in sec.adjacentLanes:
            if s.lane is not None:
                exp[id(s.lane)] = s.lane
    for b in adj:
        if b is lane:
            V.add("adjacent:lane-adjacent-to-itself", lane=lane.uid)
        elif b.road is not lane.road:
            V.add("adjacent:lane-adjacent-in-other-road", lane=lane.uid, other=uid(b))
        elif not any(x is lane for x in b.adjacentLanes):
            V.add("adjacent:lane-not-reciprocal", lane=lane.uid, other=uid(b),
                  back=[uid(x) for x in b.adjacentLanes][:4])
    missing = [uid(b) for k, b in exp.items() if k not in ids]
    extra = [uid(b) for b in adj if id(b) not in exp]
    if missing or extra:
        V.add("adjacent:lane-vs-section-adjacency", lane=lane.uid, missing=missing[:4],
              extra=extra[:4])


def check_succ_pred(V, net, lanes):
    """predecessor/successor reciprocity.

    OpenDRIVE lane links are single-valued in each direction while lanes merge and split, so
    strict `A.succ is B <=> B.pred is A` cannot hold at merges/splits.  Reciprocal here means:
    if A._successor is B then B has a predecessor and either that predecessor is A, or it is
    another element that also lists B as its successor (merge) -- and symmetrically for
    predecessors (split).  The types must agree (a Lane's neighbour is a Lane, ...)."""
    from scenic.domains.driving import roads as R

    conn = {id(r) for r in net.connectingRoads}

    def badtype(x, cls):
        if isinstance(x, cls):
            return None
        # ints are OpenDRIVE lane ids the parser meant to "correct later"
        return "raw-opendrive-id" if isinstance(x, int) else "wrong-type"

    def recip(kind, elems, cls):
        for a in elems:
            a_conn = id(a.road) in conn
            s = a._successor
            if s is not None:
                bt = badtype(s, cls)
                if bt:
                    V.add(f"succ:{kind}-{bt}", elem=a.uid, succ=repr(s)[:60])
                elif s is a:
                    V.add(f"succ:{kind}-self-loop", elem=a.uid)
                elif a_conn and id(s.road) not in conn:
                    # connecting lane -> outgoing lane: several connecting lanes end in the same
                    # outgoing lane, which therefore carries no lane-level predecessor; this
                    # link is checked through the maneuver (connecting.successor is endLane)
                    pass
                else:
                    back = s._predecessor
                    if back is None:
                        V.add(f"succ:{kind}-one-sided", elem=a.uid, succ=s.uid)
                    elif back is not a and isinstance(back, cls) and back._successor is not s:
                        V.add(f"succ:{kind}-not-reciprocal", elem=a.uid, succ=s.uid,
                              back=uid(back))
            p = a._predecessor
            if p is not None:
                bt = badtype(p, cls)
                if bt:
                    V.add(f"pred:{kind}-{bt}", elem=a.uid, pred_=repr(p)[:60])
                else:
                    back = p._successor
                    if back is None:
                        V.add(f"pred:{kind}-one-sided", elem=a.uid, other=p.uid)
                    elif back is not a and isinstance(back, cls) and back._predecessor is not p:
                        V.add(f"pred:{kind}-not-reciprocal", elem=a.uid, other=p.uid,
                              back=uid(back))

    recip("lane", lanes, R.Lane)
    recip("laneSection", [s for l in lanes for s in l.sections], R.LaneSection)

    # consistency between a lane's links and those of its first/last sections: the lane's
    # successor is the lane of its last section's successor (sections ordered start->end)
    for lane in lanes:
        if not lane.sections:
            continue
        last, first = lane.sections[-1], lane.sections[0]
        for i in range(len(lane.sections) - 1):
            a, b = lane.sections[i], lane.sections[i + 1]
            if a._successor is not b:
                V.add("succ:laneSection-chain-within-lane", section=a.uid,
                      got=uid(a._successor), expected=b.uid)
            if b._predecessor is not a:
                V.add("pred:laneSection-chain-within-lane", section=b.uid,
                      got=uid(b._predecessor), expected=a.uid)
        ls = last._successor
        if isinstance(ls, R.LaneSection) and lane._successor is not ls.lane:
            V.add("succ:lane-vs-last-section", lane=lane.uid, lane_succ=uid(lane._successor),
                  section_succ_lane=uid(ls.lane))
        fp = first._predecessor
        if isinstance(fp, R.LaneSection) and lane._predecessor is not fp.lane:
            V.add("pred:lane-vs-first-section", lane=lane.uid, lane_pred=uid(lane._predecessor),
                  section_pred_lane=uid(fp.lane))


def check_intersections(V, net, allRoads):
    """Maneuver and intersection links (Maneuver/Intersection docstrings; test_linkage)."""
    from scenic.domains.driving import roads as R

    connecting = {id(r) for r in net.connectingRoads}
    for lane in net.lanes:
        for m in lane.maneuvers:
            if m.connectingLane is None:
                # lane merger: Maneuver docstring -- connectingLane and intersection are None
                if m.intersection is not None:
                    V.add("maneuver:merger-has-intersection", lane=lane.uid)
                if m.type is not R.ManeuverType.STRAIGHT:
                    V.add("maneuver:merger-not-straight", lane=lane.uid)
                if m.endLane is not lane._successor:
                    V.add("maneuver:merger-endLane-vs-successor", lane=lane.uid,
                          endLane=uid(m.endLane), successor=uid(lane._successor))
            else:
                I = m.intersection
                if I is None:
                    V.add("maneuver:connecting-without-intersection", lane=lane.uid)
                    continue
                if not any(m is x for x in I.maneuvers):
                    V.add("maneuver:not-in-intersection.maneuvers", lane=lane.uid,
                          intersection=I.uid)
    for I in net.intersections:
        if net.elements.get(I.uid) is not I:
            V.add("registry:unregistered-element", elem=I.uid, via="network.intersections")
        allConnecting = [m.connectingLane for m in I.maneuvers]
        for m in I.maneuvers:
            c = m.connectingLane
            if c is None:
                V.add("maneuver:intersection-maneuver-without-connectingLane", intersection=I.uid)
                continue
            if m.intersection is not I:
                V.add("maneuver:intersection-backlink", intersection=I.uid, got=uid(m.intersection))
            if not any(m is x for x in m.startLane.maneuvers):
                V.add("maneuver:not-in-startLane.maneuvers", intersection=I.uid,
                      start=uid(m.startLane))
            if c._predecessor is not m.startLane:
                V.add("maneuver:connecting.predecessor-vs-startLane", intersection=I.uid,
                      connecting=c.uid, pred=uid(c._predecessor), start=uid(m.startLane))
            if c._successor is not m.endLane:
                V.add("maneuver:connecting.successor-vs-endLane", intersection=I.uid,
                      connecting=c.uid, succ=uid(c._successor), end=uid(m.endLane))
            if id(c.road) not in connecting:
                V.add("maneuver:connectingLane-not-on-connecting-road", connecting=c.uid)
            if not any(m.startLane is x for x in I.incomingLanes):
                V.add("maneuver:startLane-not-incoming", intersection=I.uid,
                      start=uid(m.startLane))
            if not any(m.endLane is x for x in I.outgoingLanes):
                V.add("maneuver:endLane-not-outgoing", intersection=I.uid, end=uid(m.endLane))
            for lane_ in (m.startLane, m.endLane):
                if not any(lane_.road is r for r in I.roads):
                    V.add("maneuver:lane-road-not-in-intersection.roads", intersection=I.uid,
                          lane=uid(lane_))
            for conf in m.conflictingManeuvers:
                if conf is m:
                    V.add("maneuver:conflicts-with-itself", intersection=I.uid)
                elif not c.polygons.intersects(conf.connectingLane.polygons):
                    V.add("maneuver:conflicting-lanes-disjoint", intersection=I.uid)
            for rev in m.reverseManeuvers:
                if rev is m or rev.startLane.road is not m.endLane.road \
                        or rev.endLane.road is not m.startLane.road:
                    V.add("maneuver:reverseManeuvers", intersection=I.uid)
        for inc in I.incomingLanes:
            if not any(inc.road is r for r in I.roads):
                V.add("intersection:incoming-road-not-in-roads", intersection=I.uid, lane=inc.uid)
            if not any(inc._successor is c for c in allConnecting):
                V.add("intersection:incoming.successor-not-connecting", intersection=I.uid,
                      lane=inc.uid, succ=uid(inc._successor))
            for m in inc.maneuvers:
                if not any(m is x for x in I.maneuvers):
                    V.add("intersection:incoming-maneuver-not-listed", intersection=I.uid,
                          lane=inc.uid)
        for out in I.outgoingLanes:
            if not any(out.road is r for r in I.roads):
                V.add("intersection:outgoing-road-not-in-roads", intersection=I.uid, lane=out.uid)
    # road level: ordinary roads link to ordinary roads reciprocally or to intersections;
    # connecting roads point at the ordinary roads they join (those point at the intersection)
    for road in net.roads:
        for nm, x in (("succ", road._successor), ("pred", road._predecessor)):
            if isinstance(x, R.Intersection):
                if net.elements.get(x.uid) is not x:
                    V.add("registry:unregistered-element", elem=x.uid, via="road." + nm)
            elif isinstance(x, R.Road):
                if id(x) not in connecting and x._successor is not road \
                        and x._predecessor is not road:
                    V.add(f"{nm}:road-one-sided", road=road.uid, other=x.uid)
            elif x is not None:
                V.add(f"{nm}:road-wrong-type", road=road.uid, type=type(x).__name__)


# ---------------------------------------------------------------------------------------------
# children inside parents (property statement; construction-time assertions of roads.py)
# ---------------------------------------------------------------------------------------------

def excess(child, parent):
    """Lower bound of the directed Hausdorff distance child -> parent: largest distance from a
    vertex of (child minus parent) to parent.  0 if child lies inside parent."""
    d = child.difference(parent)
    if d.is_empty:
        return 0.0
    pts = shapely.get_coordinates(d)
    if len(pts) == 0:
        return 0.0
    return float(shapely.distance(parent, shapely.points(pts)).max())


CONTAIN_SLACK = 0.01   # metres: closing radius / buffers of the aggregate regions
CODE_ASSERTED = 0.5    # metres: containsRegion(..., tolerance=0.5) in roads.py


def containment_bound(tol):
    """How far a child polygon may stick out of its parent.

    A tighter bound derived from `tolerance` (two independent Douglas-Peucker simplifications,
    2 x tolerance + 0.01 m) was tried and is wrong: consecutive road sections are made disjoint
    by xodr_parser.separate() while their lane sections are not, so a lane section may overhang
    the end of its road section by the overlap of the map's own geometry records, whatever the
    tolerance (Town04 road 782: 9 cm at tolerance 0.001 .. 0.05).  The only figure the code
    commits to is the 0.5 m of its construction-time assertions (LinearElement: edges inside
    the element; Intersection: connecting lanes inside the intersection); the statement's
    "children lie inside their parents" is judged with that figure."""
    return CODE_ASSERTED


MIN_SIDE = 0.05   # metres: an edge closer than this to the centreline is not judged (zero-width)
MIN_LEN = 1.0     # metres: shorter centrelines / edges are not judged


def _chord(ls):
    """Midpoint and unit direction of the chord from 40 % to 60 % of a LineString's length.
    (A chord, not a single segment: real maps have centimetre-long reversed jogs where plan-view
    pieces meet, cf. Town01 road 11.)"""
    if ls.geom_type != "LineString" or ls.length < MIN_LEN:
        return None
    a = ls.interpolate(0.4, normalized=True)
    b = ls.interpolate(0.6, normalized=True)
    m = ls.interpolate(0.5, normalized=True)
    d = np.array([b.x - a.x, b.y - a.y])
    n = float(np.hypot(*d))
    if n < 0.1 * ls.length:   # the middle fifth folds back on itself: not a usable direction
        return None
    return np.array([m.x, m.y]), d / n


def check_edge_sides(net):
    """LinearElement docstring: the direction of an element runs from the first to the last point
    of its centreline; 'left' and 'right' edges are interpreted with respect to this direction
    and are oriented along the direction of traffic.  Judged at the arclength midpoint of the
    centreline of lanes and lane sections: the nearest point of the left edge lies to the left,
    of the right edge to the right, and both edges run forward there.  (Lane groups are left
    out: their centreline is "rather arbitrary" by the parser's own comment.)  This anchors the
    *sign* of the traffic direction independently of the centreline itself."""
    V = Violations()
    judged = 0
    elems = list(net.lanes) + list(net.laneSections)
    for e in elems:
        cm = _chord(e.centerline.lineString)
        if cm is None:
            continue
        m, t = cm
        pm = SPoint(m[0], m[1])
        sides = {}
        for name in ("leftEdge", "rightEdge"):
            ls = getattr(e, name).lineString
            ch = _chord(ls)
            if ch is None:
                sides = None
                break
            q = ls.interpolate(ls.project(pm))
            d = np.array([q.x - m[0], q.y - m[1]])
            sides[name] = (float(t[0] * d[1] - t[1] * d[0]), float(np.hypot(*d)),
                           float(ch[1] @ t))
        if not sides:
            continue
        (cl, dl, fl), (cr, dr_, fr) = sides["leftEdge"], sides["rightEdge"]
        # skip degenerate widths and places where the nearest edge point is not abeam
        if dl < MIN_SIDE or dr_ < MIN_SIDE or abs(cl) < 0.5 * dl or abs(cr) < 0.5 * dr_:
            continue
        judged += 1
        kind = type(e).__name__
        # Only the unambiguous situation is a violation: BOTH edges say that the centreline
        # runs the other way (a single edge may fold back on itself in a hairpin whose inner
        # radius is smaller than the lane offset, e.g. Issue295a road 863).
        if cl < 0 and cr > 0 and fl < 0 and fr < 0:
            V.add(f"edges:{kind}-centreline-runs-against-both-edges", elem=e.uid)
        elif cl < 0 and cr > 0 and fl > 0.5 and fr > 0.5:
            V.add(f"edges:{kind}-left-and-right-edge-swapped", elem=e.uid)
    return V, judged


def check_containment(net):
    V = Violations()
    tol = float(net.tolerance)
    bound = containment_bound(tol)
    worst = {}

    def chk(kind, child, parent, cname, b=bound):
        if child is None or parent is None:
            return
        e = excess(child.polygons, parent.polygons)
        if e > worst.get(kind, (0.0,))[0]:
            worst[kind] = (e, cname)
        if e > b:
            V.add(f"{kind}", child=cname, excess=e, bound=b, tolerance=tol)

    for lane in net.lanes:
        for s in lane.sections:
            chk("laneSection-in-lane", s, lane, s.uid)
        chk("lane-in-group", lane, lane.group, lane.uid)
        chk("lane-in-road", lane, lane.road, lane.uid)
    for g in net.laneGroups:
        chk("group-in-road", g, g.road, g.uid)
    for r in net.allRoads:
        for rs in r.sections:
            chk("roadSection-in-road", rs, r, rs.uid)
            for ls in rs.lanes:
                chk("laneSection-in-roadSection", ls, rs, ls.uid)
    for I in net.intersections:
        for m in I.maneuvers:
            if m.connectingLane is not None:
                chk("connectingLane-in-intersection", m.connectingLane, I, m.connectingLane.uid)
    # aggregate regions (Network.__attrs_post_init__ asserts these within net.tolerance)
    agg = max(tol, 0.0) + CONTAIN_SLACK
    for r in net.roads:
        chk("road-in-roadRegion", r, net.roadRegion, r.uid, agg)
    for x in tuple(net.allRoads) + tuple(net.intersections) + tuple(net.lanes):
        chk("element-in-drivableRegion", x, net.drivableRegion, x.uid, agg)
    for x in net.intersections:
        chk("intersection-in-intersectionRegion", x, net.intersectionRegion, x.uid, agg)
    for x in net.shoulders:
        chk("shoulder-in-shoulderRegion", x, net.shoulderRegion, x.uid, agg)
    for x in net.sidewalks:
        chk("sidewalk-in-sidewalkRegion", x, net.sidewalkRegion, x.uid, agg)
        chk("sidewalk-in-walkableRegion", x, net.walkableRegion, x.uid, agg)
    return V, worst


# ---------------------------------------------------------------------------------------------
# point look-ups
# ---------------------------------------------------------------------------------------------

BAND = 0.01  # relative width of the unjudged band just inside `tolerance`: the tolerant pass
             # tests `point.buffer(tolerance)`, a 64-gon inscribed in the circle (relative
             # error 1-cos(pi/64) = 0.12 %); an element at 0.99..1.0 x tolerance may be missed


class Index:
    """Distances from a point to element polygons, computed with shapely on the polygons
    themselves (never through the network's R-tree)."""

    def __init__(self, net):
        from scenic.domains.driving import roads as R

        self.net = net
        self.tol = float(net.tolerance)
        self.elems = list(net.elements.values())
        self.pos = {id(e): i for i, e in enumerate(self.elems)}
        self.polys = np.array([e.polygons for e in self.elems], dtype=object)
        self.bounds = shapely.bounds(self.polys)
        self.boundaries = np.array([p.boundary for p in self.polys], dtype=object)
        self.R = R
        self.connecting = {id(r) for r in net.connectingRoads}
        self._verts = {}

    def verts(self, e):
        k = id(e)
        if k not in self._verts:
            self._verts[k] = polyline_vertices(e.centerline)
        return self._verts[k]

    def measure(self, x, y):
        """-> dict id(elem) -> (D, B): D = distance from the point to the polygon (0 inside),
        B = distance to the polygon's boundary; only for elements whose bounding box is within
        reach of the point; every other element is farther than `reach`."""
        reach = 1.5 * self.tol + 1.0
        b = self.bounds
        m = (b[:, 0] - reach <= x) & (x <= b[:, 2] + reach) & (b[:, 1] - reach <= y) & \
            (y <= b[:, 3] + reach)
        idx = np.nonzero(m)[0]
        pt = SPoint(x, y)
        out = {}
        if len(idx):
            D = shapely.distance(self.polys[idx], pt)
            B = shapely.distance(self.boundaries[idx], pt)
            for i, d, bd in zip(idx, D, B):
                out[id(self.elems[i])] = (float(d), float(bd))
        return out


def classify(meas, e, tol):
    """'in' (robustly inside), 'near' (robustly within tolerance), 'far' (robustly beyond),
    'edge' (too close to a decision boundary to judge)."""
    r = meas.get(id(e))
    if r is None:
        return "far"
    d, b = r
    if d == 0.0:
        return "in" if b > EPS_D else "edge"
    if d <= EPS_D:
        return "edge"
    if tol > 0:
        if d <= tol * (1 - BAND) - EPS_D:
            return "near"
        if d <= tol + EPS_D:
            return "edge"
    return "far"


def check_probe(ix, x, y, out_classes=None):
    """All look-up predicates at one point.  Returns (violations, info) where info has the
    features used for the non-trivial rule."""
    net, tol, R = ix.net, ix.tol, ix.R
    V = Violations()
    meas = ix.measure(x, y)
    cls = lambda e: classify(meas, e, tol)
    p = (x, y)
    info = {"overlap": 0, "near_boundary": False}

    def D(e):
        r = meas.get(id(e))
        return math.inf if r is None else r[0]

    # features
    tops = tuple(net.intersections) + tuple(net.roads) + tuple(net.shoulders) + \
        tuple(net.sidewalks)
    allRoads = tuple(net.roads) + tuple(net.connectingRoads)
    n_in = sum(1 for e in tops + tuple(net.lanes) + tuple(net.connectingRoads)
               if cls(e) == "in")
    info["overlap"] = n_in
    band = max(tol, 1e-3)
    info["near_boundary"] = any(bd <= band for (_, bd) in meas.values())

    def lookup(name, fn, elems, priority=None):
        try:
            r = fn(p)
        except Exception as e:  # a look-up may not raise with reject=False
            from vf.core import exc_signature
            V.add(f"{name}:raises", error=repr(e)[:200], where=exc_signature(e))
            return "ERR"
        states = [cls(e) for e in elems]
        if r is not None:
            if not any(r is e for e in elems):
                V.add(f"{name}:result-not-of-this-network-class", got=uid(r))
                return r
            d = D(r)
            if d > EPS_D:
                info["tolerant_hit"] = True
            # (1) contains the point within the tolerance
            if d > tol + EPS_D:
                V.add(f"{name}:result-farther-than-tolerance", got=uid(r), distance=d,
                      tolerance=tol)
            # (2) elements actually containing the point have priority (findPointIn docstring)
            elif d > EPS_D and "in" in states:
                V.add(f"{name}:tolerant-match-preferred-over-containing-element", got=uid(r),
                      distance=d, containing=[uid(e) for e, s in zip(elems, states)
                                              if s == "in"][:3])
        else:
            # (3) completeness
            if "in" in states:
                V.add(f"{name}:none-although-contained",
                      containing=[uid(e) for e, s in zip(elems, states) if s == "in"][:3])
            elif "near" in states:
                V.add(f"{name}:none-although-within-tolerance", tolerance=tol,
                      near=[(uid(e), D(e)) for e, s in zip(elems, states) if s == "near"][:3])
        # (4) documented priority of the tolerant pass (elementAt docstring)
        if priority and r is not None and "in" not in states and "edge" not in states \
                and "near" in states:
            best = min(priority(e) for e, s in zip(elems, states) if s == "near")
            if len({priority(e) for e, s in zip(elems, states) if s == "near"}) > 1:
                info["prio_judged"] = True
            if priority(r) != best:
                V.add(f"{name}:tolerant-pass-priority", got=uid(r),
                      expected_class=["Intersection", "Road", "Shoulder", "Sidewalk"][best])
        return r

    def prio(e):
        if isinstance(e, R.Intersection):
            return 0
        if isinstance(e, R.Road):
            return 1
        if isinstance(e, R.Shoulder):
            return 2
        return 3

    elem = lookup("elementAt", net.elementAt, tops, prio)
    road = lookup("roadAt", net.roadAt, allRoads)
    lane = lookup("laneAt", net.laneAt, tuple(net.lanes))
    inter = lookup("intersectionAt", net.intersectionAt, tuple(net.intersections))
    lookup("shoulderAt", net.shoulderAt, tuple(net.shoulders))
    lookup("sidewalkAt", net.sidewalkAt, tuple(net.sidewalks))
    if "ERR" in (elem, road, lane, inter):
        return V, info

    # laneSectionAt = section of laneAt(p) (docstring "LaneSection passing through the point")
    if lane is not None:
        sec = lookup("laneSectionAt", net.laneSectionAt, tuple(lane.sections))
        if sec not in (None, "ERR") and sec.lane is not lane:
            V.add("laneSectionAt:section-of-other-lane", got=uid(sec), lane=lane.uid)
    else:
        try:
            if net.laneSectionAt(p) is not None:
                V.add("laneSectionAt:not-none-without-lane")
        except Exception as e:
            V.add("laneSectionAt:raises", error=repr(e)[:200])
    if road is not None:
        grp = lookup("laneGroupAt", net.laneGroupAt, tuple(road.laneGroups))
        if grp not in (None, "ERR") and grp.road is not road:
            V.add("laneGroupAt:group-of-other-road", got=uid(grp), road=road.uid)
    else:
        try:
            if net.laneGroupAt(p) is not None:
                V.add("laneGroupAt:not-none-without-road")
        except Exception as e:
            V.add("laneGroupAt:raises", error=repr(e)[:200])

    # per-element look-ups agree with the network-level ones where the answer is unambiguous:
    # exactly one lane within reach and the point robustly inside it (test_linkage:
    # group.laneAt(pt) is lane, lane.sectionAt(pt) is section; test_orientation_consistency:
    # road.laneAt(pt) is lane ...)
    lanes_reach = [l for l in net.lanes if cls(l) != "far"]
    if len(lanes_reach) == 1 and cls(lanes_reach[0]) == "in":
        L = lanes_reach[0]
        info["unique_lane"] = L.uid
        for nm, fn in (("network.laneAt", net.laneAt), ("group.laneAt", L.group.laneAt),
                       ("road.laneAt", L.road.laneAt)):
            got = fn(p)
            if got is not L:
                V.add(f"unique-lane:{nm}", expected=L.uid, got=uid(got))
        secs = [s for s in L.sections if cls(s) != "far"]
        if len(secs) == 1 and cls(secs[0]) == "in":
            S = secs[0]
            for nm, fn in (("lane.sectionAt", L.sectionAt), ("network.laneSectionAt",
                                                             net.laneSectionAt),
                           ("road.laneSectionAt", L.road.laneSectionAt)):
                got = fn(p)
                if got is not S:
                    V.add(f"unique-lane:{nm}", expected=S.uid, got=uid(got))
        roads_reach = [r for r in allRoads if cls(r) != "far"]
        if len(roads_reach) == 1 and roads_reach[0] is L.road and cls(L.road) == "in":
            if road is not L.road:
                V.add("unique-lane:roadAt", expected=L.road.uid, got=uid(road))
            groups_reach = [g for g in L.road.laneGroups if cls(g) != "far"]
            if len(groups_reach) == 1 and groups_reach[0] is L.group and cls(L.group) == "in":
                for nm, fn in (("network.laneGroupAt", net.laneGroupAt),
                               ("road.laneGroupAt", L.road.laneGroupAt)):
                    got = fn(p)
                    if got is not L.group:
                        V.add(f"unique-lane:{nm}", expected=L.group.uid, got=uid(got))

    # drivable area covered by what the look-ups return (statement; test_element_tolerance,
    # test_orientation_consistency draw from drivableRegion and use the results unguarded)
    dr = net.drivableRegion.polygons
    pt = SPoint(x, y)
    if dr.contains(pt) and dr.boundary.distance(pt) > EPS_D:
        info["in_drivable"] = True
        cand = allRoads + tuple(net.intersections) + tuple(net.lanes)
        dmin = min((D(e) for e in cand), default=math.inf)
        if dmin > tol * (1 + BAND) + EPS_D:
            # drivableRegion is the union of three closings (radius tolerance) of the lane,
            # road and intersection polygons: every point of it is within tolerance of one
            V.add("coverage:drivable-point-beyond-tolerance-of-every-element", dmin=dmin,
                  tolerance=tol)
        elif dmin <= max(tol * (1 - BAND) - EPS_D, 0.0) and not any(
                cls(e) == "edge" for e in cand):
            if elem is None:
                V.add("coverage:elementAt-none-in-drivable", dmin=dmin)
            if road is None and inter is None:
                V.add("coverage:no-road-or-intersection-in-drivable", dmin=dmin)

    check_direction(ix, x, y, meas, V, info)
    return V, info


# ---------------------------------------------------------------------------------------------
# traffic direction tangent to the centreline
# ---------------------------------------------------------------------------------------------

def yaw_of(o):
    return float(o.yaw) if hasattr(o, "yaw") else float(o)


def check_direction(ix, x, y, meas, V, info):
    net, tol, R = ix.net, ix.tol, ix.R
    cls = lambda e: classify(meas, e, tol)
    p = (x, y)
    try:
        dirs = tuple(yaw_of(d) for d in net.nominalDirectionsAt(p))
        rd = yaw_of(net.roadDirection[_vec(p)])
    except Exception as e:
        from vf.core import exc_signature
        V.add("direction:raises", error=repr(e)[:200], where=exc_signature(e))
        return

    def tangents(e):
        v = ix.verts(e)
        if v is None or len(v) < 2:
            return None
        return tangent_headings(v, p)[0]

    def matches(yaw, hs):
        return any(angdiff(yaw, h) <= EPS_ANG for h in hs)

    dir_elems = tuple(net.intersections) + tuple(net.roads) + tuple(net.shoulders)
    states = {id(e): cls(e) for e in dir_elems}
    reach = [e for e in dir_elems if states[id(e)] != "far"]

    # (a) "0 elsewhere" (Network.roadDirection doc) / no directions off the network
    if not reach:
        info["off_network"] = True
        if dirs != ():
            V.add("direction:nominalDirectionsAt-nonempty-off-network", got=list(dirs))
        if rd != 0.0:
            V.add("direction:roadDirection-nonzero-off-network", got=rd)
        return
    robust = [e for e in reach if states[id(e)] in ("in", "near")]
    if not robust:
        # every element in reach is too close to a decision boundary: the look-up may or may
        # not have found it; "nothing here" is then a legal answer
        if dirs == () and rd == 0.0:
            info["direction"] = "unjudged:edge"
            return
    elif dirs == ():
        V.add("direction:nominalDirectionsAt-empty-on-network", reach=[uid(e) for e in robust][:3])
        return

    # acceptable tangents: every lane / shoulder within reach of the point, plus (fallback
    # documented in Intersection.maneuversAt) all connecting lanes of an intersection in reach
    acc = []
    unknown = False
    lanes_reach = [l for l in net.lanes if cls(l) != "far"]
    for l in lanes_reach:
        t = tangents(l)
        if t is None:
            unknown = True
        else:
            acc.extend(t)
    for s in net.shoulders:
        if cls(s) != "far":
            t = tangents(s)
            if t is None:
                unknown = True
            else:
                acc.extend(t)
    inters = [I for I in net.intersections if states[id(I)] != "far"]
    for I in inters:
        for m in I.maneuvers:
            if m.connectingLane is not None and cls(m.connectingLane) == "far":
                t = tangents(m.connectingLane)
                if t is None:
                    unknown = True
                else:
                    acc.extend(t)
    # Road / LaneGroup fall back to their own centreline when no lane group / lane is found at
    # the point (roads.py Road._defaultHeadingAt, LaneGroup._defaultHeadingAt docstrings)
    for r in net.roads:
        if states[id(r)] != "far":
            for e in (r,) + tuple(r.laneGroups):
                t = tangents(e)
                if t is not None:
                    acc.extend(t)
    if unknown:
        info["direction"] = "unjudged:multi-part-centreline"
        return
    for yaw in dirs + (rd,):
        if not matches(yaw, acc):
            V.add("direction:not-tangent-to-any-centreline-in-reach", got=yaw,
                  nearest=sorted(acc, key=lambda h: angdiff(h, yaw))[:2],
                  lanes=[l.uid for l in lanes_reach][:4])
            return

    # (b) sharp case: the point is robustly inside exactly one lane of an ordinary road and
    # nothing else that could define a direction is within reach
    if len(lanes_reach) == 1 and cls(lanes_reach[0]) == "in" and not inters \
            and id(lanes_reach[0].road) not in ix.connecting \
            and not any(cls(s) != "far" for s in net.shoulders) \
            and [r for r in reach] == [lanes_reach[0].road] \
            and cls(lanes_reach[0].road) == "in" and cls(lanes_reach[0].group) == "in":
        L = lanes_reach[0]
        hs = tangents(L)
        info["direction"] = "sharp"
        info["sharp_backward"] = L.group is L.road.backwardLanes
        if len(dirs) != 1:
            V.add("direction:road-point-has-not-exactly-one-direction", got=list(dirs))
        for nm, yaw in (("nominalDirectionsAt", dirs[0] if dirs else None), ("roadDirection", rd),
                        ("lane.orientation", yaw_of(L.orientation[_vec(p)])),
                        ("group.orientation", yaw_of(L.group.orientation[_vec(p)])),
                        ("road.orientation", yaw_of(L.road.orientation[_vec(p)]))):
            if yaw is not None and not matches(yaw, hs):
                V.add(f"direction:{nm}-not-tangent-to-lane-centreline", lane=L.uid, got=yaw,
                      expected=hs[:2], backward=info["sharp_backward"])
        # the centreline runs with the traffic: first->last vertex is 'forward'
        # (LinearElement docstring); a lane's section chain follows it
        return

    # (c) intersections: every connecting lane containing the point contributes its tangent
    # (test_orientation_consistency); if some contain it, nothing else is reported
    if len(inters) == 1 and states[id(inters[0])] == "in" and \
            all(states[id(e)] == "far" for e in reach if e is not inters[0]) and \
            not any(cls(e) == "edge" for e in inters[0:1]):
        I = inters[0]
        conns = []
        for m in I.maneuvers:
            c = m.connectingLane
            if c is not None and not any(c is k for k in conns):
                conns.append(c)
        cstates = [cls(c) for c in conns]
        if "edge" in cstates:
            return
        info["direction"] = "intersection"
        inside = [c for c, s in zip(conns, cstates) if s == "in"]
        for c in inside:
            if not any(matches(yaw, tangents(c)) for yaw in dirs):
                V.add("direction:connecting-lane-containing-point-not-reported", lane=c.uid,
                      got=list(dirs))
        if inside:
            accin = [h for c in inside for h in tangents(c)]
            for yaw in dirs:
                if not matches(yaw, accin):
                    V.add("direction:reported-direction-of-lane-not-containing-point", got=yaw)


def _vec(p):
    from scenic.core.vectors import Vector

    return Vector(p[0], p[1])


# ---------------------------------------------------------------------------------------------
# probe points from descriptors (every random choice lives in the descriptor = the case)
# ---------------------------------------------------------------------------------------------

CLASSES = ("lanes", "laneSections", "allRoads", "intersections", "shoulders", "sidewalks",
           "laneGroups", "roadSections", "connectingLanes")
ANCHORS = ("center", "boundary", "bbox", "vertex")
OFFSETS = ("none", "tiny", "tol", "lane", "far")


def class_elems(net, name):
    if name == "connectingLanes":
        return [l for r in net.connectingRoads for l in r.lanes]
    if name == "roadSections":
        return [s for r in net.allRoads for s in r.sections]
    return list(getattr(net, name))


def probe_point(net, d):
    """Deterministic point for a probe descriptor."""
    elems = class_elems(net, d["cls"]) or list(net.lanes)
    e = elems[d["k"] % len(elems)]
    u, v = float(d["u"]), float(d["v"])
    poly = e.polygons
    anchor = d["anchor"]
    if anchor == "center" and not hasattr(e, "centerline"):
        anchor = "boundary"
    if anchor == "center":
        q = e.centerline.lineString.interpolate(u, normalized=True)
        x, y = q.x, q.y
    elif anchor == "boundary":
        q = poly.boundary.interpolate(u, normalized=True)
        x, y = q.x, q.y
    elif anchor == "vertex":
        c = shapely.get_coordinates(poly)
        x, y = (float(t) for t in c[min(int(u * len(c)), len(c) - 1)][:2])
    else:
        minx, miny, maxx, maxy = poly.bounds
        x, y = minx + u * (maxx - minx), miny + v * (maxy - miny)
    tol = float(net.tolerance)
    scale = {"none": 0.0, "tiny": 1e-6, "tol": 2.0 * max(tol, 0.01), "lane": 6.0,
             "far": 50.0}[d["off"]]
    r = float(d["r"]) * scale
    th = 2 * math.pi * float(d["th"])
    return float(x + r * math.cos(th)), float(y + r * math.sin(th)), e.uid


# ---------------------------------------------------------------------------------------------
# canonical description of a network (for parse-vs-cache equivalence)
# ---------------------------------------------------------------------------------------------

def _geom(g):
    import hashlib

    if g is None:
        return None
    if hasattr(g, "polygons"):
        g = g.polygons
    elif hasattr(g, "lineString"):
        g = g.lineString
    return hashlib.sha1(shapely.to_wkb(g, output_dimension=2)).hexdigest()[:16]


_REG = [None]


def _ref(x):
    """A link as data: '@uid' if it is the registered element with that uid, otherwise marked as
    dangling (e.g. a pickling placeholder that was never reconnected)."""
    if x is None or isinstance(x, (int, float, str, bool)):
        return x
    if hasattr(x, "uid"):
        reg = _REG[0]
        if reg is not None and reg.get(x.uid) is not x:
            return "!dangling:" + type(x).__name__ + ":" + str(x.uid)
        return "@" + str(x.uid)
    return repr(type(x).__name__)


def fingerprint(net):
    """uid -> canonical record of type, geometry digests, scalar attributes and links (as uids);
    plus network-level tuples and regions."""
    from scenic.domains.driving import roads as R

    fp = {}
    _REG[0] = net.elements
    for u, e in net.elements.items():
        rec = {"type": type(e).__name__, "polygon": _geom(e), "name": e.name, "id": e.id,
               "uid": e.uid, "vehicleTypes": sorted(v.name for v in e.vehicleTypes),
               "speedLimit": e.speedLimit, "tags": sorted(e.tags)}
        for a in ("centerline", "leftEdge", "rightEdge", "curb"):
            if hasattr(e, a):
                rec[a] = _geom(getattr(e, a))
        for a in ("_successor", "_predecessor", "road", "group", "lane", "_sidewalk", "_shoulder",
                  "_bikeLane", "_opposite", "forwardLanes", "backwardLanes", "_laneToLeft",
                  "_laneToRight", "_fasterLane", "_slowerLane", "openDriveID", "isForward",
                  "parent", "startSidewalk", "endSidewalk"):
            if a in e.__dict__:
                x = e.__dict__[a]
                rec[a] = [_ref(t) for t in x] if isinstance(x, (tuple, list)) else _ref(x)
        for a in ("lanes", "sections", "adjacentLanes", "laneGroups", "roads", "incomingLanes",
                  "outgoingLanes", "crossings", "sidewalks"):
            if a in e.__dict__ and isinstance(e.__dict__[a], (tuple, list)):
                rec[a] = [_ref(t) for t in e.__dict__[a]]
        if "lanesByOpenDriveID" in e.__dict__:
            rec["lanesByOpenDriveID"] = {str(k): _ref(v) for k, v in
                                         sorted(e.lanesByOpenDriveID.items())}
        if "signals" in e.__dict__:
            rec["signals"] = [(s.uid, s.openDriveID, s.country, s.type) for s in e.signals]
        if "maneuvers" in e.__dict__:
            rec["maneuvers"] = [(m.type.name, _ref(m.startLane), _ref(m.connectingLane),
                                 _ref(m.endLane), _ref(m.intersection)) for m in e.maneuvers]
        fp[u] = rec
    netrec = {"tolerance": net.tolerance, "driveOnLeft": net.driveOnLeft,
              "order": list(net.elements)}
    for a in ("roads", "connectingRoads", "allRoads", "laneGroups", "lanes", "intersections",
              "crossings", "sidewalks", "shoulders", "roadSections", "laneSections"):
        netrec[a] = [_ref(t) for t in getattr(net, a)]
    for a in ("drivableRegion", "walkableRegion", "roadRegion", "laneRegion",
              "intersectionRegion", "crossingRegion", "sidewalkRegion", "shoulderRegion",
              "curbRegion"):
        r = getattr(net, a)
        netrec[a] = _geom(r) if hasattr(r, "polygons") or hasattr(r, "lineString") \
            else type(r).__name__
    fp["<network>"] = netrec
    _REG[0] = None
    return fp


def fp_diff(a, b, limit=5):
    """Human-readable differences of two fingerprints."""
    out = []
    for k in sorted(set(a) | set(b)):
        if k not in a:
            out.append((k, "missing-left"))
        elif k not in b:
            out.append((k, "missing-right"))
        elif a[k] != b[k]:
            ks = [f for f in set(a[k]) | set(b[k]) if a[k].get(f) != b[k].get(f)]
            out.append((k, sorted(ks)))
        if len(out) >= limit:
            break
    return out


def answers(net, points):
    """What the look-ups answer at the given points (uids / yaws), for cache equivalence."""
    res = []
    for (x, y) in points:
        p = (x, y)
        row = []
        for fn in (net.elementAt, net.roadAt, net.laneAt, net.laneSectionAt, net.laneGroupAt,
                   net.intersectionAt, net.shoulderAt, net.sidewalkAt):
            row.append(uid(fn(p)))
        row.append([round(yaw_of(d), 12) for d in net.nominalDirectionsAt(p)])
        row.append(round(yaw_of(net.roadDirection[_vec(p)]), 12))
        res.append(row)
    return res
