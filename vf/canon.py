"""Canonical, process-independent dumps of Scenic values, scenes and simulation results.

`canon(x)` maps a value to a tree of tuples / str / int / bool / None that is equal for two
values iff they are "the same thing" for the purposes of the checks:

* floats       -> ("f", float.hex())   (bit exact; -0.0 != 0.0; every NaN -> ("f", "nan"))
* ints, bools, str, bytes, None -> themselves (bools tagged so that True != 1)
* Vector       -> ("V", hex, hex, hex)
* Orientation  -> ("Q", hex x4) of the unit quaternion with the sign normalised (q and -q are
                  the same rotation): first non-zero component positive
* tuple / list -> ("t", ...) / ("l", ...); set / frozenset -> ("s", sorted...); dict -> ("d",
                  sorted (key, value) pairs)
* Scenic objects (Point / OrientedPoint / Object instances)
               -> ("obj", class name, sorted (property, canon(value)) items)
                  (inside another value only a reference ("objref", class name, name property,
                  position) is emitted: no unbounded recursion)
* behaviors / monitors / scenarios -> ("beh", class name, canon(args), canon(kwargs))
* regions      -> ("reg", class name, defining parameters)
* shapes       -> ("shape", class name, dimensions)
* functions, classes, enum members -> by qualified name
* anything else -> ("opaque", class name)   (counted in `STATS["opaque"]`; never `repr`, which
                  may contain addresses)

Identities, addresses, weak references, caches and per-run bookkeeping are excluded.
"""

from __future__ import annotations

import enum
import math
import types
from collections import Counter

STATS = Counter()

# properties that hold identities / per-run bookkeeping rather than values of the scene
SKIP_PROPS = frozenset({"_parentScenario", "_observingEntity", "_nonObservingEntity",
                        "observations", "lastActions"})


def fhex(x):
    x = float(x)
    if x != x:
        return "nan"
    return x.hex()


def _sortkey(c):
    return repr(c)


def canon(x, depth=0):
    """Canonical form of an arbitrary value (see module docstring)."""
    if x is None or isinstance(x, (str, bytes)):
        return x
    if isinstance(x, bool):
        return ("b", x)
    if isinstance(x, int):
        return x
    if isinstance(x, float):
        return ("f", fhex(x))
    try:
        import numpy

        if isinstance(x, numpy.generic):
            return canon(x.item(), depth)
        if isinstance(x, numpy.ndarray):
            return ("nd", x.shape, tuple(canon(v, depth) for v in x.ravel().tolist()))
    except ImportError:  # pragma: no cover
        pass
    if depth > 12:
        STATS["too-deep"] += 1
        return ("deep", type(x).__name__)

    from scenic.core.vectors import Orientation, Vector

    if isinstance(x, Vector):
        return ("V",) + tuple(fhex(c) for c in x.coordinates)
    if isinstance(x, Orientation):
        return canon_orientation(x)
    if isinstance(x, enum.Enum):
        return ("enum", type(x).__name__, x.name)
    if isinstance(x, tuple):
        if type(x).__name__ == "Color" and all(isinstance(c, (int, float)) for c in x):
            # an RGB(A) tuple of reals: components clamped by max(0, min(1, c)) may be the ints
            # 0 / 1, which denote the same colour as 0.0 / 1.0
            return ("t:Color",) + tuple(("f", fhex(c)) for c in x)
        tag = "t" if type(x) is tuple else "t:" + type(x).__name__
        return (tag,) + tuple(canon(v, depth + 1) for v in x)
    if isinstance(x, list):
        return ("l",) + tuple(canon(v, depth + 1) for v in x)
    if isinstance(x, (set, frozenset)):
        return ("s",) + tuple(sorted((canon(v, depth + 1) for v in x), key=_sortkey))
    if isinstance(x, dict):
        items = [(canon(k, depth + 1), canon(v, depth + 1)) for k, v in x.items()]
        return ("d",) + tuple(sorted(items, key=_sortkey))
    if isinstance(x, types.MappingProxyType):
        return canon(dict(x), depth)
    if isinstance(x, range):
        return ("range", x.start, x.stop, x.step)
    if isinstance(x, slice):
        return ("slice", canon(x.start, depth + 1), canon(x.stop, depth + 1),
                canon(x.step, depth + 1))
    if isinstance(x, complex):
        return ("c", fhex(x.real), fhex(x.imag))

    from scenic.core.object_types import Constructible

    if isinstance(x, Constructible):
        if depth == 0:
            return canon_object(x)
        return ("objref", type(x).__name__, canon(getattr(x, "name", None), depth + 1),
                canon(getattr(x, "position", None), depth + 1))

    from scenic.core.dynamics.invocables import Invocable

    if isinstance(x, Invocable):
        return ("beh", type(x).__name__, canon(tuple(getattr(x, "_args", ())), depth + 1),
                canon(dict(getattr(x, "_kwargs", {})), depth + 1))

    from scenic.core.regions import Region
    from scenic.core.workspaces import Workspace

    if isinstance(x, Workspace):
        return ("workspace", canon(x.region, depth + 1))
    if isinstance(x, Region):
        return canon_region(x, depth)

    from scenic.core.object_types import Mutator
    from scenic.core.shapes import Shape

    if isinstance(x, Shape):
        return ("shape", type(x).__name__, canon(getattr(x, "dimensions", None), depth + 1))
    if isinstance(x, Mutator):
        return ("mutator", type(x).__name__, canon(getattr(x, "stddevs", None), depth + 1))
    if isinstance(x, type):
        return ("type", x.__name__)
    if isinstance(x, (types.FunctionType, types.BuiltinFunctionType, types.MethodType)):
        return ("func", getattr(x, "__qualname__", getattr(x, "__name__", "?")))
    try:
        from scenic.core.dynamics.actions import Action

        if isinstance(x, Action):
            attrs = {k: v for k, v in vars(x).items() if not k.startswith("_")}
            return ("action", type(x).__name__, canon(attrs, depth + 1))
    except ImportError:  # pragma: no cover
        pass
    STATS["opaque"] += 1
    STATS["opaque:" + type(x).__name__] += 1
    return ("opaque", type(x).__name__)


def canon_orientation(o):
    q = [float(c) for c in o.q]
    sign = 1.0
    for c in q:
        if c != 0 and c == c:
            sign = math.copysign(1.0, c)
            break
    # -0.0 and 0.0 denote the same component of a rotation
    return ("Q",) + tuple(fhex(c * sign + 0.0) for c in q)


_REGION_ATTRS = {
    "CircularRegion": ("center", "radius"),
    "SectorRegion": ("center", "radius", "heading", "angle"),
    "RectangularRegion": ("position", "heading", "width", "length"),
    "PolylineRegion": ("points",),
    "PathRegion": ("points",),
    "PointSetRegion": ("points",),
    "PolygonalRegion": ("points", "z"),
    "GridRegion": ("grid", "Ax", "Ay", "Bx", "By"),
    "BoxRegion": ("dimensions", "position", "rotation"),
    "SpheroidRegion": ("dimensions", "position", "rotation"),
    "MeshVolumeRegion": ("dimensions", "position", "rotation"),
    "MeshSurfaceRegion": ("dimensions", "position", "rotation"),
    "IntersectionRegion": ("regions",),
    "UnionRegion": ("regions",),
    "DifferenceRegion": ("regionA", "regionB"),
    "AllRegion": (),
    "EmptyRegion": (),
}


def canon_region(r, depth=0):
    name = type(r).__name__
    attrs = None
    for cls in type(r).__mro__:
        if cls.__name__ in _REGION_ATTRS:
            attrs = _REGION_ATTRS[cls.__name__]
            break
    if attrs is None:
        STATS["opaque-region:" + name] += 1
        return ("reg", name, ("name", getattr(r, "name", None)))
    out = []
    for a in attrs:
        try:
            v = getattr(r, a)
        except Exception:  # attribute not available for this instance
            continue
        if a == "points" and v is not None:
            v = tuple(tuple(float(c) for c in p) for p in v)
        out.append((a, canon(v, depth + 1)))
    if name == "PolygonalRegion" and not out:
        out.append(("wkt", r.polygons.wkt))
    return ("reg", name, tuple(out))


def canon_object(obj, skip=SKIP_PROPS):
    """(class name, sorted property items) of a Scenic object, read through its dynamic proxy
    exactly as user code would read it."""
    items = []
    for prop in sorted(obj.properties):
        if prop in skip:
            continue
        items.append((prop, canon(getattr(obj, prop), 1)))
    return ("obj", type(obj).__name__, tuple(items))


def canon_scene(scene):
    """Canonical dump of a Scene: every property of every object (ego first, as in
    Scene.objects), the ego's index, the global parameters and the workspace."""
    objs = tuple(canon_object(o) for o in scene.objects)
    ego = None
    for i, o in enumerate(scene.objects):
        if o is scene.egoObject:
            ego = i
    params = tuple(sorted(((k, canon(v, 1)) for k, v in scene.params.items()), key=_sortkey))
    return ("scene", objs, ("ego", ego), ("params", params),
            canon(getattr(scene, "workspace", None), 1))


def canon_actions(sim_or_result, objects):
    """actions: per step, a tuple of (agent index in `objects`, canon(actions)) in the order the
    implementation stored them."""
    result = getattr(sim_or_result, "result", sim_or_result)
    steps = []
    for allActions in result.actions:
        row = []
        for agent, acts in allActions.items():
            idx = None
            for i, o in enumerate(objects):
                if o is agent:
                    idx = i
            row.append((idx, canon(tuple(acts), 1)))
        steps.append(tuple(row))
    return tuple(steps)


def canon_trajectory(result):
    out = []
    for state in result.trajectory:
        pos = tuple(canon(p, 1) for p in state)
        ori = tuple(canon(o, 1) for o in getattr(state, "orientations", ()))
        out.append((pos, ori))
    return tuple(out)


def canon_result(sim):
    """Canonical dump of a finished Simulation (None -> ("rejected",))."""
    if sim is None:
        return ("rejected",)
    res = sim.result
    recs = tuple(sorted(((k, canon(v, 1)) for k, v in res.records.items()), key=_sortkey))
    return ("result",
            ("trajectory", canon_trajectory(res)),
            ("actions", canon_actions(res, sim.objects)),
            ("records", recs),
            ("termination", res.terminationType.name, res.terminationReason),
            ("time", sim.currentTime))


def diff(a, b, path=""):
    """First few paths at which two canonical trees differ (for failure details)."""
    out = []

    def walk(x, y, p):
        if len(out) >= 4:
            return
        if x == y:
            return
        if isinstance(x, tuple) and isinstance(y, tuple) and len(x) == len(y):
            # name the component after a leading tag / key if there is one
            for i, (u, v) in enumerate(zip(x, y)):
                label = str(i)
                if isinstance(u, tuple) and u and isinstance(u[0], str) and \
                        isinstance(v, tuple) and v and u[0] == v[0]:
                    label = u[0]
                walk(u, v, p + "/" + label)
            return
        out.append((p, _short(x), _short(y)))

    walk(a, b, path)
    return out


def _short(x):
    s = repr(x)
    return s if len(s) < 160 else s[:157] + "..."


def selftest():
    """Start-up self check on hand-computed examples (raises AssertionError)."""
    from scenic.core.vectors import Orientation, Vector

    assert canon(0.5) == ("f", "0x1.0000000000000p-1")
    assert canon(1) == 1 and canon(True) == ("b", True) and canon(1.0) != canon(1)
    assert canon(-0.0) != canon(0.0)
    assert canon(float("nan")) == canon(float("nan"))
    assert canon(Vector(1, 2, 3)) == ("V", (1.0).hex(), (2.0).hex(), (3.0).hex())
    assert canon((1, [2, {3: "x"}])) == ("t", 1, ("l", 2, ("d", (3, "x"))))
    assert canon({2, 1}) == canon({1, 2}) == ("s", 1, 2)
    a = Orientation.fromEuler(0.3, 0.2, 0.1)
    from scipy.spatial.transform import Rotation

    b = Orientation(Rotation(-a.q, normalize=False))
    assert canon(a) == canon(b), (canon(a), canon(b))
    assert canon(a) != canon(Orientation.fromEuler(0.3, 0.2, 0.1000001))
    assert diff(("t", 1, ("f", "a")), ("t", 1, ("f", "b"))) == [("/f/1", "'a'", "'b'")]
