"""Shared machinery of the property checks: case collection, Hypothesis driving with
collect-then-shrink, time limits, canonical digests.  No dependence on Scenic."""

from __future__ import annotations

import contextlib
import hashlib
import json
import os
import signal
import time
import traceback
from collections import Counter

VERIF = os.path.dirname(os.path.dirname(os.path.abspath(__file__)))


class CaseTimeout(BaseException):
    """Raised by time_limit; BaseException so that `except Exception` in the tested code
    cannot swallow it."""


class HarnessError(Exception):
    """A defect of the harness itself (exit status 2, never a VIOLATION)."""


@contextlib.contextmanager
def time_limit(seconds):
    if not seconds:
        yield
        return

    def handler(signum, frame):
        raise CaseTimeout()

    old = signal.signal(signal.SIGALRM, handler)
    signal.setitimer(signal.ITIMER_REAL, seconds)
    try:
        yield
    finally:
        signal.setitimer(signal.ITIMER_REAL, 0)
        signal.signal(signal.SIGALRM, old)


def jsonable(x):
    """Best-effort conversion of a case to plain JSON data."""
    if isinstance(x, (str, int, bool)) or x is None:
        return x
    if isinstance(x, float):
        if x != x or x in (float("inf"), float("-inf")):
            return repr(x)
        return x
    if isinstance(x, (list, tuple)):
        return [jsonable(v) for v in x]
    if isinstance(x, dict):
        return {str(k): jsonable(v) for k, v in x.items()}
    if isinstance(x, (set, frozenset)):
        return sorted((jsonable(v) for v in x), key=repr)
    if isinstance(x, bytes):
        return {"__bytes__": x.hex()}
    try:
        from fractions import Fraction

        if isinstance(x, Fraction):
            return f"{x.numerator}/{x.denominator}"
    except Exception:
        pass
    return repr(x)


def digest(case) -> str:
    s = json.dumps(jsonable(case), sort_keys=True, separators=(",", ":"))
    return hashlib.sha1(s.encode()).hexdigest()[:16]


class Outcome:
    """What judging one case produced."""

    __slots__ = ("nontrivial", "classes", "failures", "inconclusive", "note")

    def __init__(self, nontrivial=False, classes=(), failures=(), inconclusive=False, note=None):
        self.nontrivial = bool(nontrivial)
        self.classes = list(classes)
        # failures: list of (signature, detail-dict)
        self.failures = list(failures)
        self.inconclusive = inconclusive
        self.note = note

    def fail(self, sig, **detail):
        self.failures.append((sig, jsonable(detail)))

    def cls(self, *names):
        self.classes.extend(names)


class Collector:
    """Accumulates the results of one shard; merged by the parent."""

    MAX_SAMPLES = 3
    MAX_FAIL_PER_SIG = 3

    def __init__(self, prop, shard_id=0):
        self.prop = prop
        self.shard_id = shard_id
        self.evaluations = 0
        self.nontrivial = set()
        self.classes = Counter()
        self.failures = {}  # sig -> {"count": n, "examples": [ {case, detail, shrunk} ]}
        self.samples = []
        self.inconclusive = 0
        self.discarded = 0
        self.extra = {}
        self.t0 = time.time()

    def add(self, case, out: Outcome):
        self.evaluations += 1
        if out.inconclusive:
            self.inconclusive += 1
        d = digest(case)
        if out.nontrivial:
            self.nontrivial.add(d)
            if len(self.samples) < self.MAX_SAMPLES:
                self.samples.append(jsonable(case))
        for c in out.classes:
            self.classes[c] += 1
        for sig, detail in out.failures:
            ent = self.failures.setdefault(sig, {"count": 0, "examples": []})
            ent["count"] += 1
            if len(ent["examples"]) < self.MAX_FAIL_PER_SIG:
                ent["examples"].append({"case": jsonable(case), "detail": detail, "shrunk": False})

    def add_shrunk(self, sig, case, detail):
        ent = self.failures.setdefault(sig, {"count": 0, "examples": []})
        ent["examples"].insert(0, {"case": jsonable(case), "detail": detail, "shrunk": True})

    def bump(self, key, n=1):
        self.extra[key] = self.extra.get(key, 0) + n

    def result(self):
        if not self.samples:
            pass
        return {
            "shard": self.shard_id,
            "evaluations": self.evaluations,
            "nontrivial": sorted(self.nontrivial),
            "classes": dict(self.classes),
            "failures": self.failures,
            "samples": self.samples,
            "inconclusive": self.inconclusive,
            "discarded": self.discarded,
            "extra": self.extra,
            "wall_s": time.time() - self.t0,
        }


def exc_signature(exc, package_hint="scenic"):
    """(type, innermost frame inside the tested package) of an exception."""
    tb = traceback.extract_tb(exc.__traceback__)
    where = "?"
    for fr in reversed(tb):
        fn = fr.filename.replace("\\", "/")
        if f"/{package_hint}/" in fn and "/vf/" not in fn:
            where = f"{fn.split('/' + package_hint + '/', 1)[1]}:{fr.name}"
            break
    return f"{type(exc).__name__}@{where}"


def scenic_dirty():
    import sys

    v = sys.modules.get("scenic.syntax.veneer")
    if v is None:
        return False
    return bool(v.activity or v.evaluatingRequirement or v.evaluatingGuard or v.scenarioStack
                or v.currentSimulation is not None or v.currentScenario is not None
                or v.currentBehavior is not None or v.runningScenarios or v.mode2D
                or v.lockedParameters or v.lockedModel is not None)


def scenic_recover():
    """Bring Scenic's interpreter-global state back to pristine after an asynchronous
    interruption (time limit) and check that a trivial program compiles and samples.
    Returns False if the process cannot be trusted any more."""
    import sys

    v = sys.modules.get("scenic.syntax.veneer")
    if v is None:
        return True
    try:
        import scenic
        import scenic.core.object_types as ot

        v.activity = 0
        v.currentScenario = None
        v.scenarioStack.clear()
        v.scenarios = []
        v.evaluatingRequirement = False
        v._globalParameters = {}
        v.lockedParameters = set()
        v.lockedModel = None
        v.loadingModel = False
        v.currentSimulation = None
        v.inInitialScenario = True
        v.runningScenarios = []
        v.currentBehavior = None
        v.simulatorFactory = None
        v.evaluatingGuard = False
        if v.mode2D:
            v.mode2D = False
            v.Point, v.OrientedPoint, v.Object = v._originalConstructibles
            ot.Point, ot.OrientedPoint, ot.Object = v._originalConstructibles
        sc = scenic.scenarioFromString("ego = new Object\nparam p = Range(0, 1)\n")
        sc.generate(maxIterations=5)
        return not v.isActive()
    except BaseException:
        return False


def hyp_search(strategy, judge, n, seed, col: Collector, *, budget_s=None, shrink_s=60,
               known_sigs=(), case_timeout=None, shrink=True):
    """Drive `judge(case) -> Outcome` over `n` cases of `strategy` with a fixed seed.

    Failures do not stop the search (collect-then-shrink): every failing case is bucketed
    by signature; afterwards the first case of each *new* signature is shrunk by a second
    Hypothesis pass that fails exactly on that signature.  Signatures in `known_sigs`
    (listed findings) are counted but not shrunk.
    """
    import hypothesis
    from hypothesis import HealthCheck, Phase, given, settings

    t_end = (time.time() + budget_s) if budget_s else None
    state = {"skipped": 0}

    def run_one(case):
        if state.get("poisoned"):
            return None
        if scenic_dirty():
            # an earlier case left Scenic's interpreter-global state inconsistent (that is C14's
            # subject); it must not leak into the verdict of this case
            col.bump("state_resets")
            if not scenic_recover():
                state["poisoned"] = True
                return None
        try:
            with time_limit(case_timeout):
                return judge(case)
        except CaseTimeout:
            # The alarm interrupted the tested code at an arbitrary point: its global state may
            # be inconsistent.  Reset it and make sure a trivial compile still works; if not,
            # nothing more is judged in this process (never a VIOLATION).
            if not scenic_recover():
                state["poisoned"] = True
            return Outcome(inconclusive=True, classes=["timeout"])

    @hypothesis.seed(seed)
    @settings(max_examples=n, database=None, deadline=None, derandomize=False,
              phases=[Phase.generate], report_multiple_bugs=False,
              suppress_health_check=list(HealthCheck))
    @given(strategy)
    def search(case):
        if t_end and time.time() > t_end:
            state["skipped"] += 1
            return
        out = run_one(case)
        if out is None:
            state["skipped"] += 1
            return
        col.add(case, out)

    search()
    if state.get("poisoned"):
        col.bump("shards_stopped_after_timeout")
    if state["skipped"]:
        col.bump("skipped_budget", state["skipped"])

    if not shrink:
        return
    import fnmatch

    for sig in list(col.failures):
        if any(fnmatch.fnmatchcase(sig, k) for k in known_sigs):
            continue
        first = col.failures[sig]["examples"][0]["case"]
        best = {"case": None, "detail": None}
        t_stop = time.time() + shrink_s

        class Found(Exception):
            pass

        @hypothesis.seed(seed)
        @settings(max_examples=max(n, 50) * 2, database=None, deadline=None, derandomize=False,
                  phases=[Phase.generate, Phase.shrink], report_multiple_bugs=False,
                  suppress_health_check=list(HealthCheck))
        @given(strategy)
        def hunt(case):
            if time.time() > t_stop:
                return
            out = run_one(case)
            if out is None:
                return
            for s, detail in out.failures:
                if s == sig:
                    best["case"], best["detail"] = case, detail
                    raise Found()

        try:
            hunt()
        except Found:
            pass
        except Exception:
            # Hypothesis-internal trouble (flaky etc.): keep the unshrunk example
            col.bump("shrink_errors")
        if best["case"] is not None and digest(best["case"]) != digest(first):
            col.add_shrunk(sig, best["case"], best["detail"])


_BIG = None


def with_big_stack(fn, slots=120000):
    """Run fn() inside a frame with ~1 MB of locals.

    CPython 3.12 allocates the interpreter's frame stack in 16 KB chunks obtained with mmap
    and releases a chunk as soon as the frame that opened it returns; a hot loop whose call
    depth straddles a chunk boundary then performs one mmap/munmap pair per iteration (measured
    here: ~1000 per generated case, and >50 % system time with 16 worker processes).  A frame
    with very many local variables forces one large chunk with ample headroom, so all nested
    frames live in it.  Purely a performance measure; no semantic effect."""
    global _BIG
    if _BIG is None:
        src = ("def _big(run):\n    if run is not None:\n        return run()\n"
               + "".join(f"    v{i} = 0\n" for i in range(slots)))
        ns = {}
        exec(compile(src, "<bigstack>", "exec"), ns)
        _BIG = ns["_big"]
    return _BIG(fn)


def write_json(path, obj):
    os.makedirs(os.path.dirname(path), exist_ok=True)
    tmp = f"{path}.tmp{os.getpid()}"
    with open(tmp, "w") as f:
        json.dump(obj, f, indent=1, sort_keys=False, default=repr)
    os.replace(tmp, path)
