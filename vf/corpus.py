"""Deterministic, sorted corpora shared by the syntax checks (DESIGN §2.6).

* Python corpus: every ``*.py`` under the standard library of /venv's interpreter and under
  /venv/lib/python3.12/site-packages (read-only).
* Scenic corpus: ``examples/**/*.scenic``, ``src/scenic/**/*.scenic``, ``tests/**/*.scenic``,
  the string literals passed to ``compileScenic/sampleEgoFrom/...`` in ``tests/**/*.py``
  (extracted with ``ast``) and the Scenic code blocks of ``docs/**/*.rst``.

The corpora are always read from ``/repo`` (not ``$VERIF_REPO``): a mutant copy of ``src`` must be
judged on the same inputs as the unchanged tree.  Nothing here imports scenic.
"""

from __future__ import annotations

import ast
import functools
import inspect
import os
import re
import textwrap

REPO = "/repo"
STDLIB = "/root/.pyenv/versions/3.12.1/lib/python3.12"
SITE = "/venv/lib/python3.12/site-packages"


def _walk(root, suffix, skip_dirs=()):
    out = []
    for dirpath, dirnames, filenames in os.walk(root):
        dirnames[:] = sorted(d for d in dirnames if d not in skip_dirs)
        for fn in sorted(filenames):
            if fn.endswith(suffix):
                out.append(os.path.join(dirpath, fn))
    return out


@functools.lru_cache(maxsize=None)
def python_files():
    """Sorted tuple of the paths of the Python corpus."""
    std = _walk(STDLIB, ".py", skip_dirs=("site-packages", "__pycache__"))
    site = _walk(SITE, ".py", skip_dirs=("__pycache__",))
    return tuple(sorted(set(std) | set(site)))


def read_python(path):
    """Source text of a corpus file decoded as CPython would (PEP 263), or None."""
    import tokenize

    try:
        with tokenize.open(path) as f:
            return f.read()
    except (SyntaxError, UnicodeDecodeError, OSError, LookupError):
        return None


# ---------------------------------------------------------------------------------------------
# Scenic corpus
# ---------------------------------------------------------------------------------------------

# helper functions of the repository's tests whose first argument is Scenic source text
_EXTRA_CODE_FUNCS = {"scenarioFromString", "parse_string", "parse_string_helper"}


def _code_funcs():
    names = set(_EXTRA_CODE_FUNCS)
    try:
        tree = ast.parse(open(os.path.join(REPO, "tests", "utils.py")).read())
    except (OSError, SyntaxError):
        return names | {"compileScenic", "sampleEgoFrom", "sampleSceneFrom", "sampleParamPFrom"}
    for node in tree.body:
        if isinstance(node, ast.FunctionDef) and node.args.args and node.args.args[0].arg == "code":
            names.add(node.name)
    return names


def _callee_name(func):
    if isinstance(func, ast.Name):
        return func.id
    if isinstance(func, ast.Attribute):
        return func.attr
    return None


def _test_literals():
    funcs = _code_funcs()
    out = []
    for path in _walk(os.path.join(REPO, "tests"), ".py", skip_dirs=("__pycache__",)):
        try:
            tree = ast.parse(open(path, encoding="utf-8").read())
        except (OSError, SyntaxError, UnicodeDecodeError):
            continue
        rel = os.path.relpath(path, REPO)
        found = []
        for node in ast.walk(tree):
            if not (isinstance(node, ast.Call) and _callee_name(node.func) in funcs):
                continue
            arg = node.args[0] if node.args else next(
                (k.value for k in node.keywords if k.arg == "code"), None)
            if isinstance(arg, ast.Constant) and isinstance(arg.value, str):
                text = inspect.cleandoc(arg.value)
                if text.strip():
                    found.append((arg.lineno, arg.col_offset, text))
        for lineno, col, text in sorted(found):
            out.append({"id": f"{rel}:{lineno}:{col}", "kind": "test-literal", "src": text + "\n"})
    return out


_DIRECTIVE = re.compile(r"^(\s*)\.\.\s+([\w-]+)::\s*(.*)$")


def rst_blocks(path):
    """(line, language, text) of every literal / code block of an .rst file.  Bare ``::``
    paragraphs and ``code-block::`` without argument get the documentation's default
    highlight language, which docs/conf.py sets to ``scenic``."""
    try:
        lines = open(path, encoding="utf-8").read().expandtabs(4).split("\n")
    except (OSError, UnicodeDecodeError):
        return []
    out = []
    i = 0
    n = len(lines)
    while i < n:
        line = lines[i]
        lang = None
        m = _DIRECTIVE.match(line)
        if m:
            if m.group(2) in ("code-block", "code", "sourcecode"):
                lang = m.group(3).strip() or "scenic"
            base = len(m.group(1))
        elif line.rstrip().endswith("::"):
            if not line.lstrip().startswith(".."):
                lang = "scenic"
            base = len(line) - len(line.lstrip())
        if lang is None:
            i += 1
            continue
        j = i + 1
        # directive options and blank lines
        while j < n and (not lines[j].strip() or
                         (m and re.match(r"^\s+:[\w-]+:", lines[j]) and
                          len(lines[j]) - len(lines[j].lstrip()) > base)):
            j += 1
        block = []
        start = j
        while j < n:
            ln = lines[j]
            if ln.strip() and len(ln) - len(ln.lstrip()) <= base:
                break
            block.append(ln)
            j += 1
        while block and not block[-1].strip():
            block.pop()
        if block:
            out.append((start + 1, lang, textwrap.dedent("\n".join(block)) + "\n"))
        i = max(j, i + 1)
    return out


_ROLE = re.compile(r":(scenic|specifier|keyword):`([^`]+)`")


def rst_roles(path):
    """(line, role, text) of every inline :scenic:/:specifier: role."""
    out = []
    try:
        text = open(path, encoding="utf-8").read()
    except (OSError, UnicodeDecodeError):
        return out
    for k, line in enumerate(text.split("\n"), 1):
        for m in _ROLE.finditer(line):
            out.append((k, m.group(1), m.group(2)))
    return out


def _doc_blocks(langs=("scenic",)):
    out = []
    for path in _walk(os.path.join(REPO, "docs"), ".rst", skip_dirs=("_build",)):
        rel = os.path.relpath(path, REPO)
        for line, lang, text in rst_blocks(path):
            if lang in langs:
                out.append({"id": f"{rel}:{line}", "kind": "doc-block:" + lang, "src": text})
    return out


@functools.lru_cache(maxsize=None)
def scenic_programs():
    """Sorted tuple of {"id", "kind", "src"}: the Scenic corpus."""
    out = []
    for sub in ("examples", os.path.join("src", "scenic"), "tests"):
        for path in _walk(os.path.join(REPO, sub), ".scenic", skip_dirs=("__pycache__",)):
            try:
                src = open(path, encoding="utf-8").read()
            except (OSError, UnicodeDecodeError):
                continue
            out.append({"id": os.path.relpath(path, REPO), "kind": "file", "src": src})
    out += _test_literals()
    out += _doc_blocks(("scenic",))
    seen = set()
    uniq = []
    for p in sorted(out, key=lambda p: p["id"]):
        if p["src"] in seen:
            continue
        seen.add(p["src"])
        uniq.append(p)
    return tuple(uniq)


@functools.lru_cache(maxsize=None)
def scenic_grammar_blocks():
    """The ``scenic-grammar`` code blocks of the documentation (templates, not programs)."""
    return tuple(_doc_blocks(("scenic-grammar",)))


if __name__ == "__main__":
    pf = python_files()
    sp = scenic_programs()
    kinds = {}
    for p in sp:
        kinds[p["kind"]] = kinds.get(p["kind"], 0) + 1
    print(len(pf), "python files;", len(sp), "scenic programs", kinds,
          len(scenic_grammar_blocks()), "grammar blocks")
