"""Harness-owned simulator for the dynamic-fragment checks (C12, C13, ...).

Two things live here:

* `LoggingSimulator` / `LoggingSimulation`: subclasses of Scenic's `Simulator` / `Simulation`
  which log every call the core makes into the simulator interface (create / executeActions /
  step / getProperties / destroy), move objects deterministically (`position += velocity*dt`)
  and return, from `scheduleForAgents`, the agent order prescribed by the case.
* the *step-indexed truth table*: generated Scenic programs start with

      from vf.dynsim import T, TR, LOG, R, A

  `T("c")` looks the atom `c` up in the table of the run in progress at row
  `simulation().currentTime`; `LOG("tag")` / `R("tag")` append observable events to the run's
  log; `A(k)` builds an action.  The compiled scenario therefore contains no data of a
  particular run and can be re-simulated under any number of tables / schedules / time steps.

Everything a run needs is in a `Plan`; `run(scenario, plan, ...)` performs one simulation and
returns what was observed.  No randomness, no wall clock.
"""

from __future__ import annotations

import gc
import sys
import traceback

from vf import core

if core.VERIF not in sys.path:  # so that generated programs can `from vf.dynsim import ...`
    sys.path.append(core.VERIF)

from scenic.core.dynamics.actions import Action  # noqa: E402
from scenic.core.simulators import Simulation, Simulator  # noqa: E402
from scenic.core.vectors import Vector  # noqa: E402

HEADER = "from vf.dynsim import T, TR, LOG, R, A\n"

#: look-ups allowed within one time step before the run is declared stalled
STALL_LIMIT = 20000


class Stall(BaseException):
    """The program under test looped without advancing time (BaseException: it must not be
    swallowed by an `except Exception` of the code under test)."""


class Plan:
    """Everything harness-owned about one run."""

    def __init__(self, table, schedule=None, schedule_kind="list"):
        self.table = table  # atom name -> list of 0/1, row t = value at currentTime t
        self.schedule = schedule or []  # per step: list of agent names (a permutation)
        # what scheduleForAgents returns: "list", "tuple" or "iter" (a one-shot iterator; the
        # interface documents "an iterable which is a permutation of self.agents")
        self.schedule_kind = schedule_kind
        # tables of successive attempts of one simulate(maxIterations=n) call: attempt i uses
        # attempts[min(i, len-1)]; the log is that of the last attempt
        self.attempts = [table]
        self.attempt = -1
        self.log = []
        self.sim = None
        self.calls = 0
        self.calls_step = -1
        self.destroyed = 0

    def now(self):
        if self.sim is None:
            raise core.HarnessError("T/LOG used while no harness simulation is running")
        return self.sim.currentTime


_CUR = None  # Plan of the run in progress


def _plan():
    if _CUR is None:
        raise core.HarnessError("T/LOG used outside vf.dynsim.run")
    return _CUR


def T(name):
    """Truth-table atom: value of `name` at the current time step."""
    p = _plan()
    t = p.now()
    if p.calls_step != t:
        p.calls_step, p.calls = t, 0
    p.calls += 1
    if p.calls > STALL_LIMIT:
        raise Stall(name)
    row = p.table[name]
    if t >= len(row):
        raise core.HarnessError(f"truth table for {name!r} has no row {t}")
    return bool(row[t])


def TR(name):
    """Like T, but a false value is signalled by raising Scenic's RejectionException
    (a rejection raised inside a guard)."""
    from scenic.core.distributions import RejectionException

    if not T(name):
        raise RejectionException(f"TR({name})")
    return True


def LOG(tag):
    p = _plan()
    t = p.now()
    if p.calls_step != t:
        p.calls_step, p.calls = t, 0
    p.calls += 1
    if p.calls > STALL_LIMIT:
        raise Stall(tag)
    p.log.append(("log", t, tag))
    return True


def R(tag):
    """Expression of a `record` statement: logs its own evaluation, value names tag and time."""
    p = _plan()
    t = p.now()
    p.log.append(("rec", t, tag))
    return f"{tag}@{t}"


class A(Action):
    """Action number k; applying it is logged."""

    def __init__(self, k):
        self.k = k

    def applyTo(self, agent, simulation):
        simulation.plan.log.append(("apply", simulation.currentTime, agent.name, self.k))

    def __repr__(self):
        return f"A({self.k})"


class LoggingSimulator(Simulator):
    def __init__(self):
        super().__init__()
        self.plan = None

    def createSimulation(self, scene, **kwargs):
        return LoggingSimulation(scene, plan=self.plan, **kwargs)


class LoggingSimulation(Simulation):
    def __init__(self, scene, *, plan, **kwargs):
        self.plan = plan
        plan.sim = self
        plan.attempt += 1
        plan.table = plan.attempts[min(plan.attempt, len(plan.attempts) - 1)]
        plan.log = []
        plan.destroyed = 0
        plan.calls_step = -1
        self._pos = {}
        self._vel = {}
        super().__init__(scene, **kwargs)

    # -- interface called by the core ---------------------------------------------------------
    def createObjectInSimulator(self, obj):
        self.plan.log.append(("create", self.currentTime, obj.name))
        self._pos[obj] = obj.position
        self._vel[obj] = obj.velocity

    def scheduleForAgents(self):
        sched = self.plan.schedule
        kind = self.plan.schedule_kind
        if not sched:
            res = self.agents
            if kind == "list":
                return res
        else:
            order = sched[self.currentTime % len(sched)]
            rank = {name: i for i, name in enumerate(order)}
            big = len(rank)
            idx = {id(a): i for i, a in enumerate(self.agents)}
            res = sorted(self.agents, key=lambda a: (rank.get(a.name, big), idx[id(a)]))
        if kind == "tuple":
            return tuple(res)
        if kind == "iter":
            return iter(list(res))
        return res

    def executeActions(self, allActions):
        self.plan.log.append(("exec", self.currentTime,
                              [[agent.name, [getattr(a, "k", repr(a)) for a in acts]]
                               for agent, acts in allActions.items()]))
        super().executeActions(allActions)

    def step(self):
        self.plan.log.append(("step", self.currentTime))
        dt = self.timestep
        for obj in self.objects:
            self._pos[obj] = self._pos[obj] + self._vel[obj] * dt

    def getProperties(self, obj, properties):
        self.plan.log.append(("get", self.currentTime, obj.name))
        vel = self._vel[obj]
        vals = dict(
            position=self._pos[obj],
            yaw=obj.yaw,
            pitch=obj.pitch,
            roll=obj.roll,
            velocity=vel,
            angularVelocity=Vector(0, 0, 0),
            speed=float(vel.norm()),
            angularSpeed=0.0,
        )
        for prop in properties:
            if prop not in vals:
                vals[prop] = None
        return vals

    def destroy(self):
        self.plan.destroyed += 1
        self.plan.log.append(("destroy", self.currentTime))


_runs = [0]
GC_EVERY = 400


def reset_scenic_state(collect=False):
    """Bring Scenic's process-global simulation state back to pristine after a run that ended
    with an exception (suspended behavior generators that are finalised late restore stale
    values of `veneer.currentBehavior`; that is C14's subject, here we only protect the next
    run from it).  The cyclic collector is switched off while runs are in progress and invoked
    here at a safe point every GC_EVERY runs, so that no finaliser can fire inside a run."""
    import scenic.syntax.veneer as veneer

    if collect:
        gc.collect()
    veneer.currentBehavior = None
    veneer.currentSimulation = None
    veneer.currentScenario = None
    veneer.runningScenarios = []
    veneer.evaluatingGuard = False
    veneer.evaluatingRequirement = False
    veneer.scenarioStack.clear() if hasattr(veneer.scenarioStack, "clear") else None
    veneer._globalParameters = {}


def state_is_pristine():
    import scenic.syntax.veneer as veneer

    return (veneer.currentBehavior is None and veneer.currentSimulation is None
            and veneer.currentScenario is None and not veneer.evaluatingGuard
            and not veneer.evaluatingRequirement and not veneer.runningScenarios)


def run(scenario, plan, *, maxSteps, timestep, raiseGuardViolations=False, scene=None,
        maxIterations=1):
    """One simulation of a fresh scene of `scenario` (or of the given, already used `scene`)
    under `plan`.

    Returns a dict: status in {"done", "rejected", "guard", "error", "stall"}; for "guard" the
    exception class name; for "error" the exception (signature + repr); always the log and the
    final clock; for "done" the SimulationResult digest.
    """
    global _CUR
    from scenic.core.dynamics import GuardViolation

    if gc.isenabled():
        gc.disable()
    _runs[0] += 1
    if _runs[0] % GC_EVERY == 0 or not state_is_pristine():
        reset_scenic_state(collect=True)
    if scene is None:
        scene, _ = scenario.generate(maxIterations=1, verbosity=0)
    simulator = LoggingSimulator()
    simulator.plan = plan
    out = {"status": None}
    _CUR = plan
    try:
        sim = simulator.simulate(scene, maxSteps=maxSteps, timestep=timestep, verbosity=0,
                                 raiseGuardViolations=raiseGuardViolations,
                                 maxIterations=maxIterations)
        if sim is None:
            out["status"] = "rejected"
        else:
            out["status"] = "done"
            res = sim.result
            names = [o.name for o in sim.objects]
            out["result"] = {
                "terminationType": res.terminationType.name,
                "trajectory_len": len(res.trajectory),
                "trajectory": [[[float(c) for c in p] for p in st] for st in res.trajectory],
                "object_names": names,
                "actions": [[[ag.name, [getattr(a, "k", repr(a)) for a in acts]]
                             for ag, acts in step.items()] for step in res.actions],
                "records": {k: ([[int(t), v] for t, v in val] if isinstance(val, list) else val)
                            for k, val in res.records.items()},
                "currentTime": sim.currentTime,
            }
    except Stall:
        out["status"] = "stall"
    except GuardViolation as e:
        out["status"] = "guard"
        out["exc"] = type(e).__name__
        traceback.clear_frames(e.__traceback__)
    except core.HarnessError:
        raise
    except Exception as e:
        out["status"] = "error"
        out["exc"] = type(e).__name__
        out["sig"] = core.exc_signature(e)
        out["repr"] = repr(e)[:300]
        traceback.clear_frames(e.__traceback__)
    finally:
        _CUR = None
    if out["status"] != "done":
        reset_scenic_state()
    # hygiene: a top-level scenario left marked as running would make every later simulation
    # of this compiled scenario fail; the caller recompiles (and reports it)
    out["left_running"] = bool(getattr(scene.dynamicScenario, "_isRunning", False))
    out["scene"] = scene
    out["attempts"] = plan.attempt + 1
    out["log"] = plan.log
    out["time"] = plan.sim.currentTime if plan.sim is not None else None
    out["destroyed"] = plan.destroyed
    return out


def selftest():
    """Start-up self check of the harness simulator on a hand-computed run."""
    import scenic

    src = HEADER + (
        "behavior B():\n"
        "    while True:\n"
        "        if T('c'):\n"
        "            take A(1)\n"
        "        else:\n"
        "            wait\n"
        "ego = new Object with name 'a0', with behavior B, with velocity (1, 0, 0)\n"
        "record R('r') as r\n"
    )
    sc = scenic.scenarioFromString(src, mode2D=False)
    plan = Plan({"c": [1, 0, 1]}, [["a0"]])
    got = run(sc, plan, maxSteps=2, timestep=0.5)
    # Only harness-owned facts are asserted here (a wrong order or count of the events is the
    # implementation's business and must surface as a VIOLATION of the property, not as a
    # harness error): every hook logs, the table drives the behaviour, objects move.
    kinds = {e[0] for e in got["log"]}
    if got["status"] != "done" or not kinds >= {"create", "get", "rec", "exec", "apply", "step",
                                                 "destroy"}:
        raise core.HarnessError(f"dynsim selftest: hooks not logging: {got}")
    applied = [e for e in got["log"] if e[0] == "apply"]
    execs = [e for e in got["log"] if e[0] == "exec"]
    if any(e[2:] != ("a0", 1) for e in applied) or not any(e[2] == [["a0", []]] for e in execs):
        raise core.HarnessError(f"dynsim selftest: table look-ups not effective: {got['log']}")
    r = got["result"]
    if not isinstance(plan.sim, LoggingSimulation) or r["trajectory"][-1][0][0] <= 0.0:
        raise core.HarnessError(f"dynsim selftest: unexpected result {r}")
    if not state_is_pristine():
        raise core.HarnessError("dynsim selftest: scenic state not pristine after a run")
