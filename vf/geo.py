"""vf.geo — independent exact solid geometry (DESIGN §2.4).

Pure numpy/scipy.  Nothing in here calls trimesh, FCL or shapely on the geometry being judged.
World geometry is rebuilt from an object's *properties* (position, yaw/pitch/roll, optional
parent orientation, width/length/height) and the *unit* mesh of its shape as
``R · diag(w, l, h) · v + position`` with ``R = Rz(yaw) · Rx(pitch) · Ry(roll)``.

Vocabulary
----------
Part   a convex polytope: vertices, triangles and the H-representation derived from them.
Solid  a (possibly non-convex, possibly multi-body) solid: a list of convex Parts whose union
       is the solid, plus its surface triangle mesh.
Decisions are three-valued: +1 / -1 / 0 (= within the near-boundary band, not judged).

Main entry points: rot, euler_zxy, Part, Solid, inset (LP), contact_s (LP), overlap_verdict,
contained_convex / contained_cells, mesh_distance (exhaustive triangle pairs, exactly pruned),
points_in_mesh (ray parity), polycube (generator-side construction of non-convex solids),
view_angles / in_view_volume (analytic view volume).  `selftest()` must be called once per
process (it is idempotent).
"""

from __future__ import annotations

import math

import numpy as np
from scipy.optimize import linprog

from vf import core

# --------------------------------------------------------------------------------------------
# rotations
# --------------------------------------------------------------------------------------------


def Rz(a):
    c, s = math.cos(a), math.sin(a)
    return np.array([[c, -s, 0.0], [s, c, 0.0], [0.0, 0.0, 1.0]])


def Rx(a):
    c, s = math.cos(a), math.sin(a)
    return np.array([[1.0, 0.0, 0.0], [0.0, c, -s], [0.0, s, c]])


def Ry(a):
    c, s = math.cos(a), math.sin(a)
    return np.array([[c, 0.0, s], [0.0, 1.0, 0.0], [-s, 0.0, c]])


def rot(yaw, pitch, roll):
    """Scenic's intrinsic Z-X-Y convention (yaw about z, then pitch about the new x, then roll
    about the new y):  R = Rz(yaw) · Rx(pitch) · Ry(roll)."""
    return Rz(yaw) @ Rx(pitch) @ Ry(roll)


def euler_zxy(R):
    """Inverse of rot (principal values; gimbal lock resolved with roll = 0)."""
    # R[2,1] = sin(pitch)
    sp = min(1.0, max(-1.0, R[2, 1]))
    pitch = math.asin(sp)
    if abs(sp) < 1 - 1e-12:
        yaw = math.atan2(-R[0, 1], R[1, 1])
        roll = math.atan2(-R[2, 0], R[2, 2])
    else:
        roll = 0.0
        yaw = math.atan2(R[1, 0], R[0, 0])
    return yaw, pitch, roll


def pose_matrix(ypr, parent_ypr=None):
    R = rot(*ypr)
    if parent_ypr is not None:
        R = rot(*parent_ypr) @ R
    return R


# --------------------------------------------------------------------------------------------
# convex parts and solids
# --------------------------------------------------------------------------------------------


def _planes(V, F):
    """Outward unit normals and offsets of the triangles of a *convex* polytope."""
    p0, p1, p2 = V[F[:, 0]], V[F[:, 1]], V[F[:, 2]]
    n = np.cross(p1 - p0, p2 - p0)
    ln = np.linalg.norm(n, axis=1)
    keep = ln > 1e-14 * max(1.0, float(np.abs(V).max())) ** 2
    n = n[keep] / ln[keep, None]
    p0 = p0[keep]
    c = V.mean(axis=0)
    flip = np.einsum("ij,ij->i", n, c - p0) > 0
    n[flip] *= -1
    b = np.einsum("ij,ij->i", n, p0)
    return n, b


class Part:
    """A convex polytope given by vertices V (n,3) and triangles F (m,3) of its boundary."""

    __slots__ = ("V", "F", "A", "b")

    def __init__(self, V, F):
        self.V = np.asarray(V, dtype=float)
        self.F = np.asarray(F, dtype=np.int64)
        self.A, self.b = _planes(self.V, self.F)

    def moved(self, M, t):
        """Image under x -> M x + t (M any invertible 3x3)."""
        return Part(self.V @ np.asarray(M).T + np.asarray(t), self.F)

    def convexity_defect(self):
        """max over vertices and faces of (a·v - b): <= ~0 iff the triangles bound a convex set."""
        return float((self.V @ self.A.T - self.b).max())

    @property
    def centre(self):
        return self.V.mean(axis=0)


BOX_V = np.array([[x, y, z] for x in (-0.5, 0.5) for y in (-0.5, 0.5) for z in (-0.5, 0.5)])
# triangles of the unit box, outward orientation irrelevant (normals are re-oriented)
BOX_F = np.array([[0, 1, 3], [0, 3, 2], [4, 6, 7], [4, 7, 5], [0, 4, 5], [0, 5, 1],
                  [2, 3, 7], [2, 7, 6], [0, 2, 6], [0, 6, 4], [1, 5, 7], [1, 7, 3]])


def box_part(lo, hi):
    lo, hi = np.asarray(lo, float), np.asarray(hi, float)
    return Part(BOX_V * (hi - lo) + (lo + hi) / 2, BOX_F)


class Solid:
    """Union of convex parts + surface mesh (V, F).  `bodies` = number of connected bodies,
    when known by construction (else None)."""

    __slots__ = ("parts", "V", "F", "convex", "bodies")

    def __init__(self, parts, V, F, convex, bodies=None):
        self.parts = list(parts)
        self.V = np.asarray(V, dtype=float)
        self.F = np.asarray(F, dtype=np.int64)
        self.convex = bool(convex)
        self.bodies = bodies

    @staticmethod
    def convex_from_mesh(V, F):
        p = Part(V, F)
        return Solid([p], p.V, p.F, True, 1)

    def moved(self, M, t):
        M = np.asarray(M, float)
        t = np.asarray(t, float)
        return Solid([p.moved(M, t) for p in self.parts], self.V @ M.T + t, self.F,
                     self.convex, self.bodies)

    def placed(self, dims, R, pos):
        """World solid of a unit-extent shape: R · diag(dims) · v + pos."""
        return self.moved(np.asarray(R) @ np.diag(np.asarray(dims, float)), pos)

    @property
    def centre(self):
        return (self.V.min(axis=0) + self.V.max(axis=0)) / 2

    def circumradius_about(self, c):
        return float(np.linalg.norm(self.V - np.asarray(c), axis=1).max())

    @property
    def size(self):
        return float(np.linalg.norm(self.V.max(axis=0) - self.V.min(axis=0)))


# --------------------------------------------------------------------------------------------
# LPs on convex parts
# --------------------------------------------------------------------------------------------


class Unsolved(Exception):
    """The LP solver gave up for numerical reasons (the case is then not judged)."""


def _lp(c, A, b, bounds):
    res = None
    for method in ("highs", "highs-ds", "highs-ipm"):
        res = linprog(c, A_ub=A, b_ub=b, bounds=bounds, method=method)
        if res.status == 2:
            return None
        if res.status == 0:
            return res
    raise Unsolved(f"vf.geo LP: status {res.status} {res.message}")


def inset(P, Q):
    """Largest t such that some point lies at depth >= t inside both convex parts
    (t > 0: a ball of radius t is common to both, t < 0: disjoint, and then the Euclidean
    distance between the parts is at least 2|t|)."""
    A = np.vstack([P.A, Q.A])
    b = np.concatenate([P.b, Q.b])
    A4 = np.hstack([A, np.ones((len(A), 1))])
    res = _lp([0, 0, 0, -1.0], A4, b, [(None, None)] * 4)
    if res is None:
        raise core.HarnessError("vf.geo inset LP infeasible (cannot happen)")
    return float(res.x[3])


def inset_halfspaces(A, b, Q):
    """Same as inset for an H-polyhedron (A, b) (possibly unbounded) against part Q."""
    A2 = np.vstack([A, Q.A])
    b2 = np.concatenate([b, Q.b])
    A4 = np.hstack([A2, np.ones((len(A2), 1))])
    res = _lp([0, 0, 0, -1.0], A4, b2, [(None, None)] * 4)
    if res is None:
        raise core.HarnessError("vf.geo inset LP infeasible (cannot happen)")
    return float(res.x[3])


def contact_s(P, Q, u, maximise=True):
    """Translate Q along the unit vector u by s: the largest (smallest) s at which P and Q + s·u
    still share a point.  None when they never meet along the line."""
    u = np.asarray(u, float)
    # variables (x, s):  P.A x <= P.b ;  Q.A (x - s u) <= Q.b
    A = np.vstack([np.hstack([P.A, np.zeros((len(P.A), 1))]),
                   np.hstack([Q.A, -(Q.A @ u)[:, None]])])
    b = np.concatenate([P.b, Q.b])
    res = _lp([0, 0, 0, -1.0 if maximise else 1.0], A, b, [(None, None)] * 4)
    if res is None:
        return None
    return float(res.x[3])


# --------------------------------------------------------------------------------------------
# verdicts
# --------------------------------------------------------------------------------------------


def overlap_depth(S, T):
    """max over part pairs of the common inset (see `inset`), with a cheap bounding-sphere
    pre-filter that can only skip pairs which are certainly disjoint by more than `far`."""
    best = -math.inf
    for p in S.parts:
        cp = p.centre
        rp = np.linalg.norm(p.V - cp, axis=1).max()
        for q in T.parts:
            cq = q.centre
            rq = np.linalg.norm(q.V - cq, axis=1).max()
            gap = np.linalg.norm(cp - cq) - rp - rq
            if gap > 0:
                # certainly disjoint, distance >= gap; report a (valid) upper bound on the inset
                best = max(best, -gap / 2)
                continue
            best = max(best, inset(p, q))
    return best


def overlap_verdict(S, T, band):
    """+1 the solids share a ball of radius > band; -1 they are farther apart than 2·band;
    0 near-boundary."""
    t = overlap_depth(S, T)
    if t > band:
        return 1, t
    if t < -band:
        return -1, t
    return 0, t


def contained_convex(A, b, S, band):
    """Solid S inside the convex region {x: A x <= b}.  margin = min over vertices/faces of
    (b - a·v): > band contained, < -band a vertex sticks out by more than band."""
    m = float((b[None, :] - S.V @ A.T).min())
    return (1 if m > band else -1 if m < -band else 0), m


def contained_cells(outer_A, outer_b, holes, S, band):
    """Region = {outer_A x <= outer_b} minus the union of the convex `holes` (list of (A, b)).
    S is inside iff it is inside the outer set and meets no hole.  Returns (verdict, detail)."""
    v, m = contained_convex(outer_A, outer_b, S, band)
    if v < 0:
        return -1, ("outer", m)
    worst = -math.inf
    for (hA, hb) in holes:
        for p in S.parts:
            # quick reject: every vertex of p beyond one plane of the hole by > band
            d = p.V @ hA.T - hb
            clear = d.min(axis=0).max()
            if clear > 4 * band and clear > 0:
                # separated by that plane: distance >= clear
                worst = max(worst, -clear / 2)
                continue
            worst = max(worst, inset_halfspaces(hA, hb, p))
    if worst > band:
        return -1, ("hole", worst)
    if v > 0 and worst < -band:
        return 1, ("in", min(m, -worst))
    return 0, ("near", m, worst)


# --------------------------------------------------------------------------------------------
# exhaustive triangle-pair distance
# --------------------------------------------------------------------------------------------


def _pt_seg(P, A, B):
    d = B - A
    dd = np.einsum("ij,ij->i", d, d)
    t = np.einsum("ij,ij->i", P - A, d) / np.where(dd > 0, dd, 1.0)
    t = np.clip(t, 0.0, 1.0)
    return np.linalg.norm(P - (A + t[:, None] * d), axis=1)


def pt_tri_dist(P, T):
    """Distances of points P (n,3) to triangles T (n,3,3), pairwise."""
    A, B, C = T[:, 0], T[:, 1], T[:, 2]
    n = np.cross(B - A, C - A)
    nn = np.einsum("ij,ij->i", n, n)
    ok = nn > 0
    nn1 = np.where(ok, nn, 1.0)
    w = P - A
    # barycentric coordinates of the projection
    g = np.einsum("ij,ij->i", np.cross(B - A, w), n) / nn1   # weight of C
    bta = np.einsum("ij,ij->i", np.cross(w, C - A), n) / nn1  # weight of B
    al = 1.0 - g - bta
    inside = ok & (al >= 0) & (bta >= 0) & (g >= 0)
    plane = np.abs(np.einsum("ij,ij->i", w, n)) / np.sqrt(nn1)
    e = np.minimum(np.minimum(_pt_seg(P, A, B), _pt_seg(P, B, C)), _pt_seg(P, C, A))
    return np.where(inside, plane, e)


def seg_seg_interior(P1, D1, P2, D2):
    """Distance between the lines P1+s·D1 and P2+t·D2 where the closest points fall strictly
    inside both segments (0<s<1, 0<t<1); +inf elsewhere (those minima are attained at an end
    point and are covered by the vertex–triangle distances)."""
    r = P1 - P2
    a = np.einsum("ij,ij->i", D1, D1)
    e = np.einsum("ij,ij->i", D2, D2)
    b = np.einsum("ij,ij->i", D1, D2)
    c = np.einsum("ij,ij->i", D1, r)
    f = np.einsum("ij,ij->i", D2, r)
    den = a * e - b * b
    ok = den > 1e-14 * a * e
    den1 = np.where(ok, den, 1.0)
    s = (b * f - c * e) / den1
    t = (a * f - b * c) / den1
    ok &= (s > 0) & (s < 1) & (t > 0) & (t < 1)
    d = np.linalg.norm(r + s[:, None] * D1 - t[:, None] * D2, axis=1)
    return np.where(ok, d, np.inf)


def tri_tri_dist(T1, T2):
    """Pairwise minimum distance between *non-intersecting* triangles T1, T2 (n,3,3)."""
    best = np.full(len(T1), np.inf)
    for k in range(3):
        best = np.minimum(best, pt_tri_dist(T1[:, k], T2))
        best = np.minimum(best, pt_tri_dist(T2[:, k], T1))
    for i in range(3):
        p1, d1 = T1[:, i], T1[:, (i + 1) % 3] - T1[:, i]
        for j in range(3):
            p2, d2 = T2[:, j], T2[:, (j + 1) % 3] - T2[:, j]
            best = np.minimum(best, seg_seg_interior(p1, d1, p2, d2))
    return best


def mesh_distance(V1, F1, V2, F2, chunk=200000):
    """Exact minimum distance between two triangle surfaces that do not intersect: exhaustive
    over triangle pairs; pairs whose bounding boxes are farther apart than an upper bound of
    the answer are discarded (which cannot change the minimum)."""
    T1, T2 = V1[F1], V2[F2]
    # upper bound: closest vertex pair
    d2 = ((V1[:, None, :] - V2[None, :, :]) ** 2).sum(axis=2) if len(V1) * len(V2) <= 4_000_000 \
        else None
    if d2 is not None:
        ub = math.sqrt(float(d2.min()))
    else:
        ub = float(np.linalg.norm(V1[0] - V2, axis=1).min())
    lo1, hi1 = T1.min(axis=1), T1.max(axis=1)
    lo2, hi2 = T2.min(axis=1), T2.max(axis=1)
    gap = np.maximum(0.0, np.maximum(lo1[:, None, :] - hi2[None, :, :],
                                     lo2[None, :, :] - hi1[:, None, :]))
    lb = np.sqrt((gap ** 2).sum(axis=2))
    I, J = np.nonzero(lb <= ub * (1 + 1e-12) + 1e-300)
    best = ub
    for k in range(0, len(I), chunk):
        d = tri_tri_dist(T1[I[k:k + chunk]], T2[J[k:k + chunk]])
        if len(d):
            best = min(best, float(d.min()))
    return best


def solid_distance(S, T):
    return mesh_distance(S.V, S.F, T.V, T.F)


# --------------------------------------------------------------------------------------------
# point in mesh by ray parity
# --------------------------------------------------------------------------------------------

_RAYS = np.array([[0.5377, 0.2131, 0.8157], [-0.3119, 0.7793, -0.5436], [0.7071, -0.6403, 0.3002]])
_RAYS = _RAYS / np.linalg.norm(_RAYS, axis=1)[:, None]


def _ray_hits(P, d, V, F):
    """Number of triangles crossed by the rays P + t·d, t > 0 (Möller–Trumbore)."""
    A, B, C = V[F[:, 0]], V[F[:, 1]], V[F[:, 2]]
    e1, e2 = B - A, C - A
    h = np.cross(d, e2)                      # (m,3)
    a = np.einsum("ij,ij->i", e1, h)         # (m,)
    ok = np.abs(a) > 1e-15
    inv = 1.0 / np.where(ok, a, 1.0)
    s = P[:, None, :] - A[None, :, :]        # (n,m,3)
    u = np.einsum("nmj,mj->nm", s, h) * inv
    q = np.cross(s, e1[None, :, :])
    v = np.einsum("j,nmj->nm", d, q) * inv
    t = np.einsum("mj,nmj->nm", e2, q) * inv
    hit = ok[None, :] & (u >= 0) & (v >= 0) & (u + v <= 1) & (t > 0)
    return hit.sum(axis=1)


def points_in_mesh(P, V, F):
    """Ray parity with three generic directions, majority vote."""
    P = np.atleast_2d(np.asarray(P, float))
    votes = sum((_ray_hits(P, d, V, F) % 2) for d in _RAYS)
    return votes >= 2


def points_in_parts(P, parts, margin=0.0):
    P = np.atleast_2d(np.asarray(P, float))
    out = np.zeros(len(P), bool)
    for p in parts:
        out |= ((P @ p.A.T - p.b) <= -margin).all(axis=1)
    return out


# --------------------------------------------------------------------------------------------
# polycubes: generator-side construction of non-convex / multi-body solids
# --------------------------------------------------------------------------------------------


def repair_cells(occ):
    """Make a boolean occupancy grid free of edge-only and vertex-only contacts (which would
    make the boundary surface non-manifold) by filling 2x2(x2) blocks; deterministic."""
    occ = np.array(occ, dtype=bool)
    nx, ny, nz = occ.shape
    changed = True
    while changed:
        changed = False
        for i in range(nx):
            for j in range(ny):
                for k in range(nz):
                    if not occ[i, j, k]:
                        continue
                    for di in (-1, 0, 1):
                        for dj in (-1, 0, 1):
                            for dk in (-1, 0, 1):
                                nzr = (di != 0) + (dj != 0) + (dk != 0)
                                if nzr < 2:
                                    continue
                                a, b, c = i + di, j + dj, k + dk
                                if not (0 <= a < nx and 0 <= b < ny and 0 <= c < nz):
                                    continue
                                if not occ[a, b, c]:
                                    continue
                                blk = occ[min(i, a):max(i, a) + 1, min(j, b):max(j, b) + 1,
                                          min(k, c):max(k, c) + 1]
                                if not _face_connected(blk):
                                    blk[...] = True
                                    changed = True
    return occ


def _face_connected(blk):
    idx = [tuple(x) for x in np.argwhere(blk)]
    if not idx:
        return True
    seen = {idx[0]}
    todo = [idx[0]]
    s = set(idx)
    while todo:
        c = todo.pop()
        for ax in range(3):
            for d in (-1, 1):
                n = list(c)
                n[ax] += d
                n = tuple(n)
                if n in s and n not in seen:
                    seen.add(n)
                    todo.append(n)
    return len(seen) == len(s)


def count_bodies(occ):
    occ = np.asarray(occ, bool)
    s = {tuple(x) for x in np.argwhere(occ)}
    n = 0
    while s:
        n += 1
        todo = [s.pop()]
        while todo:
            c = todo.pop()
            for ax in range(3):
                for d in (-1, 1):
                    m = list(c)
                    m[ax] += d
                    m = tuple(m)
                    if m in s:
                        s.remove(m)
                        todo.append(m)
    return n


_QUADS = {  # axis, side -> corner offsets (counter-clockwise seen from outside)
    (0, 1): [(1, 0, 0), (1, 1, 0), (1, 1, 1), (1, 0, 1)],
    (0, 0): [(0, 0, 0), (0, 0, 1), (0, 1, 1), (0, 1, 0)],
    (1, 1): [(0, 1, 0), (0, 1, 1), (1, 1, 1), (1, 1, 0)],
    (1, 0): [(0, 0, 0), (1, 0, 0), (1, 0, 1), (0, 0, 1)],
    (2, 1): [(0, 0, 1), (1, 0, 1), (1, 1, 1), (0, 1, 1)],
    (2, 0): [(0, 0, 0), (0, 1, 0), (1, 1, 0), (1, 0, 0)],
}


def polycube(occ, cuts):
    """Surface mesh and cells of the union of the occupied cells of a rectilinear grid.

    occ: bool (nx,ny,nz), already repaired and touching all six sides of the grid;
    cuts: three increasing lists of relative grid-line positions in [0,1] (0 and 1 included).
    The result is centred with unit extents (what MeshShape normalises to)."""
    occ = np.asarray(occ, bool)
    nx, ny, nz = occ.shape
    lines = [np.asarray(c, float) - 0.5 for c in cuts]
    if [len(l) for l in lines] != [nx + 1, ny + 1, nz + 1]:
        raise core.HarnessError("polycube: cuts do not match the grid")
    vid = {}
    V = []
    F = []

    def vert(i, j, k):
        key = (i, j, k)
        if key not in vid:
            vid[key] = len(V)
            V.append([lines[0][i], lines[1][j], lines[2][k]])
        return vid[key]

    for i, j, k in np.argwhere(occ):
        for (ax, side), corners in _QUADS.items():
            n = [i, j, k]
            n[ax] += 1 if side else -1
            if 0 <= n[0] < nx and 0 <= n[1] < ny and 0 <= n[2] < nz and occ[tuple(n)]:
                continue
            q = [vert(i + a, j + b, k + c) for a, b, c in corners]
            F.append([q[0], q[1], q[2]])
            F.append([q[0], q[2], q[3]])
    V = np.array(V)
    F = np.array(F)
    cells = []
    empty = []
    for i in range(nx):
        for j in range(ny):
            for k in range(nz):
                lo = [lines[0][i], lines[1][j], lines[2][k]]
                hi = [lines[0][i + 1], lines[1][j + 1], lines[2][k + 1]]
                (cells if occ[i, j, k] else empty).append(box_part(lo, hi))
    return V, F, cells, empty


def mesh_is_closed_manifold(F):
    """Every undirected edge is used by exactly two triangles, once in each direction."""
    from collections import Counter

    d = Counter()
    for a, b, c in F:
        for e in ((a, b), (b, c), (c, a)):
            d[e] += 1
    return all(v == 1 and d.get((b, a)) == 1 for (a, b), v in d.items())


# --------------------------------------------------------------------------------------------
# analytic view volume (reference: "visible regions" — a point is in the view volume of an
# observer at `cam` with rotation R when its distance is at most visibleDistance and its
# azimuth / altitude in the observer's frame are within half the view angles)
# --------------------------------------------------------------------------------------------


def view_angles(cam, R, P):
    """(distance, azimuth, altitude) of points P in the frame of an observer looking along its
    local +y axis; azimuth positive to the left (counter-clockwise about local z)."""
    L = (np.atleast_2d(np.asarray(P, float)) - np.asarray(cam, float)) @ np.asarray(R)
    d = np.linalg.norm(L, axis=1)
    az = np.arctan2(-L[:, 0], L[:, 1])
    alt = np.arctan2(L[:, 2], np.hypot(L[:, 0], L[:, 1]))
    return d, az, alt


def in_view_volume(cam, R, P, view_angles_hv, dist, slack=0.0):
    """Points inside the view volume widened (slack>0) or narrowed (slack<0) by `slack`
    (radians for the angles, relative for the distance)."""
    d, az, alt = view_angles(cam, R, P)
    h, v = view_angles_hv
    ok = d <= dist * (1 + slack)
    if h < 2 * math.pi:
        ok &= np.abs(az) <= h / 2 + slack
    if v < math.pi:
        ok &= np.abs(alt) <= v / 2 + slack
    return ok


# --------------------------------------------------------------------------------------------
# self-check
# --------------------------------------------------------------------------------------------

_done = False


def _sat_boxes(c1, R1, h1, c2, R2, h2):
    """Separating-axis test for two oriented boxes: signed separation along the best axis
    (> 0 disjoint).  Independent of the LP."""
    axes = [R1[:, i] for i in range(3)] + [R2[:, i] for i in range(3)]
    for i in range(3):
        for j in range(3):
            a = np.cross(R1[:, i], R2[:, j])
            n = np.linalg.norm(a)
            if n > 1e-9:
                axes.append(a / n)
    best = -math.inf
    d = c2 - c1
    for a in axes:
        r1 = sum(abs(a @ R1[:, i]) * h1[i] for i in range(3))
        r2 = sum(abs(a @ R2[:, i]) * h2[i] for i in range(3))
        best = max(best, abs(a @ d) - r1 - r2)
    return best


def selftest():
    global _done
    if _done:
        return
    fail = []

    def need(cond, msg):
        if not cond:
            fail.append(msg)

    # rotations: hand-computed + inverse + scipy on fixed angles
    need(np.allclose(rot(math.pi / 2, 0, 0) @ [0, 1, 0], [-1, 0, 0]), "yaw: +y -> -x")
    need(np.allclose(rot(0, math.pi / 2, 0) @ [0, 1, 0], [0, 0, 1]), "pitch: +y -> +z")
    need(np.allclose(rot(0, 0, math.pi / 2) @ [1, 0, 0], [0, 0, -1]), "roll: +x -> -z")
    from scipy.spatial.transform import Rotation

    rs = np.random.RandomState(12345)
    for _ in range(100):
        y, p, r = rs.uniform(-math.pi, math.pi), rs.uniform(-1.5, 1.5), rs.uniform(-math.pi, math.pi)
        R = rot(y, p, r)
        need(np.allclose(R, Rotation.from_euler("ZXY", [y, p, r]).as_matrix(), atol=1e-12),
             "rot vs scipy intrinsic ZXY")
        need(np.allclose(rot(*euler_zxy(R)), R, atol=1e-9), "euler_zxy inverse")
    # Scenic's own convention, on a few examples (the convention is documented in the
    # reference: yaw, then pitch, then roll, intrinsic)
    try:
        from scenic.core.vectors import Orientation

        for ypr in ((0.7, -0.4, 1.1), (-2.0, 0.3, 0.0), (0.0, 1.2, -2.5)):
            need(np.allclose(Orientation.fromEuler(*ypr).r.as_matrix(), rot(*ypr), atol=1e-12),
                 f"Scenic Orientation.fromEuler{ypr} differs from Rz·Rx·Ry")
    except ImportError:
        pass

    # boxes: LP vs SAT, triangle-pair distance vs SAT on face-separated pairs
    unit = Solid.convex_from_mesh(BOX_V, BOX_F)
    need(abs(unit.parts[0].convexity_defect()) < 1e-12 and len(unit.parts[0].A) == 12, "box planes")
    nchecked = 0
    for _ in range(200):
        h1, h2 = rs.uniform(0.2, 2, 3), rs.uniform(0.2, 2, 3)
        R1 = rot(*rs.uniform(-3, 3, 3))
        R2 = rot(*rs.uniform(-3, 3, 3))
        c1 = rs.uniform(-3, 3, 3)
        c2 = c1 + rs.uniform(-1, 1, 3) * rs.choice([0.5, 2.0, 4.0])
        S1 = unit.placed(2 * h1, R1, c1)
        S2 = unit.placed(2 * h2, R2, c2)
        sat = _sat_boxes(c1, R1, h1, c2, R2, h2)
        t = inset(S1.parts[0], S2.parts[0])
        if abs(sat) > 1e-6:
            nchecked += 1
            need((sat > 0) == (t < 0), f"LP vs SAT disagree: sat={sat} t={t}")
        if sat > 1e-6:
            d = solid_distance(S1, S2)
            need(d >= sat - 1e-9, f"distance {d} below SAT separation {sat}")
            need(d >= 2 * abs(t) - 1e-9, f"distance {d} < 2|inset| {t}")
            # cross-check with a brute-force sampled upper bound
            need(d <= np.linalg.norm(S1.V[:, None] - S2.V[None], axis=2).min() + 1e-12, "ub")
    need(nchecked > 150, "box self-check vacuous")
    # hand-computed distances
    a = unit.placed([1, 1, 1], np.eye(3), [0, 0, 0])
    b = unit.placed([1, 1, 1], np.eye(3), [3, 0, 0])
    need(abs(solid_distance(a, b) - 2.0) < 1e-12, "face-face distance 2")
    b = unit.placed([1, 1, 1], np.eye(3), [2, 2, 2])
    need(abs(solid_distance(a, b) - math.sqrt(3)) < 1e-12, "corner-corner distance sqrt3")
    b = unit.placed([1, 1, 1], rot(math.pi / 4, 0, 0), [2, 0, 0])
    need(abs(solid_distance(a, b) - (1.5 - math.sqrt(0.5))) < 1e-12, "edge-face distance")
    # crossed edges: edge–edge interior case
    b = unit.placed([1, 1, 1], rot(0, math.pi / 4, 0) @ rot(0, 0, 0), [0, 0, 0])
    e1 = unit.placed([4, 0.01, 0.01], np.eye(3), [0, 0, 0])
    e2 = unit.placed([0.01, 4, 0.01], np.eye(3), [0, 0, 1])
    need(abs(solid_distance(e1, e2) - 0.99) < 1e-12, "crossed bars distance")
    need(abs(inset(a.parts[0], unit.placed([1, 1, 1], np.eye(3), [0.6, 0, 0]).parts[0]) - 0.2) < 1e-9,
         "inset of boxes overlapping by 0.4")
    s = contact_s(a.parts[0], a.parts[0], np.array([1.0, 0, 0]))
    need(abs(s - 1.0) < 1e-9, "contact_s of unit boxes along x")
    # ray parity vs cells on a polycube (U shape + separate body)
    occ = np.zeros((3, 3, 1), bool)
    occ[0, :, 0] = True
    occ[2, :, 0] = True
    occ[1, 0, 0] = True
    V, F, cells, empty = polycube(occ, [[0, 0.3, 0.7, 1], [0, 0.2, 0.5, 1], [0, 1]])
    need(mesh_is_closed_manifold(F), "polycube U not closed")
    P = rs.uniform(-0.6, 0.6, (400, 3))
    need((points_in_mesh(P, V, F) == points_in_parts(P, cells)).all(), "ray parity vs cells (U)")
    need(len(empty) == 2 and count_bodies(occ) == 1, "U cells")
    occ2 = np.zeros((3, 1, 1), bool)
    occ2[0] = occ2[2] = True
    need(count_bodies(occ2) == 2, "two bodies")
    bad = np.zeros((2, 2, 1), bool)
    bad[0, 0, 0] = bad[1, 1, 0] = True
    need(repair_cells(bad).all(), "repair fills diagonal contact")
    # containment
    A6, b6 = a.parts[0].A, a.parts[0].b
    small = unit.placed([0.5, 0.5, 0.5], rot(0.3, 0.2, 0.1), [0, 0, 0])
    need(contained_convex(A6, b6, small, 1e-6)[0] == 1, "small box inside unit box")
    need(contained_convex(A6, b6, small.moved(np.eye(3), [0.4, 0, 0]), 1e-6)[0] == -1, "sticks out")
    # view volume
    d, az, alt = view_angles([0, 0, 0], np.eye(3), [[0, 2, 0], [-1, 1, 0], [0, 1, 1]])
    need(np.allclose(d, [2, math.sqrt(2), math.sqrt(2)]) and np.allclose(az, [0, math.pi / 4, 0])
         and np.allclose(alt, [0, 0, math.pi / 4]), "view angles")
    if fail:
        raise core.HarnessError("vf.geo self-check failed: " + "; ".join(sorted(set(fail))[:6]))
    _done = True
