"""C01 — scenes are drawn from exactly the program's conditional distribution.

Generated programs of the finite-discrete fragment; the implementation's exact per-attempt
law (all RNG outcomes enumerated through vf.rngenum) is compared, as Fractions, with the law
computed by a reference interpreter written from the language reference.
"""

from __future__ import annotations

import math
from fractions import Fraction

from hypothesis import strategies as st

from vf import core, rngenum

PROP = "C01"
NEEDS_PARSER = True
FLOOR = 0.15
RULE = ("Hypothesis-generated Scenic programs of the finite-discrete fragment (Uniform / weighted "
        "Discrete / DiscreteRange with random bounds, dependent parameters, resample, lifted "
        "operators, tuples+indexing, user function calls, star-unpacking, hard and soft "
        "requirements, rebinding after require, object properties and positions, 2D/3D mode); "
        "every RNG outcome enumerated exactly.  Non-trivial = at least 2 random leaves, a "
        "requirement rejecting with probability strictly between 0 and 1, and at least 3 distinct "
        "scenes; distinct = SHA-1 of the program IR.")
ASSUMPTIONS = [
    "Scenic draws randomness only through the module attributes of `random`/`numpy.random` "
    "patched by vf.rngenum (a draw that bypasses them breaks the sum-to-1 self check -> exit 2)",
    "weights are integers or dyadic rationals so the implementation's float accumulation is exact",
    "reference interpreter vf.props.c01.Ref written from docs/reference/distributions.rst and "
    "scene_generation.rst",
]

# --------------------------------------------------------------------------------------------
# Program IR -> Scenic source
# --------------------------------------------------------------------------------------------

HEADER = '''def f1(u, v):
    return u * 10 + v
def f2(u):
    return (u, u + 1)
def f3(u, *rest):
    return u + len(rest)
'''


def pe(e):
    """Print an expression."""
    k = e[0]
    if k == "c":
        return repr(e[1])
    if k == "v":
        return e[1]
    if k == "uni":
        return "Uniform(" + ", ".join(pe(x) for x in e[1]) + ")"
    if k == "disc":
        return "Discrete({" + ", ".join(f"{pe(x)}: {w!r}" for x, w in e[1]) + "})"
    if k == "dr":
        return f"DiscreteRange({pe(e[1])}, {pe(e[2])})"
    if k == "bin":
        return f"({pe(e[2])} {e[1]} {pe(e[3])})"
    if k == "cmp":
        return f"({pe(e[2])} {e[1]} {pe(e[3])})"
    if k == "neg":
        return f"(-{pe(e[1])})"
    if k == "abs":
        return f"abs({pe(e[1])})"
    if k in ("min", "max"):
        return f"{k}(" + ", ".join(pe(x) for x in e[1]) + ")"
    if k == "tup":
        return "(" + "".join(pe(x) + ", " for x in e[1]) + ")"
    if k == "idx":
        return f"{pe(e[1])}[{e[2]}]"
    if k == "call":
        return f"{e[1]}(" + ", ".join(pe(x) for x in e[2]) + ")"
    if k == "egofoo":
        return "ego.foo"
    if k == "resample":
        return f"resample({e[1]})"
    if k == "staruni":
        return f"Uniform(*{pe(e[1])})"
    if k == "starcall":
        return f"f3({pe(e[1])}, *{pe(e[2])})"
    if k == "and":
        return f"({pe(e[1])} and {pe(e[2])})"
    if k == "or":
        return f"({pe(e[1])} or {pe(e[2])})"
    if k == "not":
        return f"(not {pe(e[1])})"
    raise ValueError(k)


def strip_parens(t):
    return t[1:-1] if t.startswith("(") and t.endswith(")") and _balanced(t[1:-1]) else t


def _balanced(t):
    d = 0
    for ch in t:
        if ch == "(":
            d += 1
        elif ch == ")":
            d -= 1
            if d < 0:
                return False
    return d == 0


def emit(prog):
    lines = [HEADER]
    nobj = 0
    for s in prog["stmts"]:
        k = s[0]
        if k == "let":
            lines.append(f"{s[1]} = {pe(s[2])}")
        elif k == "param":
            lines.append(f"param {s[1]} = {pe(s[2])}")
        elif k == "req":
            lines.append(f"require {strip_parens(pe(s[1]))}")
        elif k == "soft":
            cond = strip_parens(pe(s[2]))
            if cond.startswith("("):
                # `require[p] (a) < b` is read as a call of the list `[p]`: keep the condition
                # from starting with a parenthesis (semantically neutral prefix)
                cond = "True and " + cond
            lines.append(f"require[{s[1][0] / s[1][1]!r}] {cond}")
        elif k == "cls":
            # a class whose property default is random and does not mention self: every
            # instance falling back on the default evaluates the expression anew
            lines.append(f"class {s[1]}:\n    foo: {pe(s[2])}")
        elif k == "obj":
            base = 100 * nobj
            nobj += 1
            ego = "ego = " if s[1] else ""
            cls = s[4] if len(s) > 4 else "Object"
            foo = "" if s[3][0] == "default" else f" with foo {pe(s[3])},"
            lines.append(f"{ego}new {cls} at ({base} + ({pe(s[2])}) % 7, 0),{foo} with requireVisible False")
        else:
            raise ValueError(k)
    return "\n".join(lines) + "\n"


# --------------------------------------------------------------------------------------------
# Reference interpreter
# --------------------------------------------------------------------------------------------

class Reject(Exception):
    pass


class Node:
    __slots__ = ("kind", "args", "id")
    _n = 0

    def __init__(self, kind, *args):
        self.kind = kind
        self.args = args
        Node._n += 1
        self.id = Node._n


def _f1(u, v):
    return u * 10 + v


def _f2(u):
    return (u, u + 1)


def _f3(u, *rest):
    return u + len(rest)


FUNCS = {"f1": _f1, "f2": _f2, "f3": _f3}
BIN = {"+": lambda a, b: a + b, "-": lambda a, b: a - b, "*": lambda a, b: a * b,
       "//": lambda a, b: a // b, "%": lambda a, b: a % b, "/": lambda a, b: a / b}
CMP = {"<": lambda a, b: a < b, "<=": lambda a, b: a <= b, ">": lambda a, b: a > b,
       ">=": lambda a, b: a >= b, "==": lambda a, b: a == b, "!=": lambda a, b: a != b}


class Ref:
    """Builds the program's dependency DAG and enumerates its exact law."""

    def __init__(self, prog):
        self.env = {}
        self.params = []  # (name, node)
        self.objs = []  # (xnode, foonode)
        self.reqs = []  # (node, Fraction prob)
        self.ego = None
        nobj = 0
        classes = {}
        for s in prog["stmts"]:
            k = s[0]
            if k == "let":
                self.env[s[1]] = self.build(s[2])
            elif k == "param":
                node = self.build(s[2])
                self.params = [(n, v) for n, v in self.params if n != s[1]] + [(s[1], node)]
            elif k == "req":
                self.reqs.append((self.build(s[1]), Fraction(1)))
            elif k == "soft":
                self.reqs.append((self.build(s[2]), Fraction(s[1][0], s[1][1])))
            elif k == "cls":
                classes[s[1]] = s[2]
            elif k == "obj":
                x = self.op(lambda v, b=100 * nobj: float(b + v % 7), self.build(s[2]))
                nobj += 1
                # (language reference, "Property defaults": the default-value expression is
                # evaluated each time an instance is created, so each instance gets its own draw)
                foo = self.build(classes[s[4]]) if s[3][0] == "default" else self.build(s[3])
                self.objs.append((x, foo))
                if s[1]:  # `ego = new Object ...` (the ego may be re-assigned later)
                    self.ego = len(self.objs) - 1
        if self.ego is not None:  # Scene.objects lists the (final) ego first, then the others
            self.objs.insert(0, self.objs.pop(self.ego))

    def op(self, fn, *args):
        """Operator node; folded to a constant when every operand is a compile-time constant,
        exactly as Python evaluates the expression before Scenic ever sees it."""
        if all(a.kind == "const" for a in args):
            return Node("const", fn(*[a.args[0] for a in args]))
        return Node("op", fn, *args)

    def tup(self, elems):
        if all(a.kind == "const" for a in elems):
            return Node("const", tuple(a.args[0] for a in elems))
        return Node("pytuple", elems)

    def build(self, e):
        k = e[0]
        b = self.build
        if k == "c":
            return Node("const", e[1])
        if k == "v":
            return self.env[e[1]]
        if k == "uni":
            return Node("uni", [b(x) for x in e[1]])
        if k == "disc":
            # Python dict semantics for the literal: equal keys collapse (last weight wins,
            # first position kept); zero weights are dropped (reference: Discrete)
            items = {}
            for x, w in e[1]:
                n = b(x)
                key = ("const", n.args[0]) if n.kind == "const" else ("node", n.id)
                if key in items:
                    items[key] = (items[key][0], w)
                else:
                    items[key] = (n, w)
            opts = [(n, w) for n, w in items.values() if w != 0]
            return Node("disc", opts)
        if k == "dr":
            return Node("dr", b(e[1]), b(e[2]))
        if k == "bin":
            return self.op(BIN[e[1]], b(e[2]), b(e[3]))
        if k == "cmp":
            return self.op(CMP[e[1]], b(e[2]), b(e[3]))
        if k == "neg":
            return self.op(lambda a: -a, b(e[1]))
        if k == "abs":
            return self.op(abs, b(e[1]))
        if k == "min":
            return self.op(lambda *a: min(a), *[b(x) for x in e[1]])
        if k == "max":
            return self.op(lambda *a: max(a), *[b(x) for x in e[1]])
        if k == "tup":
            return self.tup([b(x) for x in e[1]])
        if k == "idx":
            t = b(e[1])
            if t.kind == "pytuple":  # a Python tuple literal: indexing is plain Python
                return t.args[0][e[2]]
            return self.op(lambda t, i=e[2]: t[i], t)
        if k == "call":
            args = [b(x) for x in e[2]]
            if e[1] == "f1":  # the body runs on the (possibly random) arguments themselves
                return self.op(BIN["+"], self.op(BIN["*"], args[0], Node("const", 10)), args[1])
            if e[1] == "f2":
                return self.tup([args[0], self.op(BIN["+"], args[0], Node("const", 1))])
            raise ValueError(e[1])
        if k == "egofoo":  # the ego *as bound when the statement is executed*
            return self.objs[self.ego][1]
        if k == "resample":
            src = self.env[e[1]]
            if src.kind in ("uni", "disc", "dr"):
                return Node(src.kind, *src.args)  # fresh leaf, *same* parameter nodes
            return src
        if k == "staruni":
            return Node("staruni", b(e[1]))
        if k == "starcall":
            return self.op(lambda u, t: _f3(u, *t), b(e[1]), b(e[2]))
        if k == "and":
            return self.op(lambda x, y: x and y, b(e[1]), b(e[2]))
        if k == "or":
            return self.op(lambda x, y: x or y, b(e[1]), b(e[2]))
        if k == "not":
            return self.op(lambda x: not x, b(e[1]))
        raise ValueError(k)

    # -- evaluation in one world ------------------------------------------------------------
    def val(self, node, world, en):
        if node.id in world:
            return world[node.id]
        k = node.kind
        if k == "const":
            v = node.args[0]
        elif k == "op":
            v = node.args[0](*[self.val(a, world, en) for a in node.args[1:]])
        elif k == "pytuple":
            v = tuple(self.val(a, world, en) for a in node.args[0])
        elif k == "uni":
            opts = node.args[0]
            i = en.choose([Fraction(1, len(opts))] * len(opts))
            v = self.val(opts[i], world, en)
        elif k == "disc":
            opts = node.args[0]
            i = en.choose([Fraction(w) for _, w in opts])
            v = self.val(opts[i][0], world, en)
        elif k == "dr":
            lo = math.ceil(self.val(node.args[0], world, en))
            hi = math.floor(self.val(node.args[1], world, en))
            if hi < lo:
                raise Reject()
            v = lo + en.choose([Fraction(1, hi - lo + 1)] * (hi - lo + 1))
        elif k == "staruni":
            t = self.val(node.args[0], world, en)
            if len(t) == 0:
                raise Reject()
            v = t[en.choose([Fraction(1, len(t))] * len(t))]
        else:
            raise ValueError(k)
        world[node.id] = v
        return v

    def roots(self):
        return ([n for _, n in self.params] + [n for o in self.objs for n in o]
                + [n for n, _ in self.reqs])

    def force(self, node, world, en, seen):
        if node.id in seen:
            return
        seen.add(node.id)
        k = node.kind
        if k == "op":
            for a in node.args[1:]:
                self.force(a, world, en, seen)
        elif k in ("uni", "pytuple"):
            for a in node.args[0]:
                self.force(a, world, en, seen)
        elif k == "disc":
            for a, _ in node.args[0]:
                self.force(a, world, en, seen)
        elif k == "dr":
            self.force(node.args[0], world, en, seen)
            self.force(node.args[1], world, en, seen)
        elif k == "staruni":
            self.force(node.args[0], world, en, seen)
        self.val(node, world, en)

    def attempt_table(self, active, max_leaves):
        """Exact law of one attempt given the set of active requirement indices."""
        en = rngenum.Enumerator(max_leaves)

        def f():
            world = {}
            try:
                # every random value the scene depends on is drawn in every attempt (an empty
                # DiscreteRange rejects the attempt even if a multiplexer would not select it)
                for root in self.roots():
                    self.force(root, world, en, set())
                scene = self.observe(world, en)
                for i, (node, _) in enumerate(self.reqs):
                    if i in active and not self.val(node, world, en):
                        return "REJECT"
            except Reject:
                return "REJECT"
            return scene

        return en.run(f), en.leaves

    def observe(self, world, en):
        ps = tuple(sorted((n, canon(self.val(node, world, en))) for n, node in self.params))
        os_ = tuple((canon(self.val(x, world, en)), canon(self.val(foo, world, en)))
                    for x, foo in self.objs)
        return (ps, os_)

    def soft_subsets(self):
        soft = [i for i, (_, p) in enumerate(self.reqs) if p != 1]
        hard = frozenset(i for i, (_, p) in enumerate(self.reqs) if p == 1)
        out = []
        for mask in range(1 << len(soft)):
            pr = Fraction(1)
            act = set(hard)
            for j, i in enumerate(soft):
                p = self.reqs[i][1]
                if mask >> j & 1:
                    pr *= p
                    act.add(i)
                else:
                    pr *= 1 - p
            if pr > 0:
                out.append((frozenset(act), pr))
        return out


def canon(v):
    if isinstance(v, bool):
        return ("b", v)
    if isinstance(v, int):
        return v
    if isinstance(v, float):
        # numbers are compared by value (2 == 2.0), exactly
        if v != v or v in (float("inf"), float("-inf")):
            return ("f", repr(v))
        return int(v) if v == int(v) else ("f", v.hex())
    if isinstance(v, (tuple, list)):
        return tuple(canon(x) for x in v)
    if hasattr(v, "coordinates"):
        return tuple(canon(float(x)) for x in v.coordinates)
    return ("?", repr(v))


# --------------------------------------------------------------------------------------------
# Hypothesis strategy for programs
# --------------------------------------------------------------------------------------------

SMALL = st.integers(-3, 4)
WEIGHTS = st.sampled_from([1, 1, 2, 3, 0, 0.5, 0.25, 1.5])


@st.composite
def programs(draw):
    stmts = []
    scal = []  # names bound to scalar-valued expressions
    leafnames = []  # names bound directly to a primitive distribution
    tupnames = []  # names bound to tuple-valued random expressions: (name, length)
    counter = [0]

    def fresh(prefix="x"):
        counter[0] += 1
        return f"{prefix}{counter[0]}"

    def disc_items(n, d):
        """Items of a Discrete literal.  Keys are distinct constants, freshly constructed
        distributions, or names bound directly to a distribution, so that which keys Python's
        dict literal merges is unambiguous."""
        items = []
        used = set()
        for _ in range(n):
            kk = draw(st.sampled_from(["c", "c", "leaf", "name"] if leafnames else ["c", "c", "leaf"]))
            if kk == "c":
                c = draw(SMALL)
                key = ["c", c]
            elif kk == "leaf":
                key = ["uni", [scalar(d), scalar(d)]] if draw(st.booleans()) else \
                    ["dr", ["c", draw(SMALL)], ["c", draw(st.integers(3, 6))]]
            else:
                key = ["v", draw(st.sampled_from(leafnames))]
            items.append([key, draw(WEIGHTS)])
        items.append([["c", 9 + n], 1])
        return items

    def scalar(depth, pure=False):
        """A scalar (int/float) valued expression; `pure` = no distribution is constructed
        (required inside requirements)."""
        choices = ["c"]
        if scal:
            choices += ["v", "v", "v"]
        if pure:
            if have_ego[0]:
                choices += ["egofoo", "egofoo"]
            if depth > 0 and scal:
                choices += ["v", "pbin", "pbin", "pabs", "pcall"]
            k = draw(st.sampled_from(choices))
            if k == "c":
                return ["c", draw(SMALL)]
            if k == "egofoo":
                return ["egofoo"]
            if k == "v":
                return ["v", draw(st.sampled_from(scal))]
            if k == "pbin":
                return ["bin", draw(st.sampled_from(["+", "-", "*"])), scalar(depth - 1, True),
                        scalar(depth - 1, True)]
            if k == "pabs":
                return ["abs", scalar(depth - 1, True)]
            return ["call", "f1", [scalar(depth - 1, True), scalar(depth - 1, True)]]
        if depth > 0:
            choices += ["uni", "disc", "dr", "bin", "bin", "neg", "abs", "minmax", "call",
                        "idx", "fdiv", "ident", "ident"]
            if leafnames:
                choices += ["resample"]
            if tupnames:
                choices += ["staruni", "tidx", "starcall"]
        k = draw(st.sampled_from(choices))
        d = depth - 1
        if k == "c":
            return ["c", draw(SMALL)]
        if k == "v":
            return ["v", draw(st.sampled_from(scal))]
        if k == "uni":
            n = draw(st.integers(1, 4))
            return ["uni", [scalar(d) for _ in range(n)]]
        if k == "disc":
            return ["disc", disc_items(draw(st.integers(1, 3)), d)]
        if k == "dr":
            lo = scalar(d)
            if draw(st.booleans()):
                hi = ["bin", "+", lo, ["c", draw(st.integers(-1, 3))]]
            else:
                hi = scalar(d)
            if draw(st.integers(0, 3)) == 0:
                lo = ["bin", "/", lo, ["c", 2]]
            return ["dr", lo, hi]
        if k == "ident":
            # the algebraic shortcuts of the implementation (x+0, 0+x, x-0, x*1, 1*x, x/1, x//1,
            # x**1 are simplified away) and their non-identities (0-x, 1/x ...)
            x = scalar(d)
            form = draw(st.sampled_from(["0-x", "x-0", "x+0", "0+x", "x*1", "1*x", "x//1", "x/1",
                                         "0*x", "1-x"]))
            a, op, b = form[0], form[1:-1], form[-1]
            left = x if a == "x" else ["c", int(a)]
            right = x if b == "x" else ["c", int(b)]
            return ["bin", op, left, right]
        if k == "bin":
            return ["bin", draw(st.sampled_from(["+", "-", "*"])), scalar(d), scalar(d)]
        if k == "fdiv":
            return ["bin", draw(st.sampled_from(["//", "%", "/"])), scalar(d),
                    ["c", draw(st.sampled_from([2, 3, -2, 4, 1]))]]
        if k == "neg":
            return ["neg", scalar(d)]
        if k == "abs":
            return ["abs", scalar(d)]
        if k == "minmax":
            return [draw(st.sampled_from(["min", "max"])), [scalar(d), scalar(d)]]
        if k == "call":
            return ["call", "f1", [scalar(d), scalar(d)]]
        if k == "idx":
            if draw(st.booleans()):
                return ["idx", ["call", "f2", [scalar(d)]], draw(st.integers(0, 1))]
            n = draw(st.integers(1, 3))
            return ["idx", ["tup", [scalar(d) for _ in range(n)]], draw(st.integers(0, n - 1))]
        if k == "resample":
            return ["resample", draw(st.sampled_from(leafnames))]
        if k == "staruni":
            return ["staruni", ["v", draw(st.sampled_from(tupnames))[0]]]
        if k == "tidx":
            name, ln = draw(st.sampled_from(tupnames))
            return ["idx", ["v", name], draw(st.integers(0, ln - 1))]
        if k == "starcall":
            return ["starcall", scalar(d), ["v", draw(st.sampled_from(tupnames))[0]]]
        raise AssertionError(k)

    def boolean(depth):
        k = draw(st.sampled_from(["cmp", "cmp", "cmp", "and", "or", "not"] if depth > 0
                                 else ["cmp"]))
        if k == "cmp":
            op = draw(st.sampled_from(["<", "<=", ">", ">=", "<", ">=", "==", "!=", "!="]))
            if scal and draw(st.integers(0, 2)) > 0:
                # the common shape: a random name against something else
                return ["cmp", op, ["v", draw(st.sampled_from(scal))], scalar(1, True)]
            return ["cmp", op, scalar(1, True), scalar(1, True)]
        if k == "not":
            return ["not", boolean(depth - 1)]
        return [k, boolean(depth - 1), boolean(depth - 1)]

    nstmts = draw(st.integers(2, 9))
    nparams = 0
    have_ego = [False]
    kinds = ["leaf"] + [draw(st.sampled_from(
        ["let", "let", "leaf", "leaf", "leaf", "param", "param", "req", "soft", "obj",
         "tuplet", "rebind", "egoswap"])) for _ in range(nstmts)]
    if draw(st.integers(0, 3)) == 0:
        kinds.insert(draw(st.integers(1, len(kinds))), "clsdef")
    for k in kinds:
        if k == "let":
            name = fresh()
            stmts.append(["let", name, scalar(draw(st.integers(1, 3)))])
            scal.append(name)
        elif k == "leaf":
            name = fresh()
            kind = draw(st.sampled_from(["uni", "disc", "dr"]))
            if kind == "uni":
                e = ["uni", [scalar(1) for _ in range(draw(st.integers(2, 4)))]]
            elif kind == "disc":
                e = ["disc", disc_items(draw(st.integers(2, 3)), 1)]
            else:
                lo = scalar(1)
                e = ["dr", lo, ["bin", "+", lo, ["c", draw(st.integers(0, 3))]]]
            stmts.append(["let", name, e])
            scal.append(name)
            leafnames.append(name)
        elif k == "tuplet":
            name = fresh("t")
            n1, n2 = draw(st.integers(1, 3)), draw(st.integers(1, 3))
            e = ["uni", [["tup", [scalar(1) for _ in range(n1)]],
                         ["tup", [scalar(1) for _ in range(n2)]]]]
            stmts.append(["let", name, e])
            tupnames.append((name, min(n1, n2)))
        elif k == "param":
            nparams += 1
            stmts.append(["param", f"p{nparams}", scalar(draw(st.integers(0, 2)))])
        elif k == "req":
            stmts.append(["req", boolean(draw(st.integers(0, 1)))])
        elif k == "soft":
            p = draw(st.sampled_from([[1, 2], [1, 4], [3, 4], [1, 8], [0, 1], [1, 1]]))
            stmts.append(["soft", p, boolean(0)])
        elif k == "obj":
            ego = draw(st.booleans())  # may re-assign the ego after a require mentioned it
            stmts.append(["obj", ego, scalar(1), scalar(1)])
            have_ego[0] = have_ego[0] or ego
        elif k == "clsdef":
            lo = draw(SMALL)
            closed = draw(st.sampled_from([
                ["uni", [["c", lo], ["c", lo + 1]]],
                ["uni", [["c", lo], ["c", lo + 2], ["c", lo + 5]]],
                ["dr", ["c", lo], ["c", lo + 2]],
                ["bin", "+", ["uni", [["c", 0], ["c", 1]]], ["uni", [["c", lo], ["c", lo + 2]]]],
                ["disc", [[["c", lo], 1], [["c", lo + 1], 3]]],
            ]))
            stmts.append(["cls", "K0", closed])
            for n in range(draw(st.integers(2, 3))):
                ego = draw(st.booleans())
                override = n > 0 and draw(st.integers(0, 3)) == 0
                stmts.append(["obj", ego, scalar(1), scalar(1) if override else ["default"], "K0"])
                have_ego[0] = have_ego[0] or ego
            if have_ego[0] and draw(st.booleans()):
                stmts.append(["req", ["cmp", draw(st.sampled_from(["<", "<=", ">", ">=", "!="])),
                                      ["egofoo"], scalar(1, True)]])
        elif k == "egoswap":
            # an ego, a requirement that mentions it, then another object becomes the ego:
            # the requirement keeps constraining the ego it was stated for
            stmts.append(["obj", True, scalar(1), scalar(1)])
            have_ego[0] = True
            kind = draw(st.sampled_from(["req", "req", "soft"]))
            cond = ["cmp", draw(st.sampled_from(["<", "<=", ">", ">=", "!="])), ["egofoo"],
                    scalar(1, True)]
            if kind == "req":
                stmts.append(["req", cond])
            else:
                stmts.append(["soft", draw(st.sampled_from([[1, 2], [1, 4], [3, 4]])), cond])
            stmts.append(["obj", True, scalar(1), scalar(1)])
        elif k == "rebind" and scal:
            # rebind an existing name (possibly after a `require` captured it)
            name = draw(st.sampled_from(scal))
            stmts.append(["let", name, scalar(2)])
            if name in leafnames:
                leafnames.remove(name)
    if not any(t[0] in ("req", "soft") for t in stmts) and scal:
        stmts.append(["req", ["cmp", draw(st.sampled_from(["<", "<=", ">", ">=", "!="])),
                              ["v", draw(st.sampled_from(scal))], ["c", draw(SMALL)]]])
    # make every bound scalar observable at least through one param
    if scal and draw(st.booleans()):
        nparams += 1
        stmts.append(["param", f"p{nparams}", ["tup", [["v", n] for n in scal[-3:]]]])
    if nparams == 0:
        stmts.append(["param", "p0", scalar(2)])
    return {"mode2D": draw(st.sampled_from([False, False, True])), "stmts": stmts}


# --------------------------------------------------------------------------------------------
# Judge
# --------------------------------------------------------------------------------------------

def impl_observe(scene):
    ps = tuple(sorted((n, canon(v)) for n, v in scene.params.items()))
    os_ = tuple((canon(float(o.position.x)), canon(o.foo)) for o in scene.objects)
    return (ps, os_)


def features(prog):
    feats = set()

    def walk(e):
        if isinstance(e, list) and e and isinstance(e[0], str):
            feats.add(e[0])
            for x in e[1:]:
                walk(x)
        elif isinstance(e, list):
            for x in e:
                walk(x)

    for s in prog["stmts"]:
        feats.add("stmt:" + s[0])
        walk(s[1:])
    if prog["mode2D"]:
        feats.add("mode2D")
    return feats


def judge(prog, max_leaves=20000, iter_leaves=30):
    import scenic
    from scenic.core.distributions import RejectionException

    out = core.Outcome()
    feats = features(prog)
    out.cls(*sorted(f for f in feats if f in (
        "resample", "staruni", "starcall", "dr", "disc", "uni", "stmt:soft", "stmt:obj",
        "mode2D", "call", "idx", "egofoo")))
    if sum(1 for t in prog["stmts"] if t[0] == "obj" and t[1]) >= 2:
        out.cls("ego-reassigned")
    src = emit(prog)
    # reference first: programs whose reference evaluation raises (e.g. a type error in plain
    # Python) are outside the fragment and discarded
    try:
        ref = Ref(prog)
        subsets = ref.soft_subsets()
        ref_tab = {}
        ref_by_subset = []
        total_leaves = 0
        for act, pr in subsets:
            tab, leaves = ref.attempt_table(act, max_leaves)
            total_leaves += leaves
            ref_by_subset.append((pr, tab))
            for k, v in tab.items():
                ref_tab[k] = ref_tab.get(k, 0) + pr * v
    except rngenum.TooManyLeaves:
        out.inconclusive = True
        out.cls("too-many-leaves")
        return out
    except (TypeError, ZeroDivisionError, IndexError, OverflowError, ValueError) as e:
        out.cls("discard:ref-" + type(e).__name__)
        return out

    try:
        sc = scenic.scenarioFromString(src, mode2D=prog["mode2D"])
    except Exception as e:
        from scenic.core.errors import InvalidScenarioError

        hard_rej = [tab.get("REJECT", 0) for (act, _), (_, tab) in zip(subsets, ref_by_subset)
                    if len(act) == min(len(a) for a, _ in subsets)]
        if isinstance(e, InvalidScenarioError) and hard_rej and hard_rej[0] == 1:
            # the compiler may report a scenario whose hard requirements can never hold
            out.cls("compile-time-infeasible")
            return out
        out.fail("compile|" + core.exc_signature(e), source=src, error=repr(e))
        return out

    def one(maxit):
        def f():
            try:
                scene, its = sc._generateInner(maxit, 0, None)
            except RejectionException:
                return "REJECT"
            return impl_observe(scene) if maxit == 1 else (its, impl_observe(scene))

        return f

    en = rngenum.Enumerator(max_leaves * 4)
    try:
        with rngenum.patched_rng(en):
            impl_tab = en.run(one(1))
    except rngenum.TooManyLeaves:
        out.inconclusive = True
        out.cls("too-many-leaves")
        return out
    except rngenum.OutOfFragment as e:
        raise core.HarnessError(f"continuous draw in finite fragment: {e}\n{src}")
    except AssertionError:
        raise
    except Exception as e:
        out.fail("sample|" + core.exc_signature(e), source=src, error=repr(e))
        return out

    rej = ref_tab.get("REJECT", Fraction(0))
    nscenes = len([k for k in ref_tab if k != "REJECT"])
    nleaves_impl = en.leaves
    out.nontrivial = (en.choice_points > 0 and nleaves_impl >= 2 and 0 < rej < 1
                      and nscenes >= 3)
    if 0 < rej < 1:
        out.cls("rejects-sometimes")
    if nscenes >= 3:
        out.cls("scenes>=3")
    if rej == 1:
        out.cls("always-rejects")
    if any(s[0] == "let" and any(t[0] in ("req", "soft") for t in prog["stmts"][:i])
           and any(t[0] == "let" and t[1] == s[1] for t in prog["stmts"][:i])
           for i, s in enumerate(prog["stmts"])):
        out.cls("rebinding-after-require")

    if impl_tab != ref_tab:
        ik, rk = set(impl_tab), set(ref_tab)
        if ik != rk:
            kind = "support"
            diff = {"only_impl": [str(k) for k in list(ik - rk)[:3]],
                    "only_ref": [str(k) for k in list(rk - ik)[:3]]}
        else:
            bad = [k for k in ik if impl_tab[k] != ref_tab[k]]
            kind = "reject-prob" if bad == ["REJECT"] else "prob"
            diff = {str(k): [str(impl_tab[k]), str(ref_tab[k])] for k in bad[:3]}
        out.fail("law|" + kind, source=src, diff=diff)
        return out

    # (iv) joint law of (iterations, scene) for up to 3 attempts
    if nleaves_impl <= iter_leaves:
        expect = {}
        rej3 = Fraction(0)
        for pr, tab in ref_by_subset:
            r = tab.get("REJECT", Fraction(0))
            for j in (1, 2, 3):
                for k, v in tab.items():
                    if k != "REJECT":
                        key = (j, k)
                        pv = pr * r ** (j - 1) * v
                        if pv:
                            expect[key] = expect.get(key, 0) + pv
            rej3 += pr * r ** 3
        if rej3:
            expect["REJECT"] = rej3
        en3 = rngenum.Enumerator(200000)
        try:
            with rngenum.patched_rng(en3):
                got = en3.run(one(3))
            out.cls("iterations-law-checked")
            if got != expect:
                bad = [k for k in set(got) | set(expect) if got.get(k) != expect.get(k)]
                out.fail("iter|law", source=src,
                         diff={str(k): [str(got.get(k)), str(expect.get(k))] for k in bad[:3]})
        except rngenum.TooManyLeaves:
            out.cls("iterations-law-skipped")
    return out


def replay(case):
    return judge(case)


def plan(tier, seed, jobs):
    n = 100 if tier == "quick" else 1200
    return [{"seed": seed * 1000 + k, "n": n} for k in range(jobs)]


def run_shard(shard, tier):
    rngenum.selftest()
    col = core.Collector(PROP, shard["id"])
    core.hyp_search(programs(), judge, shard["n"], shard["seed"], col,
                    known_sigs=shard.get("known_sigs", ()), case_timeout=60,
                    shrink_s=60 if tier == "quick" else 240)
    return col.result()
