"""C02 — every generated scene satisfies all of its requirements.

Generated multi-object programs (collision clusters, containers, workspaces, user predicates,
visibility "theatres" with walls, objects pinned at a constant position with a random pose or
size next to their container's boundary) are compiled once and sampled repeatedly on the same Scenario
object; `time.perf_counter` as seen by scenic.core.sample_checking is replaced by a generated
sequence so that the requirement re-ordering of the WeightedAcceptanceChecker is an input.
Every returned scene is re-verified independently: user predicates in plain Python, pairwise
non-overlap and containment with vf.geo, and the decidable visibility cases analytically.
"""

from __future__ import annotations

import os

os.environ.setdefault("OMP_NUM_THREADS", "1")
os.environ.setdefault("OPENBLAS_NUM_THREADS", "1")

import math
import random

import numpy as np
from hypothesis import strategies as st

from vf import core, geo
from vf.props import c04

PROP = "C02"
NEEDS_PARSER = True
FLOOR = 0.30
BAND_REL = 1e-3    # overlap / containment band relative to the smaller body's size
RULE = ("Hypothesis-generated programs: 1–3 groups placed 40 m apart, each a collision cluster "
        "(2–4 objects of box/cylinder/cone/spheroid/polycube shapes with overlapping position "
        "ranges, random or sampled yaw/pitch/roll, allowCollisions flags, optional container "
        "regions: box / spheroid / polycube mesh / footprint with holes) or a visibility theatre "
        "(viewer Point / OrientedPoint / ego with view angles and visible distance, an occluding "
        "or non-occluding wall, a target with `visible from`, `not visible from` or "
        "requireVisible; one wall in three of the `visible` kind is a long one whose centre is farther "
        "from the viewer than the target while its near end crosses the lines of sight, sideways or "
        "upwards) or a pinned object (constant position, random yaw / pitch / roll / width / length "
        "/ height, next to one face of its box / spheroid / footprint / polygon container or of a "
        "straight piece of the workspace border, at a distance between its smallest and largest "
        "reach); optional 3D or polygonal workspace; 0–3 hard/soft user predicates over "
        "positions, distances and params; 2D and 3D mode; each scenario sampled 3–25 times on the "
        "same Scenario object (3–10, sometimes 15–25 operations: generate / generateBatch / checker switches; maxIterations 60) with an injected "
        "perf_counter sequence.  Non-trivial = at least one returned scene needed >= 2 iterations "
        "and the checker's requirement order changed at least once; distinct = SHA-1 of the case.")
ASSUMPTIONS = [
    "vf.geo rebuilds every object from its sampled properties; overlap/containment are judged "
    "only outside a band of 1e-3·size (accepted scenes may legitimately touch)",
    "visibility is judged only in decidable cases: target wholly outside the view volume, target "
    "fully hidden behind one convex occluder (central projection argument), or (for accepted "
    "`not visible`) an inscribed ball of angular radius >= 2 degrees in plain free view",
    "which soft requirements were selected is read from CompiledRequirement.active after generate",
    "requirement order is observed by wrapping WeightedAcceptanceChecker.sortedRequirements",
]

U = c04.U
SPACING = 40.0
MAXIT = 60

# --------------------------------------------------------------------------------------------
# strategy: program IR
# --------------------------------------------------------------------------------------------


def rng(lo, hi):
    return ["r", round(float(lo), 4), round(float(hi), 4)]


def const(v):
    return ["c", round(float(v), 4)]


@st.composite
def coord(draw, centre, spread):
    """A coordinate: fixed or a Range around `centre`."""
    if draw(st.integers(0, 5)) == 0:
        return const(centre + draw(U(-spread, spread)))
    a = centre + draw(U(-spread, spread))
    w = draw(U(0.2, 2 * spread))
    return rng(a - w / 2, a + w / 2)


@st.composite
def angle(draw, planar=False):
    k = draw(st.sampled_from(["zero", "fixed", "fixed", "random", "random"]))
    if k == "zero":
        return const(0.0)
    lim = 1.3 if planar is None else math.pi
    if k == "fixed":
        return const(draw(U(-lim, lim)))
    a = draw(U(-lim, lim))
    return rng(a, a + draw(U(0.1, 1.5)))


@st.composite
def obj_shapes(draw, mode2D):
    if mode2D:
        return {"k": "box"}    # 2D compatibility mode allows box shapes only
    k = draw(st.sampled_from(["box", "box", "box", "cyl", "cone", "sph", "poly", "poly"]))
    if k == "poly":
        return draw(c04.polycubes())
    return {"k": k}


@st.composite
def cluster(draw, g, mode2D, names):
    """2-4 objects with 'home' slots about one object size apart along a random horizontal
    direction and position ranges about as wide as the slots: collisions happen in a fair share
    of the samples but not always (feasible by construction)."""
    cx, cy, cz = g * SPACING, draw(U(-5, 5)), (0.0 if mode2D else draw(U(-5, 5)))
    n = draw(st.integers(2, 4))
    step = draw(U(1.2, 3.0))
    th = draw(U(0, math.pi))
    objs = []
    slots = draw(st.permutations(list(range(n))))   # creation order is not the spatial order
    for i in range(n):
        name = f"o{len(names)}"
        names.append(name)
        dims = [draw(U(0.5, 1.05)) * step for _ in range(3)]
        k = slots[i] - (n - 1) / 2
        hx, hy = cx + k * step * math.cos(th), cy + k * step * math.sin(th)
        w = step * draw(U(0.3, 1.6))

        def co(h, width):
            kind = draw(st.integers(0, 5))
            if kind == 0:
                return const(h)
            return rng(h - width / 2, h + width / 2)

        o = {"name": name, "shape": draw(obj_shapes(mode2D)), "dims": [round(d, 3) for d in dims],
             "pos": [co(hx, w), co(hy, w), const(0.0) if mode2D else co(cz, 0.5 * w)],
             "yaw": draw(angle()),
             "pitch": const(0.0) if mode2D else draw(angle(planar=None)),
             "roll": const(0.0) if mode2D else draw(angle()),
             "allowCollisions": draw(st.integers(0, 5)) == 0,
             "occluding": draw(st.integers(0, 3)) != 0}
        if draw(st.integers(0, 2)) == 0:
            o["container"] = draw(containers([hx, hy, cz], w, max(dims), mode2D))
            # an object that may overlap others must still stay inside its container
            o["allowCollisions"] = draw(st.integers(0, 2)) == 0
        objs.append(o)
    return {"kind": "cluster", "objs": objs, "centre": [cx, cy, cz], "step": step}


@st.composite
def containers(draw, home, width, osize, mode2D):
    """A container around the object's home slot, somewhat larger than the object plus a part
    of its position range: containment fails in a fair share of the samples."""
    k = draw(st.sampled_from(["foot", "polygon"] if mode2D else
                             ["box", "box", "sph", "meshp", "foot"]))
    c = [home[i] + draw(U(-0.3, 0.3)) * width for i in range(3)]
    if mode2D:
        c[2] = 0.0
    f = {"box": 1.7, "sph": 2.5}.get(k, 2.1)
    big = U(f * osize + 0.3 * width, f * osize + 1.2 * width)
    pose = draw(st.sampled_from([[0.0, 0.0, 0.0], [0.0, 0.0, 0.0], None]))
    if pose is None:
        pose = draw(c04.poses())
    if k in ("box", "sph"):
        return {"k": k, "dims": [draw(big), draw(big), draw(big)], "ypr": pose, "pos": c}
    if k == "meshp":
        # one occupied cell, about `big` in size, is centred on the home slot
        shp = draw(c04.polycubes(draw(st.sampled_from(["nonconvex", "multi"]))))
        _, _, cells, _ = geo.polycube(np.array(shp["occ"], bool), shp["cuts"])
        cell = cells[draw(st.integers(0, len(cells) - 1))]
        ext = cell.V.max(axis=0) - cell.V.min(axis=0)
        dims = [draw(big) / float(e) for e in ext]
        pos = np.asarray(c) - geo.rot(*pose) @ (np.asarray(dims) * cell.centre)
        return {"k": "mesh", "shape": shp, "dims": [round(d, 4) for d in dims], "ypr": pose,
                "pos": [round(float(x), 4) for x in pos]}
    occ, cuts = draw(c04.grid2d())
    filled = [(a, b) for a in range(len(occ)) for b in range(len(occ[0])) if occ[a][b]]
    a, b = filled[draw(st.integers(0, len(filled) - 1))]
    fx, fy = cuts[0][a + 1] - cuts[0][a], cuts[1][b + 1] - cuts[1][b]
    dx, dy = draw(big) / fx, draw(big) / fy
    ox = c[0] - dx * (cuts[0][a] + cuts[0][a + 1]) / 2
    oy = c[1] - dy * (cuts[1][b] + cuts[1][b + 1]) / 2
    return {"k": k, "occ": occ, "cuts": cuts, "dims": [round(dx, 4), round(dy, 4)],
            "pos": [round(ox, 4), round(oy, 4)], "z": c[2], "zext": 4.0}


@st.composite
def pinned(draw, g, mode2D, names):
    """One object `at` a CONSTANT position whose extent is random (yaw range, sometimes pitch /
    roll, or a random width / length / height), next to one face of its container (an explicit
    `regionContainedIn`, or a straight piece of the workspace border: `edge`).  The distance to
    that face lies between the object's smallest and largest reach in that direction, so only a
    part of the samples fits.  Nothing but the per-sample containment requirement can reject
    the others (the compile-time validation covers objects with constant bounds only)."""
    cx, cy, cz = g * SPACING, draw(U(-5, 5)), (0.0 if mode2D else draw(U(-5, 5)))
    name = f"o{len(names)}"
    names.append(name)
    Wd = draw(U(0.4, 1.2))
    Ln = Wd * draw(U(2.0, 5.0))
    Ht = draw(U(0.4, 1.5))
    how = draw(st.sampled_from(["yaw", "yaw", "yaw", "dim", "dim", "yaw+dim"]))
    where = draw(st.sampled_from(["container", "container", "workspace"]))
    shape = {"k": "box"} if mode2D else {"k": draw(st.sampled_from(["box", "box", "box", "cyl", "sph"]))}
    ck = draw(st.sampled_from(["foot", "polygon"] if mode2D else ["box", "box", "box", "sph", "foot"]))
    # the container's own yaw (only boxes and spheroids can be turned); the workspace border
    # used is its lower edge in y, which is the container frame turned by a quarter
    psi = draw(st.sampled_from([0.0, draw(U(-math.pi, math.pi))])) if ck in ("box", "sph") else 0.0
    frame = -math.pi / 2 if where == "workspace" else psi     # local +x = the tight direction
    dims = [Wd, Ln, Ht]
    rdims = [None, None, None]
    yaw = const(frame)
    ext = [Wd / 2, Ln / 2, Ht / 2]       # reach along the container's local axes
    big = (math.hypot(Wd, Ln) / 2 + Ht) * draw(U(1.3, 2.0))
    half = [big, big, big]               # half extents of the container
    if how in ("yaw", "yaw+dim"):
        # local x is the tight direction: the reach W/2 cos t + L/2 sin t grows with |t|
        tstar = draw(U(0.15, 1.0))
        half[0] = Wd / 2 * math.cos(tstar) + Ln / 2 * math.sin(tstar)
        lo, hi = sorted([draw(U(0.1, 1.5)), draw(U(0.1, 1.5))])
        # one end of the range beyond the threshold angle, the other end often within
        a, b = draw(st.sampled_from([(-lo, tstar + hi), (-tstar - hi, lo), (lo - tstar, tstar + hi),
                                     (-math.pi, math.pi)]))
        yaw = rng(frame + a, frame + b)
        if how == "yaw+dim":
            rdims[0] = rng(Wd * 0.6, Wd * 1.6)
    else:
        ax = draw(st.integers(0, 0 if (ck == "sph" or where == "workspace") else
                              1 if (mode2D or ck == "foot") else 2))
        hi = dims[ax] * draw(U(1.5, 3.0))
        rdims[ax] = rng(dims[ax], hi)
        half[ax] = (dims[ax] + draw(U(0.25, 0.75)) * (hi - dims[ax])) / 2
        if draw(st.integers(0, 2)) == 0:
            yaw = const(frame + draw(U(-0.2, 0.2)))
        ext[ax] = half[ax]
    # the object sits off-centre, nearer to the tight face
    off = [draw(U(0.0, 0.5)), draw(U(-0.3, 0.3)), 0.0 if mode2D else draw(U(-0.3, 0.3))]
    pos = [round(cx, 3), round(cy, 3), round(cz, 3)]
    o = {"name": name, "shape": shape, "dims": [round(d, 3) for d in dims], "rdims": rdims,
         "pos": [const(pos[0]), const(pos[1]), const(pos[2])], "yaw": yaw,
         "pitch": const(0.0), "roll": const(0.0),
         "allowCollisions": draw(st.integers(0, 2)) == 0, "occluding": draw(st.integers(0, 3)) != 0}
    if not mode2D and how == "yaw" and draw(st.integers(0, 2)) == 0:
        o["pitch"] = rng(-draw(U(0.05, 0.4)), draw(U(0.05, 0.4)))
        o["roll"] = draw(st.sampled_from([const(0.0), rng(-0.3, 0.3)]))
    hc = [half[0] + off[0], half[1] + abs(off[1]), half[2] + abs(off[2])]
    c, s = math.cos(frame), math.sin(frame)
    cen = [pos[0] - (c * off[0] - s * off[1]), pos[1] - (s * off[0] + c * off[1]), pos[2] - off[2]]
    if ck == "sph":
        # a spheroid through the corner (half x, ext y, ext z) of the object's bounding box
        hc[1], hc[2] = 3.0 * max(ext[1], hc[1] / 3), 3.0 * max(ext[2], hc[2] / 3)
        rest = 1.0 - (ext[1] / hc[1]) ** 2 - (ext[2] / hc[2]) ** 2
        hc[0] = hc[0] / math.sqrt(max(rest, 0.3))
    if ck in ("box", "sph"):
        cont = {"k": ck, "dims": [round(2 * h, 4) for h in hc], "ypr": [round(frame, 6), 0.0, 0.0],
                "pos": [round(x, 4) for x in cen]}
    else:
        if frame != 0.0:
            hc[0], hc[1] = hc[1], hc[0]      # (a quarter turn: the rectangle stays axis-aligned)
        cont = {"k": ck, "occ": [[1]], "cuts": [[0.0, 1.0], [0.0, 1.0]],
                "dims": [round(2 * hc[0], 4), round(2 * hc[1], 4)],
                "pos": [round(cen[0] - hc[0], 4), round(cen[1] - hc[1], 4)], "z": pos[2], "zext": 4.0}
    o["container"] = cont
    # (used instead of the container when the case's workspace can be cut to it)
    return {"kind": "pinned", "objs": [o], "centre": [cx, cy, cz], "how": how,
            "where": where, "edge": round(pos[1] - half[0], 4)}


@st.composite
def theatre(draw, g, mode2D, names, have_ego, ngroups=3):
    """viewer at the group centre looking along +y, a wall across the line of sight, a target
    whose position range reaches behind / beside / beyond the wall."""
    cx, cy, cz = g * SPACING, draw(U(-5, 5)), (0.0 if mode2D else draw(U(-3, 3)))
    vk = draw(st.sampled_from(["point", "point", "opoint", "opoint"] + ([] if have_ego else ["ego", "ego"])))
    viewer = {"kind": vk, "pos": [round(cx, 3), round(cy, 3), round(cz, 3)], "dist": 50.0}
    if vk != "point":
        viewer["angles"] = [draw(st.sampled_from([360.0, 180.0, 120.0, 90.0, 60.0, 40.0])),
                            draw(st.sampled_from([180.0, 120.0, 90.0, 60.0, 40.0]))]
        # looking roughly at the stage; sometimes the edge of the view cone crosses it
        hy = math.radians(viewer["angles"][0]) / 2
        hp = math.radians(viewer["angles"][1]) / 2
        viewer["yaw"] = round(draw(st.sampled_from([0.0, draw(U(-0.3, 0.3)), draw(U(-0.6, 0.6)) * min(hy, 1.5)])), 4)
        viewer["pitch"] = 0.0 if mode2D else round(
            draw(st.sampled_from([0.0, draw(U(-0.2, 0.2)), draw(U(-0.6, 0.6)) * min(hp, 1.0)])), 4)
    if vk == "ego":
        vis = draw(st.sampled_from(["requireVisible", "requireVisible", "visible", "visible", "visible",
                                    "not visible"]))
    else:
        vis = draw(st.sampled_from(["visible from"] * 5 + ["not visible from"]))
    hidden = vis.startswith("not")
    dw = draw(U(2.5, 6.0))
    # a wall that leaves a fair chance of both outcomes for the requested relation
    wdim = U(5.0, 10.0) if hidden else U(1.0, 6.0)
    wall = {"name": f"w{len(names)}", "shape": {"k": "box"},
            "dims": [round(draw(wdim), 3), round(draw(U(0.2, 0.6)), 3), round(draw(wdim), 3)],
            "pos": [const(cx + draw(st.sampled_from([0.0, 0.0, draw(U(-2, 2))]))), const(cy + dw), const(cz)],
            "yaw": const(draw(st.sampled_from([0.0, 0.0, draw(U(-0.4, 0.4))]))), "pitch": const(0.0),
            "roll": const(0.0), "allowCollisions": False,
            "occluding": hidden or draw(st.integers(0, 5)) != 0}
    if not hidden and vk != "point":
        # the wall must not fill the whole view cone (nothing behind it could ever be seen)
        hy = math.radians(viewer["angles"][0]) / 2
        hp = math.radians(viewer["angles"][1]) / 2
        wall["dims"][0] = round(min(wall["dims"][0], 1.2 * dw * math.tan(min(hy, 1.0))), 3)
        wall["dims"][2] = round(min(wall["dims"][2], 1.6 * dw * math.tan(min(hp, 1.0))), 3)
    names.append(wall["name"])
    tname = f"o{len(names)}"
    names.append(tname)
    # (a target required to be hidden starts behind the wall, otherwise nothing could hide it)
    ylo = cy + dw + draw(st.sampled_from([1.2, 1.5, 2.5] + ([] if hidden else [-2.0])))
    yhi = ylo + draw(U(0.5, 8.0))
    # half-width of the wall's shadow where the target's range begins
    shadow = wall["dims"][0] / 2 * max(1.0, (ylo - cy) / dw)
    sx = shadow * draw(U(0.3, 1.2)) if hidden else shadow * draw(U(0.6, 1.6)) + 1.0
    # visible distance: ample, or cutting the target's range in two
    viewer["dist"] = round(draw(st.sampled_from([50.0, 30.0, (ylo + yhi) / 2 - cy, (ylo + yhi) / 2 - cy])), 3)
    viewer["dist"] = max(viewer["dist"], 2.0)
    xr = rng(cx - sx, cx + sx)
    # a long wall whose CENTRE is farther from the viewer than the target is, while its near
    # end still crosses the lines of sight: it runs sideways away from the neighbouring groups
    # (first / last group), or upwards / downwards (3D)
    far = None
    if not hidden:
        opts = ["no"] * 4 + (["lateral"] * 3 if g in (0, ngroups - 1) else []) + \
            ([] if mode2D else ["vertical"])
        far = draw(st.sampled_from(opts))
        far = None if far == "no" else far
    if far:
        wall["occluding"] = True
        yhi = ylo + draw(U(0.5, 3.0))
        viewer["dist"] = max(viewer["dist"], 30.0)
        sgn = -1.0 if g == 0 and ngroups > 1 else 1.0 if ngroups > 1 else draw(st.sampled_from([-1.0, 1.0]))
    if far == "lateral":
        cover = draw(U(0.5, 2.0))
        if vk != "point":
            cover = min(cover, 0.5 * dw * math.tan(min(math.radians(viewer["angles"][0]) / 2, 1.0)))
        xe = cover * (ylo - cy) / dw            # the shadow's edge where the target's range begins
        reach = math.hypot(yhi - cy, xe + 3.0) + 1.5    # farthest point of a hidden target
        shift = math.sqrt(max(reach + 1.0, dw + 1.0) ** 2 - dw ** 2) * draw(U(1.05, 1.4))
        al = draw(st.sampled_from([0.0, 0.0, draw(U(-0.3, 0.3))]))
        wall["dims"][0] = round(2 * (shift + cover), 3)
        wall["pos"] = [const(cx + sgn * shift * math.cos(al)), const(cy + dw + sgn * shift * math.sin(al)),
                       const(cz)]
        wall["yaw"] = const(al)
        xr = rng(cx - sgn * xe - draw(U(0.5, 3.0)), cx - sgn * xe + draw(U(0.5, 3.0)))
    elif far == "vertical":
        sgn = draw(st.sampled_from([-1.0, 1.0]))
        cover = draw(U(2.0, 3.5))
        reach = math.hypot(yhi - cy, sx) + 1.5
        shift = math.sqrt(max(reach + 1.0, dw + 1.0) ** 2 - dw ** 2) * draw(U(1.05, 1.4))
        wall["dims"][2] = round(2 * (shift + cover), 3)
        wall["pos"][2] = const(cz + sgn * shift)
    target = {"name": tname, "shape": draw(obj_shapes(mode2D)),
              "dims": [round(draw(U(0.4, 1.6)), 3) for _ in range(3)],
              "pos": [xr, rng(ylo, yhi),
                      const(0.0) if mode2D else draw(st.sampled_from([const(cz), rng(cz - 1.5, cz + 1.5)]))],
              "yaw": draw(angle()), "pitch": const(0.0) if mode2D else draw(angle(planar=None)),
              "roll": const(0.0), "allowCollisions": False, "occluding": True, "vis": vis}
    return {"kind": "theatre", "viewer": viewer, "objs": [wall, target], "centre": [cx, cy, cz],
            "far": far}


def _mid(v):
    return v[1] if v[0] == "c" else (v[1] + v[2]) / 2


def _wid(v):
    return 0.0 if v[0] == "c" else v[2] - v[1]


@st.composite
def predicates(draw, objs, have_param):
    """A predicate between two objects of a cluster whose threshold lies inside the spread of the
    quantity it constrains (so that it rejects some samples but not all)."""
    if len(objs) < 2:
        return None
    k = draw(st.sampled_from(["dist", "dist", "coord", "coord", "param"] if have_param
                             else ["dist", "dist", "coord"]))
    ia = draw(st.integers(0, len(objs) - 1))
    ib = draw(st.integers(0, len(objs) - 2))
    ib = ib if ib < ia else ib + 1
    A, B = objs[ia], objs[ib]
    prob = draw(st.sampled_from([None, None, None, 0.25, 0.5, 0.75]))
    if k == "dist":
        d0 = math.sqrt(sum((_mid(p) - _mid(q)) ** 2 for p, q in zip(A["pos"], B["pos"])))
        w = max(_wid(p) for p in A["pos"] + B["pos"])
        if w == 0:
            return None
        op = draw(st.sampled_from([">", ">", "<"]))
        val = max(0.05, d0 + draw(U(-0.5, 0.5)) * w)
        return {"k": "dist", "a": A["name"], "b": B["name"], "op": op, "val": round(val, 3), "prob": prob}
    ax = draw(st.integers(0, 1))
    w = _wid(A["pos"][ax]) + _wid(B["pos"][ax])
    if w == 0:
        return None
    d0 = _mid(A["pos"][ax]) - _mid(B["pos"][ax])
    op = draw(st.sampled_from(["<", ">"]))
    if k == "coord":
        return {"k": "coord", "a": A["name"], "b": B["name"], "axis": "xy"[ax], "op": op,
                "off": round(d0 + draw(U(-0.35, 0.35)) * w, 3), "prob": prob}
    # a.c  op  b.c + d0 + (q - 0.5) * scale   with q = Range(0, 1)
    return {"k": "param", "a": A["name"], "b": B["name"], "axis": "xy"[ax], "op": op, "off": round(d0, 3),
            "scale": round(draw(U(0.3, 1.2)) * w, 3), "prob": prob}


@st.composite
def cases(draw):
    mode2D = draw(st.integers(0, 3)) == 0
    ngroups = draw(st.sampled_from([1, 2, 2, 3, 3]))
    names = []
    groups = []
    have_ego = False
    for g in range(ngroups):
        gk = draw(st.integers(0, 6))
        if gk < 3:
            groups.append(draw(cluster(g, mode2D, names)))
        elif gk == 6:
            groups.append(draw(pinned(g, mode2D, names)))
        else:
            t = draw(theatre(g, mode2D, names, have_ego, ngroups))
            have_ego = have_ego or t["viewer"]["kind"] == "ego"
            groups.append(t)
    have_param = draw(st.booleans())
    reqs = []
    cl = [o["name"] for gr in groups if gr["kind"] == "cluster" for o in gr["objs"]]
    # predicates relate objects of one cluster (other pairs are 40 m apart)
    for gr in groups:
        if gr["kind"] != "cluster":
            continue
        for k in range(draw(st.integers(1, 2))):
            p = draw(predicates(gr["objs"], have_param))
            if p and len(reqs) < 3:
                if k > 0 and p["prob"] is None:
                    # a second hard predicate on the same cluster is often contradictory
                    p["prob"] = draw(st.sampled_from([0.25, 0.5, 0.75]))
                reqs.append(p)
    ws = None
    wk = draw(st.sampled_from(["none", "none", "box", "rect", "tight", "notched", "notched"]))
    xs = [0.0 - 20, (ngroups - 1) * SPACING + 20]
    # long walls reach sideways out of the first / last group, and upwards
    for gr in groups:
        if gr.get("far") == "lateral":
            w = gr["objs"][0]
            xs[0] = min(xs[0], w["pos"][0][1] - w["dims"][0] / 2 - 3.0)
            xs[1] = max(xs[1], w["pos"][0][1] + w["dims"][0] / 2 + 3.0)
    if wk == "box" and any(gr.get("far") == "vertical" for gr in groups):
        wk = "rect"      # (the oracle's model of a box workspace is bounded in z)
    xs = [round(xs[0], 3), round(xs[1], 3)]
    if wk == "box" and not mode2D:
        ws = {"k": "box", "dims": [xs[1] - xs[0], 60.0, 40.0], "ypr": [0.0, 0.0, 0.0],
              "pos": [(xs[0] + xs[1]) / 2, 5.0, 0.0]}
    elif wk in ("rect", "box"):
        ws = {"k": "polygon", "occ": [[1]], "cuts": [[0.0, 1.0], [0.0, 1.0]],
              "dims": [xs[1] - xs[0], 60.0], "pos": [xs[0], -25.0], "z": 0.0, "zext": 4.0}
    elif wk == "tight" and cl:
        # a workspace whose border passes through the first cluster: containment rejections
        gr = next(g for g in groups if g["kind"] == "cluster")
        edge = gr["centre"][1] - draw(U(0.0, 2.0))
        ws = {"k": "polygon", "occ": [[1]], "cuts": [[0.0, 1.0], [0.0, 1.0]],
              "dims": [xs[1] - xs[0], 60.0], "pos": [xs[0], round(edge, 3)], "z": 0.0, "zext": 4.0}
        # theatres must still fit: fixed objects outside the workspace make the program invalid
        if any(g["kind"] == "theatre" and g["centre"][1] - 2 < edge for g in groups):
            ws = None
    elif wk == "notched" and cl:
        # a hole-free, non-convex workspace: a narrow slot is cut from the far edge into the
        # first cluster, and one object of that cluster is a long thin upright box that can lie
        # across the slot with all four corners inside the workspace
        gr = next(g for g in groups if g["kind"] == "cluster")
        cx, cy = gr["centre"][0], gr["centre"][1]
        step = gr["step"]
        nw = draw(U(0.4, 1.5))
        ybot = cy - draw(U(0.0, 1.5)) * step
        X = xs[1] - xs[0]
        ws = {"k": "polygon", "occ": [[1, 1], [1, 0], [1, 1]],
              "cuts": [[0.0, (cx - nw / 2 - xs[0]) / X, (cx + nw / 2 - xs[0]) / X, 1.0],
                       [0.0, (ybot + 25.0) / 60.0, 1.0]],
              "dims": [X, 60.0], "pos": [xs[0], -25.0], "z": 0.0, "zext": 4.0}
        o = gr["objs"][0]
        o["shape"] = {"k": "box"}
        o["dims"] = [round(step * draw(U(2.0, 5.0)), 3), round(draw(U(0.2, 0.6)), 3), 0.5]
        a = draw(U(-math.pi, math.pi))
        o["yaw"], o["pitch"], o["roll"] = rng(a, a + draw(U(0.5, 3.0))), const(0.0), const(0.0)
        o["pos"] = [rng(cx - 2 * step, cx + 2 * step), rng(cy - 2 * step, cy + 2 * step), o["pos"][2]]
        o["allowCollisions"] = True
        o.pop("container", None)
        if mode2D:
            o["pos"][2] = const(0.0)
    # a pinned object meant to sit at the workspace border: the workspace's lower edge is moved
    # up to it within a 20 m wide slab around that group (a hole-free, non-convex polygon)
    pin = next((gr for gr in groups if gr["kind"] == "pinned" and gr["where"] == "workspace"), None)
    if pin is not None:
        X = xs[1] - xs[0]
        px = pin["centre"][0]
        ws = {"k": "polygon", "occ": [[1, 1], [0, 1], [1, 1]],
              "cuts": [[0.0, (px - 10.0 - xs[0]) / X, (px + 10.0 - xs[0]) / X, 1.0],
                       [0.0, (pin["edge"] + 25.0) / 60.0, 1.0]],
              "dims": [X, 60.0], "pos": [xs[0], -25.0], "z": 0.0, "zext": 4.0}
        pin["objs"][0].pop("container")
    for gr in groups:
        if gr["kind"] == "pinned" and gr is not pin:
            gr["where"] = "container"
    needs_ws = any(o.get("vis", "").startswith("not visible") for g in groups for o in g["objs"])
    if ws is None and needs_ws:
        # `not visible from` needs a workspace or container to sample from
        if mode2D or any(gr.get("far") == "vertical" for gr in groups):
            ws = {"k": "polygon", "occ": [[1]], "cuts": [[0.0, 1.0], [0.0, 1.0]],
                  "dims": [xs[1] - xs[0], 60.0], "pos": [xs[0], -25.0], "z": 0.0, "zext": 4.0}
        else:
            ws = {"k": "box", "dims": [xs[1] - xs[0], 60.0, 40.0], "ypr": [0.0, 0.0, 0.0],
                  "pos": [(xs[0] + xs[1]) / 2, 5.0, 0.0]}
    # mostly short histories; one in five long enough for the checker's 10-sample window to
    # fill up with acceptances before something is violated
    nops = draw(st.sampled_from([draw(st.integers(3, 10))] * 4 + [draw(st.integers(15, 25))]))
    ops = []
    for _ in range(nops):
        k = draw(st.integers(0, 9))
        if k < 6:
            ops.append(["gen"])
        elif k < 8:
            ops.append(["batch", 2 + (k - 6)])
        elif k == 8:
            ops.append(["basic"])
        else:
            ops.append(["weighted", draw(st.sampled_from([100, 30, 10, 10]))])
    times = [draw(st.sampled_from([1e-4, 1e-3, 1e-3, 1e-2, 0.1, 1.0, 10.0]))
             for _ in range(draw(st.integers(3, 24)))]
    return {"mode2D": mode2D, "groups": groups, "reqs": reqs, "param": have_param, "workspace": ws,
            "ops": ops, "times": times, "seed": draw(st.integers(0, 10 ** 6))}


# --------------------------------------------------------------------------------------------
# emit Scenic source
# --------------------------------------------------------------------------------------------


def ev(v, pre=None):
    """A value as Scenic text.  Ranges are bound to a variable on a line of their own (`pre`):
    a call nested in a parenthesised specifier argument makes the PEG parser backtrack a lot."""
    if v[0] == "c":
        return repr(v[1])
    if pre is None:
        return f"Range({v[1]!r}, {v[2]!r})"
    name = f"x{len(pre)}_{pre[0]}"
    pre.append(f"{name} = Range({v[1]!r}, {v[2]!r})")
    return name


def all_objects(case):
    return [o for g in case["groups"] for o in g["objs"]]


def emit(case):
    """(source, params, requirement-line map)."""
    mode2D = case["mode2D"]
    lines = []
    params = {}
    reqlines = {}

    def add(l):
        lines.append(l)
        return len(lines)

    def inject(prefix, value):
        name = f"{prefix}{len(params)}"
        params[name] = value
        return f"globalParameters.{name}"

    if case["param"]:
        add("qv = Range(0, 1)")
        add("param q = qv")
    if case["workspace"]:
        reg, _, _ = c04.build_region(case["workspace"])
        add(f"workspace = Workspace({inject('ws', reg)})")

    def vec(p, pre):
        return f"({ev(p[0], pre)}, {ev(p[1], pre)})" if mode2D else \
            f"({ev(p[0], pre)}, {ev(p[1], pre)}, {ev(p[2], pre)})"

    def va(v):
        # 2D compatibility mode builds its (2D) visible regions from the Scenic-2 property
        # `viewAngle`; `viewAngles` is derived from it, so that is what a 2D program sets
        if mode2D:
            return f"with viewAngle {v['angles'][0]!r} deg"
        return f"with viewAngles ({v['angles'][0]!r} deg, {v['angles'][1]!r} deg)"

    vnames = {}
    for gi, g in enumerate(case["groups"]):
        if g["kind"] != "theatre":
            continue
        v = g["viewer"]
        pos = f"({v['pos'][0]!r}, {v['pos'][1]!r})" if mode2D else \
            f"({v['pos'][0]!r}, {v['pos'][1]!r}, {v['pos'][2]!r})"
        if v["kind"] == "point":
            add(f"v{gi} = new Point at {pos}, with visibleDistance {v['dist']!r}")
            vnames[gi] = f"v{gi}"
        elif v["kind"] == "opoint":
            add(f"v{gi} = new OrientedPoint at {pos}, with yaw {v['yaw']!r}, with pitch {v['pitch']!r}, "
                f"{va(v)}, with visibleDistance {v['dist']!r}")
            vnames[gi] = f"v{gi}"
        else:
            add(f"ego = new Object at {pos}, with yaw {v['yaw']!r}, with pitch {v['pitch']!r}, "
                f"{va(v)}, "
                f"with visibleDistance {v['dist']!r}, with width 0.5, with length 0.5, with height 0.5, "
                f"with name \"ego\", with occluding False")
            vnames[gi] = "ego"
    for gi, g in enumerate(case["groups"]):
        for o in g["objs"]:
            shape, _, _ = c04.get_shape(o["shape"])
            # specifiers with default values are left out (the parser's cost grows with them)
            pre = [o["name"]]
            sp = [f"{o['name']} = new Object at {vec(o['pos'], pre)}"]
            for prop in ("yaw",) if mode2D else ("yaw", "pitch", "roll"):
                if o[prop] != ["c", 0.0]:
                    sp.append(f"with {prop} {ev(o[prop], pre)}")
            rd = o.get("rdims") or [None, None, None]
            sp += [f"with {nm} {ev(r, pre) if r else repr(d)}"
                   for nm, d, r in zip(("width", "length", "height"), o["dims"], rd)]
            sp.append(f"with name \"{o['name']}\"")
            for l in pre[1:]:
                add(l)
            if o["shape"]["k"] != "box":
                sp.append(f"with shape {inject('s', shape)}")
            if o["allowCollisions"]:
                sp.append("with allowCollisions True")
            if o["occluding"] != (not mode2D):
                sp.append(f"with occluding {o['occluding']}")
            if o.get("container"):
                reg, _, _ = c04.build_region(o["container"])
                sp.append(f"with regionContainedIn {inject('r', reg)}")
            vis = o.get("vis")
            if (vis == "requireVisible") != mode2D:
                sp.append(f"with requireVisible {vis == 'requireVisible'}")
            if vis == "requireVisible":
                pass
            elif vis in ("visible", "not visible"):
                sp.append(vis)
            elif vis:
                sp.append(f"{vis} {vnames[gi]}")
            add(", ".join(sp))
    for i, r in enumerate(case["reqs"]):
        head = "require" if r["prob"] is None else f"require[{r['prob']!r}]"
        if r["k"] == "dist":
            # (a leading parenthesis after `require[p]` would be parsed as a call)
            cond = f"{r['val']!r} {'<' if r['op'] == '>' else '>'} (distance from {r['a']} to {r['b']})"
        elif r["k"] == "coord":
            cond = f"{r['a']}.position.{r['axis']} {r['op']} {r['b']}.position.{r['axis']} + {r['off']!r}"
        else:
            cond = (f"{r['a']}.position.{r['axis']} {r['op']} {r['b']}.position.{r['axis']} + "
                    f"{r['off']!r} + (qv - 0.5) * {r['scale']!r}")
        reqlines[add(f"{head} {cond}")] = i
    src = "\n".join([f"param {k} = None" for k in params] + lines) + "\n"
    off = len(params)
    return src, params, {ln + off: i for ln, i in reqlines.items()}


# --------------------------------------------------------------------------------------------
# oracle on one scene
# --------------------------------------------------------------------------------------------


def solid_of(o, spec):
    """World solid of a scene object, from its sampled properties."""
    _, unit, _ = c04.get_shape(spec["shape"])
    R = geo.rot(float(o.yaw), float(o.pitch), float(o.roll))
    P = np.asarray(o.parentOrientation.r.as_matrix(), float)
    if np.abs(P - np.eye(3)).max() > 1e-12:
        R = P @ R
    dims = [float(o.width), float(o.length), float(o.height)]
    return unit.placed(dims, R, [float(x) for x in o.position])


def obj_spec_for_region(o, spec):
    return {"shape": spec["shape"], "dims": [float(o.width), float(o.length), float(o.height)],
            "ypr": [float(o.yaw), float(o.pitch), float(o.roll)]}


def seg_clip(c, x, A, b):
    """Parameter interval [t0, t1] of the part of segment c + t (x-c), t in [0,1], inside {A y <= b}
    (None if empty)."""
    d = x - c
    num = b - A @ c
    den = A @ d
    t0, t1 = 0.0, 1.0
    for n_, d_ in zip(num, den):
        if abs(d_) < 1e-15:
            if n_ < 0:
                return None
        elif d_ > 0:
            t1 = min(t1, n_ / d_)
        else:
            t0 = max(t0, n_ / d_)
        if t0 > t1:
            return None
    return t0, t1


def fully_blocked(cam, T, occluders, margin):
    """Some convex part K of an occluder, shrunk by `margin`, is crossed by every segment from
    the camera to a vertex of the target's convex hull, strictly before the vertex; the camera
    is outside K.  Then every ray to every point of the target meets K first."""
    for S in occluders:
        for K in S.parts:
            b = K.b - margin
            if (K.A @ cam <= K.b + margin).all():
                continue  # camera inside / on the occluder: not decided
            ok = True
            for v in T.V:
                iv = seg_clip(cam, v, K.A, b)
                if iv is None or iv[0] >= 1.0 - 1e-6:
                    ok = False
                    break
            if ok:
                return True
    return False


def wholly_outside_view(cam, R, angles, dist, T, margin):
    """The target solid has no point in the view volume (sound, not complete)."""
    V = T.V
    # farther than the visible distance: distance from cam to the solid's surface, cam outside
    d_vert = np.linalg.norm(V - cam, axis=1)
    if d_vert.min() > dist * (1 + 1e-3) + margin:
        tri = V[T.F]
        dmin = float(geo.pt_tri_dist(np.repeat(cam[None, :], len(tri), axis=0), tri).min())
        if dmin > dist * (1 + 1e-3) + margin and not geo.points_in_parts(cam[None, :], T.parts).any():
            return "beyond-distance"
    if R is None:
        return None
    h, v = angles
    L = (V - cam) @ R          # local coordinates: x right, y forward, z up
    ang = 0.02                 # angular slack (the implementation may widen the view slightly)
    if h < 2 * math.pi - 1e-9:
        az = np.arctan2(-L[:, 0], L[:, 1])
        if h >= math.pi:
            # the outside is a convex wedge around the backward direction
            if (np.abs(az) > h / 2 + ang).all() and (np.hypot(L[:, 0], L[:, 1]) > margin).all():
                return "outside-horizontal"
        else:
            a = h / 2 + ang
            if a < math.pi / 2:
                # outward normals of the left / right boundary planes of the (convex) view wedge
                for n in (np.array([-math.cos(a), -math.sin(a), 0.0]),
                          np.array([math.cos(a), -math.sin(a), 0.0])):
                    if (L @ n > margin).all():
                        return "outside-horizontal"
            if (L[:, 1] < -margin).all():
                return "behind"
    if v < math.pi - 1e-9:
        alt = np.arctan2(L[:, 2], np.hypot(L[:, 0], L[:, 1]))
        if (alt > v / 2 + ang).all() or (alt < -v / 2 - ang).all():
            return "outside-vertical"
    return None


def segment_hits_mesh(c, x, V, F):
    d = x - c
    ln = np.linalg.norm(d)
    if ln == 0:
        return False
    A, B, C = V[F[:, 0]], V[F[:, 1]], V[F[:, 2]]
    e1, e2 = B - A, C - A
    h = np.cross(d, e2)
    a = np.einsum("ij,ij->i", e1, h)
    ok = np.abs(a) > 1e-15
    inv = 1.0 / np.where(ok, a, 1.0)
    s = c - A
    u = np.einsum("ij,ij->i", s, h) * inv
    q = np.cross(s, e1)
    w = (q @ d) * inv
    t = np.einsum("ij,ij->i", e2, q) * inv
    return bool((ok & (u >= -1e-9) & (w >= -1e-9) & (u + w <= 1 + 1e-9) & (t >= 0) & (t <= 1)).any())


def plainly_visible(cam, R, angles, dist, T, occluders, margin):
    """A ball inside a convex target, of angular radius >= 2 degrees, lies in the view volume
    and the cylinder of that radius around the sight line to its centre is free of occluders."""
    if not T.convex:
        return False
    p = T.parts[0]
    c = p.V.mean(axis=0)
    r = float((p.b - p.A @ c).min()) * 0.9
    D = float(np.linalg.norm(c - cam))
    if r <= 0 or D <= r * 1.5 or math.asin(min(1.0, r / D)) < math.radians(2.0):
        return False
    if D + r > dist * (1 - 1e-3):
        return False
    arad = math.asin(r / D) + 0.03
    if R is not None:
        L = (c - cam) @ R
        az = math.atan2(-L[0], L[1])
        alt = math.atan2(L[2], math.hypot(L[0], L[1]))
        h, v = angles
        if h < 2 * math.pi - 1e-9 and abs(az) + arad > h / 2:
            return False
        if v < math.pi - 1e-9 and abs(alt) + arad > v / 2:
            return False
        if abs(alt) + arad > math.pi / 2 - 0.05:
            return False
    segV = np.array([cam, c, c])
    segF = np.array([[0, 1, 2]])
    for S in occluders:
        if geo.points_in_parts(np.array([cam, c]), S.parts, margin=-margin).any():
            return False
        if segment_hits_mesh(cam, c, S.V, S.F):
            return False
        if geo.mesh_distance(segV, segF, S.V, S.F) < r + margin:
            return False
    return True


# --------------------------------------------------------------------------------------------
# judge
# --------------------------------------------------------------------------------------------


class FakeTime:
    """Stands in for the `time` module inside scenic.core.sample_checking."""

    def __init__(self, incs):
        self.incs = incs
        self.i = 0
        self.t = 0.0

    def perf_counter(self):
        self.t += self.incs[self.i % len(self.incs)]
        self.i += 1
        return self.t

    def __getattr__(self, name):
        import time

        return getattr(time, name)


def eval_pred(r, objs, params):
    pa, pb = objs[r["a"]].position, objs[r["b"]].position
    if r["k"] == "dist":
        d = math.sqrt(sum((float(x) - float(y)) ** 2 for x, y in zip(pa, pb)))
        return d > r["val"] if r["op"] == ">" else d < r["val"]
    i = "xyz".index(r["axis"])
    lhs = float(pa[i])
    rhs = float(pb[i]) + r["off"] + (0.0 if r["k"] == "coord" else (float(params["q"]) - 0.5) * r["scale"])
    return lhs < rhs if r["op"] == "<" else lhs > rhs


def verify_scene(case, scene, sc, reqlines, out, specs, regions, viewers, nth_vis, soft_known=True):
    objs = {}
    for o in scene.objects:
        nm = getattr(o, "name", None)
        if nm in specs or nm == "ego":
            objs[nm] = o
    missing = [n for n in specs if n not in objs]
    if missing:
        out.fail("scene|objects-missing", missing=missing)
        return
    solids = {n: solid_of(objs[n], specs[n]) for n in specs}
    # sanity of the pipeline: occupiedSpace agrees with the properties
    for n, S in solids.items():
        v = np.array(objs[n].occupiedSpace.mesh.vertices, dtype=float)
        if v.shape != S.V.shape or np.abs(v - S.V).max() > 1e-6 * max(1.0, S.size + np.abs(S.V).max()):
            out.fail("scene|occupiedSpace-differs-from-properties", obj=n)
            return
    # 1. user predicates: hard ones always, soft ones when selected for this sample
    for req in sc.userRequirements:
        i = reqlines.get(req.line)
        if i is None:
            raise core.HarnessError(f"user requirement on unknown line {req.line}")
        r = case["reqs"][i]
        if r["prob"] is None and not req.active:
            out.fail("user-req|hard-requirement-not-active", req=r)
        if r["prob"] is not None and not soft_known:
            continue  # selection flags describe the last scene of a batch only
        if req.active and not eval_pred(r, objs, scene.params):
            kind = "hard" if r["prob"] is None else "soft-selected"
            out.fail(f"user-req:{r['k']}|{kind}-predicate-false-in-accepted-scene", req=r,
                     pa=[float(x) for x in objs[r["a"]].position],
                     pb=[float(x) for x in objs[r["b"]].position])
    # 2. pairwise non-overlap
    names = list(specs)
    for i in range(len(names)):
        for j in range(i + 1, len(names)):
            a, b = names[i], names[j]
            if bool(objs[a].allowCollisions) or bool(objs[b].allowCollisions):
                continue
            if specs[a]["allowCollisions"] or specs[b]["allowCollisions"]:
                out.fail("scene|allowCollisions-flag-lost", a=a, b=b)
            SA, SB = solids[a], solids[b]
            if np.linalg.norm(SA.centre - SB.centre) > (SA.size + SB.size) / 2:
                continue
            band = BAND_REL * min(SA.size, SB.size)
            v, depth = geo.overlap_verdict(SA, SB, band)
            out.cls("pair-checked")
            if v > 0:
                cell = "x".join(sorted(("convex" if S.convex else "nonconvex") for S in (SA, SB)))
                out.fail(f"overlap:{cell}|accepted-scene-with-overlapping-objects", a=a, b=b,
                         depth=depth, size=min(SA.size, SB.size))
    if "ego" in objs:
        # the ego of a theatre is a small box: it must not overlap anything either
        espec = {"shape": {"k": "box"}}
        SE = solid_of(objs["ego"], espec)
        for n in names:
            if bool(objs[n].allowCollisions):
                continue
            if np.linalg.norm(SE.centre - solids[n].centre) > (SE.size + solids[n].size) / 2:
                continue
            v, depth = geo.overlap_verdict(SE, solids[n], BAND_REL * min(SE.size, solids[n].size))
            if v > 0:
                out.fail("overlap:ego|accepted-scene-with-overlapping-objects", b=n, depth=depth)
    # 3. containment
    for n in names:
        oreg, rk = regions.get(n) or regions.get("__ws__") or (None, None)
        if oreg is None:
            continue
        S = solids[n]
        v = oreg.contains(S, BAND_REL * S.size)
        out.cls("containment-checked")
        if specs[n].get("rdims"):
            out.cls("containment-checked:fixed-position-random-pose",
                    "fixed-position-random-pose:" + ("inside" if v > 0 else "near-boundary" if v == 0
                                                     else "outside"))
        if v < 0:
            where = "container" if n in regions else "workspace"
            out.fail(f"containment:{where}:{rk}|accepted-object-sticking-out", obj=n,
                     pos=[float(x) for x in objs[n].position])
    # 4. visibility, decidable cases
    for (tname, vis, gi) in viewers:
        v = case["groups"][gi]["viewer"]
        T = solids[tname]
        if v["kind"] == "ego":
            e = objs["ego"]
            cam = np.array([float(x) for x in e.position])
            R = geo.rot(float(e.yaw), float(e.pitch), float(e.roll))
            angles = [math.radians(a) for a in v["angles"]]
            if case["mode2D"]:
                angles[1] = math.pi
        else:
            cam = np.array(v["pos"], float)
            if v["kind"] == "point":
                R, angles = None, (2 * math.pi, math.pi)
            else:
                R = geo.rot(v["yaw"], v["pitch"], 0.0)
                angles = [math.radians(a) for a in v["angles"]]
                if case["mode2D"]:
                    angles[1] = math.pi
        margin = 1e-3 * max(1.0, T.size)
        occ = [solids[n] for n in names if n != tname and bool(objs[n].occluding)]
        want_visible = vis in ("visible from", "visible", "requireVisible")
        cell = {"requireVisible": "requireVisible"}.get(vis) or \
            (("not-visible-from" if vis.startswith("not") else "visible-from")
             + (":first-visibility-requirement" if nth_vis[tname] == 0
                                      else ":later-visibility-requirement"))
        if want_visible:
            reach = float(np.linalg.norm(T.centre - cam)) + T.circumradius_about(T.centre)
            if any(np.linalg.norm(S.centre - cam) > reach for S in occ):
                out.cls("vis:scene-with-occluder-centre-beyond-target")
            why = wholly_outside_view(cam, R, angles, v["dist"], T, margin)
            if why:
                out.cls("vis:decided-outside")
                out.fail(f"visibility:{cell}|accepted-as-visible-but-{why}", target=tname,
                         pos=[float(x) for x in objs[tname].position])
            elif fully_blocked(cam, T, occ, margin):
                out.cls("vis:decided-blocked")
                if case["groups"][gi].get("far"):
                    out.cls("vis:decided-blocked-by-occluder-centred-beyond-target")
                out.fail(f"visibility:{cell}|accepted-as-visible-but-fully-occluded", target=tname,
                         pos=[float(x) for x in objs[tname].position])
            else:
                out.cls("vis:undecided-or-fine")
        else:
            if plainly_visible(cam, R, angles, v["dist"], T, occ, margin):
                out.cls("vis:decided-plain")
                out.fail(f"visibility:{cell}|accepted-as-not-visible-but-in-plain-view", target=tname,
                         pos=[float(x) for x in objs[tname].position])
            else:
                out.cls("vis:undecided-or-fine")


def judge(case):
    import scenic
    from scenic.core import sample_checking
    from scenic.core.distributions import RejectionException
    from scenic.core.errors import InvalidScenarioError

    geo.selftest()
    out = core.Outcome()
    out.cls("mode2D" if case["mode2D"] else "mode3D")
    for g in case["groups"]:
        out.cls("group:" + g["kind"])
        if g["kind"] == "pinned":
            out.cls("fixed-position-random-pose-near-edge",
                    "fixed-position-random-pose-near-edge:" + g["how"] + ":" + g["where"])
        if g.get("far"):
            out.cls("occluder-centre-beyond-target", "occluder-centre-beyond-target:" + g["far"])
    try:
        src, params, reqlines = emit(case)
    except geo.Unsolved:
        return core.Outcome(inconclusive=True, classes=["oracle-lp-unsolved"])
    specs = {o["name"]: o for o in all_objects(case)}
    regions = {}
    for o in all_objects(case):
        if o.get("container"):
            _, oreg, rk = c04.build_region(o["container"])
            regions[o["name"]] = (oreg, rk)
            out.cls("container:" + rk)
    if case["workspace"]:
        _, oreg, rk = c04.build_region(case["workspace"])
        regions["__ws__"] = (oreg, rk)
        out.cls("workspace:" + rk)
    viewers = []
    nth_vis = {}
    # order in which the implementation builds the `visible from` / `not visible from`
    # requirements: instances in creation order, all `visible from` first
    order = [(o["name"], o["vis"]) for o in all_objects(case) if o.get("vis") in ("visible from", "visible")]
    order += [(o["name"], o["vis"]) for o in all_objects(case)
              if o.get("vis") in ("not visible from", "not visible")]
    for k, (n, _) in enumerate(order):
        nth_vis[n] = k
    for gi, g in enumerate(case["groups"]):
        for o in g["objs"]:
            if o.get("vis"):
                viewers.append((o["name"], o["vis"], gi))
                out.cls("vis:" + o["vis"])
                nth_vis.setdefault(o["name"], 0)
    if len(order) >= 2:
        out.cls("vis:two-or-more-visibility-requirements")

    random.seed(case["seed"])
    np.random.seed(case["seed"])
    try:
        sc = scenic.scenarioFromString(src, params=params, mode2D=case["mode2D"])
    except InvalidScenarioError as e:
        # fixed objects may legitimately be rejected at compile time (validate)
        out.cls("compile:invalid-scenario")
        out.note = repr(e)
        return out
    except Exception as e:
        out.fail("compile|" + core.exc_signature(e), source=src, error=repr(e))
        return out

    orders = []
    WAC = sample_checking.WeightedAcceptanceChecker
    orig_sorted = WAC.__dict__["sortedRequirements"]

    def spy(self):
        r = orig_sorted(self)
        orders.append(tuple(self.requirements.index(x) for x in r))
        return r

    SC = sample_checking.SampleChecker
    orig_check = SC.__dict__["checkRequirements"]
    rejkinds = {}

    def spy_check(self, sample):
        r = orig_check(self, sample)
        if r is not None:
            k = str(r).split(" violation")[0].split(":")[0][:24]
            rejkinds[k] = rejkinds.get(k, 0) + 1
        return r

    SC.checkRequirements = spy_check
    fake = FakeTime(case["times"])
    saved_time = sample_checking.time
    sample_checking.time = fake
    WAC.sortedRequirements = spy
    rejections = 0
    nscenes = 0
    try:
        for op in case["ops"]:
            try:
                if op[0] == "gen":
                    scene, its = sc.generate(maxIterations=MAXIT)
                    scenes = [scene]
                elif op[0] == "batch":
                    scenes, its = sc.generateBatch(op[1], maxIterations=MAXIT)
                elif op[0] == "basic":
                    sc.setSampleChecker(sample_checking.BasicChecker(False))
                    out.cls("op:switch-to-basic")
                    continue
                else:
                    sc.setSampleChecker(WAC(bufferSize=op[1]) if len(op) > 1 else WAC())
                    out.cls("op:switch-to-weighted")
                    continue
            except RejectionException:
                out.cls("exhausted-maxIterations")
                break
            except Exception as e:
                out.fail("generate|" + core.exc_signature(e), source=src, error=repr(e))
                break
            rejections += its - len(scenes)
            for k, scene in enumerate(scenes):
                nscenes += 1
                verify_scene(case, scene, sc, reqlines, out, specs, regions, viewers, nth_vis,
                             soft_known=(k == len(scenes) - 1))
    finally:
        sample_checking.time = saved_time
        WAC.sortedRequirements = orig_sorted
        SC.checkRequirements = orig_check
    for k in rejkinds:
        out.cls("rejected-by:" + k)
    changes = sum(1 for a, b in zip(orders, orders[1:]) if a != b)
    if rejections:
        out.cls("had-rejections")
    if changes:
        out.cls("order-changed")
    if nscenes == 0:
        out.inconclusive = True
        out.cls("no-scene")
        if rejkinds:
            out.cls("no-scene-mostly:" + max(rejkinds, key=rejkinds.get))
    out.nontrivial = nscenes > 0 and rejections > 0 and changes > 0
    if out.failures:
        # keep the program text with the first failure for the replay file
        sig, det = out.failures[0]
        det["source"] = src
    return out


def replay(case):
    return judge(case)


def plan(tier, seed, jobs):
    n = 60 if tier == "quick" else 1500
    return [{"seed": seed * 1000 + k, "n": n} for k in range(jobs)]


def run_shard(shard, tier):
    geo.selftest()
    col = core.Collector(PROP, shard["id"])
    core.hyp_search(cases(), judge, shard["n"], shard["seed"], col,
                    known_sigs=shard.get("known_sigs", ()), case_timeout=180,
                    shrink_s=25 if tier == "quick" else 240)
    return col.result()
