"""C03 — positions drawn in/on a region lie in it and are uniformly distributed.

Primitive regions and compositions (intersect / union / difference) with exactly computable
measures.  (1) every draw is a member by the independent oracle, in all three coordinates;
(2) discrete regions: the exact law of `uniformPointInner` is enumerated with vf.rngenum and
must be uniform over the member points; (3) continuous regions: Pearson chi-square of the draws
against cells of exactly known measure of the *composed* set, two-stage (p < 1e-9 on two
independent seeds); (4) every cell with expected count >= 50 is hit.

Histories (vf.c03_hist): besides regions built fresh and sampled once, one shared region object
(a footprint, a polygon used as itself and through its cached `footprint`, an upright solid, a
disc / rectangle) meets 2-4 partners in sequence -- compositions in both operand orders,
containsPoint / intersects / size queries and small draws in between, sampling deferred until
after later operations, an earlier partner met again -- and every composed region sampled in
that history is judged by the same oracle (1), (3), (4).  A failure that freshly built operands
reproduce keeps the plain signature; one that only the reused objects show is reported as
`<cell>:history|<symptom>`.
"""

from __future__ import annotations

import random

import numpy as np

from vf import c03_cells as cells
from vf import c03_hist as hist
from vf import c16_gen as gen
from vf import core, rngenum
from vf import regoracle as ro
from vf.props import c16 as base
from vf.regoracle import IN, NEAR, OUT

PROP = "C03"
NEEDS_PARSER = False
FLOOR = 0.50
RULE = ("region specs drawn from a harness RNG keyed by (VERIF_SEED, family, repetition): the 12 "
        "samplable primitive kinds (Box, Spheroid, extruded-polygon MeshVolume, MeshSurface, "
        "Polygon with holes/multipolygon at height z, Circle, Sector, Rectangle, Polyline, 3D "
        "Path, PointSet, Grid) and compositions with exactly computable measure: polygonal x "
        "polygonal in one plane (all three operations) and in two planes (union), convex solid x "
        "convex solid (mesh Booleans), solid x planar slice, polyline x planar, path x solid, "
        "point set / grid x anything (exact enumeration of all RNG outcomes).  Plus histories "
        "(96 quick / 480 thorough): one shared region OBJECT (footprint, polygon as itself and via "
        ".footprint, upright box / prism, disc, rectangle) and 2-4 partners met in sequence "
        "(intersect / union / difference in both operand orders, containsPoint / intersects / size "
        "probes and small draws in between, deferred sampling, a partner met again); partners of a "
        "footprint are upright solids / paths whose vertical slabs (0.05 ... 1500 high) lie inside / "
        "stick out of / cover / clear an earlier slab scaled by 1 ... 1000; upright solid x footprint, "
        "upright solid x upright solid and path x footprint measures are exact (2D Booleans x "
        "z-layers).  Non-trivial = a composed region, or a primitive with >= 2 cells of different "
        "measure (>= 2 member points for discrete regions); a history: >= 2 operations on the "
        "shared object before a judged sampling; distinct = SHA-1 of the case JSON.")
ASSUMPTIONS = [
    "vf.regoracle membership (band 1e-3 * size) and vf.c03_cells exact cell measures (shapely on "
    "generator polygons / 1440-gons for discs, half-space volumes for convex solids), both with "
    "start-up self-checks",
    "continuous uniformity is statistical: flagged only if p < 1e-9 on two independent seeds",
    "discrete samplers draw through the `random` module attributes patched by vf.rngenum (a numpy "
    "or continuous draw is a harness error)",
    "histories: the answers (and exceptions) of the interleaved containsPoint / intersects / size "
    "probes are not judged here (C16 does), only the draws; the bounded stand-in of a footprint may "
    "be buffered by <= 1e-3 (documented approximation), far below the detectable effect size",
]

PRIMS = ["Box", "Spheroid", "MeshVol", "MeshSurf", "Polygon", "Circle", "Sector", "Rectangle",
         "Polyline", "Path", "PointSet", "Grid"]
PLANAR = list(gen.PLANAR)
SLOW = ("Box", "Spheroid", "MeshVol")
HIST_QUICK, HIST_THOROUGH = 96, 480


def families():
    """(name, ka, kb, op, plane-mode) of every generated family."""
    fam = [("prim", k, None, None, None) for k in PRIMS]
    # planar x planar in one plane
    pp = [("Polygon", "Polygon"), ("Polygon", "Circle"), ("Circle", "Rectangle"), ("Sector", "Polygon"),
          ("Rectangle", "Sector"), ("Circle", "Circle"), ("Rectangle", "Polygon")]
    for a, b in pp:
        for op in ("intersect", "union", "difference"):
            fam.append(("comp", a, b, op, "same"))
    for a, b in (("Polygon", "Circle"), ("Rectangle", "Polygon"), ("Circle", "Sector")):
        fam.append(("comp", a, b, "union", "different"))
    for a, b in (("Box", "Box"), ("Box", "Spheroid"), ("Spheroid", "Box")):
        for op in ("intersect", "union", "difference"):
            fam.append(("comp", a, b, op, None))
    for a, b, op in (("Box", "Polygon", "intersect"), ("Spheroid", "Circle", "intersect"),
                     ("Polygon", "Box", "intersect"), ("Rectangle", "Spheroid", "intersect"),
                     ("Polygon", "Spheroid", "difference"), ("Circle", "Box", "difference")):
        fam.append(("comp", a, b, op, "same"))
    for a, b, op in (("Polyline", "Polygon", "intersect"), ("Polyline", "Circle", "difference"),
                     ("Rectangle", "Polyline", "intersect"), ("Polyline", "Sector", "intersect")):
        fam.append(("comp", a, b, op, "zero"))
    for a, b in (("Path", "Box"), ("Spheroid", "Path")):
        fam.append(("comp", a, b, "intersect", None))
    # discrete
    for other in ("Box", "Spheroid", "MeshVol", "Polygon", "Circle", "Sector", "Rectangle", "Footprint"):
        fam.append(("disc", "PointSet", other, "intersect", "same"))
        fam.append(("disc", other, "PointSet", "intersect", "same"))
        fam.append(("disc", "PointSet", other, "difference", "same"))
    for other in ("Box", "Circle", "Sector", "Polygon"):
        fam.append(("disc", "Grid", other, "intersect", "zero"))
    fam += [("disc", "PointSet", "PointSet", "intersect", None), ("disc", "PointSet", "PointSet", "union", None),
            ("disc", "PointSet", "PointSet", "difference", None)]
    # (Grid x PointSet unions are not generated: a GridRegion is sampled as a set of points but
    #  tests membership by cells, so the multiplicity of a point of the union is ambiguous)
    return fam


def height_of(spec):
    k = spec["kind"]
    if k == "Polygon":
        return spec["z"]
    if k in ("Circle", "Sector"):
        return spec["center"][2]
    if k == "Rectangle":
        return spec["pos"][2]
    return None


def make_case(seed, idx, rep, n_fast, n_slow):
    mode, ka, kb, op, plane = families()[idx]
    rnd = random.Random(f"C03:{seed}:{idx}:{rep}")
    for _ in range(20):
        if mode == "prim":
            A, _ = gen.gen_pair(ka, "Box", rnd)
            B = None
        else:
            A, B = gen.gen_pair(ka, kb, rnd)
        specs = [s for s in (A, B) if s]
        for s in specs:
            s.pop("lazy", None)
        hs = [height_of(s) for s in specs if height_of(s) is not None]
        if plane == "same" and len(hs) == 2 and hs[0] != hs[1]:
            continue  # (the generator puts both in the shared plane 64% of the time)
        if plane == "different" and (len(hs) < 2 or hs[0] == hs[1]):
            continue
        if plane == "zero" and any(h != 0 for h in hs):
            continue
        if plane == "same" and len(hs) == 1 and mode == "comp":
            # the solid partner must straddle the plane: it is generated around it already
            pass
        break
    else:
        raise core.HarnessError(f"C03 generator could not satisfy plane mode {plane} for {ka}/{kb}")
    return {"mode": mode, "op": op, "A": A, "B": B, "seed": rnd.randrange(1 << 30),
            "n_fast": n_fast, "n_slow": n_slow}


# ------------------------------------------------------------------------------------------
# judge
# ------------------------------------------------------------------------------------------

def cell_name(case, oa, ob):
    if case["mode"] == "prim":
        c = "prim:" + case["A"]["kind"]
    else:
        c = f"{case['op']}:{gen.FAMILY[case['A']['kind']]}×{gen.FAMILY[case['B']['kind']]}"
    if base.wide_sector(oa) or (ob is not None and base.wide_sector(ob)):
        c += ":wide-sector"
    return c


def member_verdict(case, oa, ob, X, band, footprint=False):
    va = base.verdict(oa, X, band, footprint)
    if ob is None:
        return va
    return ro.combine(case["op"], va, base.verdict(ob, X, band, footprint))


def draw(R, n, out):
    """n draws of R.uniformPointInner (rejections retried).  Returns array or None."""
    from scenic.core.distributions import RejectionException

    pts = []
    tries = 0
    while len(pts) < n:
        tries += 1
        if tries > 60 * n + 1000:
            return None
        try:
            p = R.uniformPointInner()
        except RejectionException:
            continue
        pts.append((float(p[0]), float(p[1]), float(p[2])))
    out.cls("acceptance:%d%%" % (10 * int(10 * len(pts) / tries)))
    return np.array(pts)


def chi_square(idx, meas, n_min_exp=5.0):
    """(p-value, worst cell description, missed cells) of the counts against the measures."""
    from scipy.stats import chi2

    ok = idx >= 0
    idx = idx[ok]
    cnt = np.bincount(idx, minlength=len(meas)).astype(float)
    pos = meas > 1e-12 * meas.sum()
    stray = cnt[~pos].sum()
    n = cnt[pos].sum()
    exp = meas[pos] / meas[pos].sum() * n
    obs = cnt[pos]
    big = exp >= n_min_exp
    e = np.append(exp[big], exp[~big].sum())
    o = np.append(obs[big], obs[~big].sum())
    if e[-1] == 0:
        e, o = e[:-1], o[:-1]
    if len(e) < 2:
        return 1.0, None, [], stray
    stat = float(((o - e) ** 2 / e).sum())
    p = float(chi2.sf(stat, len(e) - 1))
    w = int(np.argmax((o - e) ** 2 / e))
    worst = {"cell": w, "expected": float(e[w]), "observed": float(o[w])}
    missed = [int(i) for i in np.where((exp >= 50) & (obs == 0))[0]]
    return p, worst, missed, stray


def judge(case):
    ro.selftest()
    if case["mode"] == "hist":
        return judge_hist(case)
    out = core.Outcome()
    cx = base.Ctx(out)
    try:
        oa = ro.from_spec(case["A"])
        ob = ro.from_spec(case["B"]) if case["B"] else None
    except ro.OracleError as e:
        raise core.HarnessError(f"generator produced an invalid spec: {e}")
    cell = cell_name(case, oa, ob)
    out.cls("family:" + cell.replace(":wide-sector", ""))
    seed = case["seed"]
    random.seed(seed)
    np.random.seed(seed % (1 << 32))
    st, A = cx.call(cell, lambda: gen.build(case["A"]))
    if st != "ok":
        return out
    R = A
    if ob is not None:
        st, B = cx.call(cell, lambda: gen.build(case["B"]))
        if st != "ok":
            return out
        st, R = cx.call(cell, lambda: getattr(A, case["op"])(B))
        if st != "ok":
            return out
    scales = [s for s in ([oa.scale] + ([ob.scale] if ob is not None else [])) if np.isfinite(s) and s > 0]
    band = 1e-3 * max(scales + [1.0])
    rtype = type(R).__name__
    out.cls("result:" + rtype)
    hf = base.height_feature(oa, ob) if ob is not None else ""
    if case["mode"] == "disc" or case["A"]["kind"] in ("PointSet", "Grid") and ob is None:
        return judge_discrete(case, cx, cell, hf, R, rtype, oa, ob, band)
    return judge_continuous(case, cx, cell, hf, R, rtype, oa, ob, band)


def report_nonmembers(cx, case, cell, hf, oa, ob, X, band, rtype):
    v = member_verdict(case, oa, ob, X, band)
    bad = np.where(v == OUT)[0]
    if len(bad) == 0:
        return False
    vf_ = member_verdict(case, oa, ob, X, band, footprint=True)
    for i in bad[:50]:
        if vf_[i] != OUT:
            cx.fail(f"{cell}{hf}|draw-outside:height", sample=list(X[i]), result=rtype)
        else:
            cx.fail(f"{cell}|draw-outside", sample=list(X[i]), result=rtype)
    return True


def judge_continuous(case, cx, cell, hf, R, rtype, oa, ob, band):
    out = cx.out
    if rtype == "EmptyRegion":
        try:
            _, meas = cells.composed_partition(case["op"], oa, ob)
        except cells.Unsupported:
            out.cls("empty-composition")
            return out
        ref = min(m for m in (oa.measure(), ob.measure()) if np.isfinite(m))
        if meas.sum() <= 1e-4 * ref:
            out.cls("empty-composition")  # (or a sliver: merely touching operands are not judged)
            return out
        cx.fail(f"{cell}|empty-but-positive-measure", result=rtype, measure=float(meas.sum()))
        return out
    try:
        assign, meas = cells.primitive_partition(oa) if ob is None else \
            cells.composed_partition(case["op"], oa, ob)
    except cells.Unsupported as e:
        out.cls("empty-composition" if str(e) == "empty" else "no-partition")
        return out
    finite = [m for m in ([oa.measure()] + ([ob.measure()] if ob is not None else [])) if np.isfinite(m)]
    if meas.sum() <= 1e-4 * min(finite + [np.inf]):
        out.cls("sliver-composition")  # merely touching operands: not judged
        return out
    slow = rtype in ("MeshVolumeRegion", "BoxRegion", "SpheroidRegion") or \
        (rtype in base.GENERIC and any(s and s["kind"] in SLOW for s in (case["A"], case["B"])))
    n = case["n_slow"] if slow else case["n_fast"]
    pos = meas > 1e-12 * meas.sum()
    distinct = len(set(np.round(meas[pos] / meas.sum(), 6)))
    out.nontrivial = (ob is not None) or (int(pos.sum()) >= 2 and distinct >= 2)
    out.cls(f"cells:{min(int(pos.sum()) // 4 * 4, 16)}+")
    pvals = []
    for stage in (0, 1):
        s = case["seed"] + 7919 * stage
        random.seed(s)
        np.random.seed(s % (1 << 32))
        st, X = cx.call(cell, lambda: draw(R, n, out))
        if st != "ok":
            return out
        if X is None:
            out.inconclusive = True
            out.cls("sampler-always-rejects")
            return out
        if stage == 0:
            # also through the public distribution object
            from scenic.core.regions import Region

            st, extra = cx.call(cell, lambda: [Region.uniformPointIn(R).sample() for _ in range(5)])
            if st == "ok":
                X = np.concatenate([X, np.array([[float(c) for c in e] for e in extra])])
        if report_nonmembers(cx, case, cell, hf, oa, ob, X, band, rtype):
            return out
        p, worst, missed, stray = chi_square(assign(X), meas)
        pvals.append(p)
        if missed:
            cx.fail(f"{cell}|support:cell-never-hit", cells=missed, draws=len(X), result=rtype)
            return out
        if p >= 1e-9:
            break
        out.cls("chi2-first-stage-alarm")
    if len(pvals) == 2 and pvals[1] < 1e-9:
        d = "over" if worst and worst["observed"] > worst["expected"] else "under"
        cx.fail(f"{cell}|chi2:not-uniform", pvalues=pvals, worst=worst, direction=d, draws=n,
                result=rtype)
    out.cls("continuous")
    return out


def judge_discrete(case, cx, cell, hf, R, rtype, oa, ob, band):
    out = cx.out
    from scenic.core.distributions import RejectionException
    from scenic.core.regions import UndefinedSamplingException

    # candidate points: every point of every discrete operand
    cands = np.concatenate([o.P for o in (oa, ob) if isinstance(o, ro.Points)])
    cands = np.unique(cands, axis=0)
    v = member_verdict(case, oa, ob, cands, band)
    key = lambda p: tuple(float(c) for c in p)  # noqa
    status = {key(p): int(s) for p, s in zip(cands, v)}
    n_in = int((v == IN).sum())
    out.nontrivial = n_in >= 2
    out.cls("members:%s" % ("0" if n_in == 0 else "1" if n_in == 1 else "2+"))
    if rtype == "EmptyRegion":
        if n_in:
            cx.fail(f"{cell}|empty-but-has-members", members=n_in)
        return out
    if rtype == "AllRegion":
        return out
    en = rngenum.Enumerator(40000)

    def one():
        try:
            p = R.uniformPointInner()
        except RejectionException:
            return "REJECT"
        return key(p)

    try:
        with rngenum.patched_rng(en):
            law = en.run(one)
    except rngenum.TooManyLeaves:
        out.inconclusive = True
        out.cls("too-many-leaves")
        return out
    except rngenum.OutOfFragment as e:
        raise core.HarnessError(f"continuous draw in a discrete sampler: {e}")
    except UndefinedSamplingException:
        out.cls("unsupported:sampling")
        return out
    except AssertionError:
        raise
    except core.CaseTimeout:
        raise
    except Exception as e:  # noqa
        cx.fail(f"{cell}|sample:{core.exc_signature(e)}", error=repr(e)[:300], result=rtype)
        return out
    out.cls("discrete")
    acc = {k: p for k, p in law.items() if k != "REJECT"}
    if not acc:
        if n_in:
            cx.fail(f"{cell}|support:always-rejects", members=n_in, result=rtype)
        return out
    for k in acc:
        s = status.get(k)
        if s is None or s == OUT:
            Xk = np.array([k])
            height = s == OUT and member_verdict(case, oa, ob, Xk, band, footprint=True)[0] != OUT
            if height:
                cx.fail(f"{cell}{hf}|draw-outside:height", sample=list(k), result=rtype)
            else:
                cx.fail(f"{cell}|draw-outside", sample=list(k), result=rtype)
    missing = [k for k, s in status.items() if s == IN and k not in acc]
    if missing:
        cx.fail(f"{cell}|support:member-never-drawn", missing=[list(m) for m in missing[:3]],
                members=n_in, result=rtype)
    probs = {p for k, p in acc.items() if status.get(k) in (IN, NEAR)}
    if len(probs) > 1:
        cx.fail(f"{cell}|exact-law:not-uniform",
                law={str(k): str(p) for k, p in list(acc.items())[:6]}, result=rtype)
    return out


# ------------------------------------------------------------------------------------------
# histories: the same region objects reused across a sequence of operations
# ------------------------------------------------------------------------------------------

def make_hist_case(seed, k, n_fast, n_slow):
    rnd = random.Random(f"C03:hist:{seed}:{k}")
    case = {"mode": "hist"}
    case.update(hist.gen_hist(rnd))
    case.update({"seed": rnd.randrange(1 << 30), "n_fast": n_fast, "n_slow": n_slow})
    return case


def role_spec(shared, role):
    """Spec of the operand the shared region contributes in this role."""
    if role == "fp" and shared["kind"] == "Polygon":
        return {"kind": "Footprint", "poly": shared["poly"]}
    return shared


class History:
    """Scenic-side state of one history: the shared object and the partners are built once."""

    def __init__(self, case):
        self.case = case
        self.S = None
        self.P = {}

    def shared(self, role):
        if self.S is None:
            self.S = gen.build(self.case["shared"])
        if role == "fp" and self.case["shared"]["kind"] == "Polygon":
            return self.S.footprint  # (a cached property: the same footprint object every time)
        return self.S

    def partner(self, j):
        if j not in self.P:
            self.P[j] = gen.build(self.case["partners"][j])
        return self.P[j]

    def operands(self, step):
        S, P = self.shared(step["role"]), self.partner(step["j"])
        return (S, P) if step["order"] == "SP" else (P, S)


def step_view(case, step):
    """What judging the result of one composition needs, in the format of a plain case."""
    ss, ps = role_spec(case["shared"], step["role"]), case["partners"][step["j"]]
    A, B = (ss, ps) if step["order"] == "SP" else (ps, ss)
    return {"mode": "comp", "op": step["op"], "A": A, "B": B, "seed": case["seed"] + 104729 * step["r"],
            "n_fast": case["n_fast"], "n_slow": case["n_slow"]}


def judge_step(v, A, B, R=None):
    """Judge op(A, B) (composed here unless R is given) exactly like a plain composed case.
    -> (Outcome of this step alone, R)"""
    sub = core.Outcome()
    cx = base.Ctx(sub)
    oa, ob = ro.from_spec(v["A"]), ro.from_spec(v["B"])
    cell = cell_name(v, oa, ob)
    if R is None:
        st, R = cx.call(cell, lambda: getattr(A, v["op"])(B))
        if st != "ok":
            return sub, None
    scales = [s for s in (oa.scale, ob.scale) if np.isfinite(s) and s > 0]
    band = 1e-3 * max(scales + [1.0])
    rtype = type(R).__name__
    sub.cls("result:" + rtype)
    if rtype == "DifferenceRegion" and np.isfinite(oa.measure()):
        # sampled by rejection from the first operand: when (by the oracle) less than 15% of it
        # survives, the draws cost more than a history can afford -- not judged
        try:
            _, meas = cells.composed_partition(v["op"], oa, ob)
        except cells.Unsupported:
            meas = None
        if meas is not None and meas.sum() < 0.15 * oa.measure():
            sub.cls("history:not-sampled:low-acceptance")
            return sub, R
    judge_continuous(v, cx, cell, base.height_feature(oa, ob), R, rtype, oa, ob, band)
    return sub, R


def fresh_symptoms(case, step):
    """Symptoms of the same composition on freshly built operands (no history)."""
    h = History(case)
    A, B = h.operands(step)
    sub, _ = judge_step(step_view(case, step), A, B)
    return {sig.split("|", 1)[1] for sig, _ in sub.failures}


def judge_hist(case):
    out = core.Outcome()
    steps = case["steps"]
    try:
        ro.from_spec(case["shared"])
        for p in case["partners"]:
            ro.from_spec(p)
    except ro.OracleError as e:
        raise core.HarnessError(f"generator produced an invalid spec: {e}")
    sk = case["shared"]["kind"]
    out.cls("history:shared=" + sk, "history:reused-operand")
    roles = {s["role"] for s in steps if "role" in s}
    if len(roles) == 2:
        out.cls("history:polygon-as-itself-and-as-footprint")
    for lab in case["slabs"]:
        out.cls("history:slab:" + lab)
    random.seed(case["seed"])
    np.random.seed(case["seed"] % (1 << 32))
    cx = base.Ctx(out)
    h = History(case)
    st, _ = cx.call("construct:" + sk, lambda: h.shared("self"))
    if st != "ok":
        return out
    results, composed_at, ops_on_shared, judged = {}, {}, 0, 0
    longest = 0

    def report(step, sub):
        """Failures of a step go out under the plain cell if fresh operands fail alike,
        under <cell>:history if only the reused objects do."""
        for c in sub.classes:
            out.cls(c)
        if not sub.failures:
            return
        fresh = fresh_symptoms(case, step)
        for sig, detail in sub.failures:
            cell, sym = sig.split("|", 1)
            if sym not in fresh:
                sig = f"{cell}:history|{sym}"
                detail = dict(detail, step=step["r"], operations_before=ops_on_shared)
            cx.fail(sig, **detail)

    for pos, step in enumerate(steps):
        t = step["t"]
        if t == "compose":
            v = step_view(case, step)
            oa, ob = ro.from_spec(v["A"]), ro.from_spec(v["B"])
            cell = cell_name(v, oa, ob)
            sub = core.Outcome()
            scx = base.Ctx(sub)
            st, AB = scx.call(cell, lambda: h.operands(step))
            if st == "ok":
                st, R = scx.call(cell, lambda: getattr(AB[0], step["op"])(AB[1]))
            ops_on_shared += 1
            if st == "ok":
                results[step["r"]] = (step, AB, R)
                composed_at[step["r"]] = pos
                out.cls("history:op:%s:%s" % (step["op"], "shared-first" if step["order"] == "SP" else "shared-second"))
                if step.get("again"):
                    out.cls("history:partner-met-again")
            else:
                report(step, sub)
        elif t == "probe":
            what = step["what"]
            out.cls("history:probe:" + what)
            try:
                if what == "containsPoint":
                    h.shared(step["role"]).containsPoint(base.vec(step["pt"]))
                elif what == "intersects":
                    S, P = h.shared(step["role"]), h.partner(step["j"])
                    (S.intersects(P) if step["order"] == "SP" else P.intersects(S))
                elif what == "size":
                    h.shared(step["role"]).size
                elif step["r"] in results:
                    from scenic.core.regions import Region

                    R = results[step["r"]][2]
                    if type(R).__name__ != "EmptyRegion":
                        for _ in range(3):
                            Region.uniformPointIn(R).sample()
                ops_on_shared += 1
            except core.CaseTimeout:
                raise
            except Exception as e:  # noqa  (the answer of a probe is not C03's business)
                out.cls("history:probe-raised:" + type(e).__name__)
        elif t == "judge" and step["r"] in results:
            cstep, AB, R = results[step["r"]]
            if any(s["t"] != "judge" for s in steps[composed_at[step["r"]] + 1:pos]):
                out.cls("history:deferred-sampling")
            sub, _ = judge_step(step_view(case, cstep), AB[0], AB[1], R)
            report(cstep, sub)
            if sub.inconclusive:
                out.inconclusive = True
            if "continuous" in sub.classes:
                judged += 1
                longest = max(longest, ops_on_shared)
    out.cls("history:len=%d" % min(longest, 8) if longest < 8 else "history:len=8+")
    out.cls("history:judged-samplings=%d" % judged)
    out.nontrivial = judged >= 1 and longest >= 2
    return out


def replay(case):
    return judge(case)


def plan(tier, seed, jobs):
    reps = 2 if tier == "quick" else 12
    n_fast, n_slow = (60000, 2500) if tier == "quick" else (150000, 10000)
    jobs = max(1, jobs)
    nhist = HIST_QUICK if tier == "quick" else HIST_THOROUGH
    return [{"seed": seed, "reps": reps, "n_fast": n_fast, "n_slow": n_slow, "k": k, "of": jobs,
             "nhist": nhist} for k in range(jobs)]


def run_shard(shard, tier):
    try:
        ro.selftest()
        cells.selftest()
        rngenum.selftest()
    except ro.OracleError as e:
        raise core.HarnessError(str(e))
    col = core.Collector(PROP, shard["id"])
    fam = families()
    todo = [(i, r) for r in range(shard["reps"]) for i in range(len(fam))]
    todo += [("hist", k) for k in range(shard.get("nhist", 0))]
    for n, (i, r) in enumerate(todo):
        if n % shard["of"] != shard["k"]:
            continue
        if i == "hist":
            # (a history samples up to 5 regions: fewer draws from the fast samplers, same thresholds)
            case = make_hist_case(shard["seed"], r, shard["n_fast"] // 6, shard["n_slow"])
        else:
            case = make_case(shard["seed"], i, r, shard["n_fast"], shard["n_slow"])
        try:
            with core.time_limit(300):
                o = judge(case)
        except core.CaseTimeout:
            o = core.Outcome(inconclusive=True, classes=["timeout"])
        col.add(case, o)
    return col.result()
