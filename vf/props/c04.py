"""C04 — object overlap / containment / minimum-distance tests agree with exact solid geometry.

Pairs of objects and object–region pairs are placed *constructively* (a direction and a signed
gap are drawn; the second body is moved to the exact contact position found by an LP and then
displaced by the drawn gap), the truth is computed by vf.geo from the objects' properties and
the unit shape meshes, and compared with Object.intersects (both orders), the `intersects`
operator, Region.containsObject and Object.minimumDistanceTo outside a near-boundary band.
"""

from __future__ import annotations

import os

os.environ.setdefault("OMP_NUM_THREADS", "1")
os.environ.setdefault("OPENBLAS_NUM_THREADS", "1")

import math
import random

import numpy as np
from hypothesis import strategies as st

from vf import core, geo

PROP = "C04"
NEEDS_PARSER = False
FLOOR = 0.60
BAND_REL = 1e-4     # near-boundary band, relative to the size of the smaller body
BAND_ABS = 2e-5     # ... and never thinner than this (FCL's own tolerances are absolute, 1e-6)
DIST_REL = 5e-3     # tolerance of minimumDistanceTo relative to the size of the smaller body: FCL's
                    # iterative GJK stops early in rare cases; against an exact QP its result was
                    # too large by up to 2.2e-4·size in 8 500 disjoint pairs (heavy tail), which is
                    # treated as solver tolerance and counted in class `mindist:inexact`
DIST_ABS = 1e-5
RULE = ("Hypothesis-generated pairs (object, object) and (region, object): shapes box / cylinder / "
        "cone / spheroid / generated polycube meshes (non-convex single-body, multi-body), "
        "dimensions 0.2–8, generic / planar / axis-aligned yaw-pitch-roll, optional parent "
        "orientation, positions away from the origin; second body placed at LP-computed contact "
        "± drawn gap, inside a part, inside a concavity, at a free overlap depth, or far; regions: "
        "box, spheroid, convex and polycube mesh volumes, polygon footprints with holes, planar "
        "polygons, and differences / intersections of those.  Non-trivial = the two bodies' "
        "circumspheres about their centres intersect (pair) / the object's bounding sphere meets "
        "the region's bounding box (contain) and the oracle verdict is outside the near-boundary "
        "band; distinct = SHA-1 of the case.")
ASSUMPTIONS = [
    "unit shape meshes (shape.mesh vertices/faces) and trimesh.creation primitives are the "
    "trusted base; world geometry is rebuilt as R·diag(w,l,h)·v+p with R=Rz(yaw)Rx(pitch)Ry(roll)",
    "a configuration is judged only if the solids share a ball of radius > 1e-4·size or are "
    "separated by more than 2e-4·size (size = bounding-box diagonal of the smaller body)",
    "bands are never thinner than 2e-5 absolute; minimumDistanceTo is compared with tolerance "
    "5e-3·size + 1e-5 (FCL's iterative GJK: errors up to 2.2e-4·size were observed against an "
    "exact QP and are treated as solver tolerance, counted in class mindist:inexact)",
    "PolygonalRegion / PolygonalFootprintRegion contain an object iff its vertical projection "
    "lies in the polygon (height ignored, as documented for footprints)",
]

# --------------------------------------------------------------------------------------------
# shapes: unit meshes (trusted base) and oracle solids
# --------------------------------------------------------------------------------------------

_SHAPES = {}


def shape_key(spec):
    return core.digest(spec)


def get_shape(spec):
    """(scenic Shape, unit oracle Solid, unit empty cells) for a shape spec."""
    key = shape_key(spec)
    if key in _SHAPES:
        return _SHAPES[key]
    from scenic.core import shapes as sh

    k = spec["k"]
    empty = []
    if k in ("box", "cyl", "cone", "sph"):
        cls = {"box": sh.BoxShape, "cyl": sh.CylinderShape, "cone": sh.ConeShape,
               "sph": sh.SpheroidShape}[k]
        irot = spec.get("irot")
        shape = cls(initial_rotation=tuple(float(a) for a in irot)) if irot else cls()
        V = np.array(shape.mesh.vertices, dtype=float)
        F = np.array(shape.mesh.faces)
        if irot:
            # MeshShape's documented order: centre the primitive, rotate it by (yaw, pitch, roll),
            # then scale each axis to unit extent (no re-centring: a tilted cone is off-centre)
            V0 = np.array(cls().mesh.vertices, dtype=float) @ geo.rot(*irot).T
            V0 = V0 / (V0.max(axis=0) - V0.min(axis=0))
            if V0.shape != V.shape or np.abs(V0 - V).max() > 1e-6:  # (float round-off reaches 3e-9)
                raise core.HarnessError("initial_rotation: unit mesh is not the rotated, rescaled primitive")
        solid = geo.Solid.convex_from_mesh(V, F)
        if solid.parts[0].convexity_defect() > 1e-9:
            raise core.HarnessError(f"unit mesh of {k} is not convex")
    elif k == "poly":
        import trimesh

        occ = np.array(spec["occ"], dtype=bool)
        V0, F0, cells, empty = geo.polycube(occ, spec["cuts"])
        if not geo.mesh_is_closed_manifold(F0):
            raise core.HarnessError("generated polycube is not a closed manifold")
        shape = sh.MeshShape(trimesh.Trimesh(V0, F0, process=False))
        V = np.array(shape.mesh.vertices, dtype=float)
        F = np.array(shape.mesh.faces)
        # the unit mesh Scenic keeps must be the one we built (centred, unit extents)
        if V.shape != V0.shape or np.abs(V - V0).max() > 1e-9:
            raise core.HarnessError("MeshShape normalisation changed the polycube")
        bodies = geo.count_bodies(occ)
        solid = geo.Solid(cells, V, F, convex=(len(cells) == 1), bodies=bodies)
        # decomposition == mesh (ray parity against the cells)
        rs = np.random.RandomState(7)
        P = rs.uniform(-0.55, 0.55, (60, 3))
        if (geo.points_in_mesh(P, V, F) != geo.points_in_parts(P, cells)).any():
            raise core.HarnessError("polycube cells and surface mesh disagree")
    else:
        raise core.HarnessError(f"unknown shape {k}")
    if len(_SHAPES) > 200:
        _SHAPES.clear()
    _SHAPES[key] = (shape, solid, empty)
    return _SHAPES[key]


def shape_class(spec):
    if spec["k"] != "poly":
        return ("rot" + spec["k"]) if spec.get("irot") else spec["k"]
    occ = np.array(spec["occ"], dtype=bool)
    if occ.sum() == 1:
        return "poly-box"
    return "poly-multi" if geo.count_bodies(occ) > 1 else "poly-1body"


def world_solid(obj, pos, motion=None):
    shape, solid, empty = get_shape(obj["shape"])
    R = geo.pose_matrix(obj["ypr"], obj.get("parent"))
    p = np.asarray(pos, float)
    if motion:
        G = geo.rot(*motion["ypr"])
        R = G @ R
        p = G @ p + np.asarray(motion["t"], float)
    return solid.placed(obj["dims"], R, p)


def scenic_object(obj, pos, motion=None, via_sample=False):
    from scenic.core.distributions import Range
    from scenic.core.object_types import Object
    from scenic.core.vectors import Orientation, Vector

    shape, _, _ = get_shape(obj["shape"])
    p = np.asarray(pos, float)
    parent = obj.get("parent")
    if motion:
        # a common rigid motion is expressed through the parent orientation
        G = geo.rot(*motion["ypr"])
        p = G @ p + np.asarray(motion["t"], float)
        Rp = G @ (geo.rot(*parent) if parent else np.eye(3))
        parent = list(geo.euler_zxy(Rp))
    props = dict(position=Vector(*[float(x) for x in p]), yaw=float(obj["ypr"][0]),
                 pitch=float(obj["ypr"][1]), roll=float(obj["ypr"][2]),
                 width=float(obj["dims"][0]), length=float(obj["dims"][1]),
                 height=float(obj["dims"][2]), shape=shape)
    if parent:
        props["parentOrientation"] = Orientation.fromEuler(*[float(a) for a in parent])
    if via_sample:
        # a random (degenerate) position makes the object a prototype whose samples share
        # the precomputed per-shape geometry, as in scene generation
        x = float(p[0])
        props["position"] = Vector(Range(x, x), float(p[1]), float(p[2]))
        proto = Object._with(**props)
        o = proto.sample()
        if o._sampleParent is not proto:
            raise core.HarnessError("sampled twin has no _sampleParent")
        return o
    return Object._with(**props)


# --------------------------------------------------------------------------------------------
# observation of the exits taken (class histogram only)
# --------------------------------------------------------------------------------------------


class Probe:
    """Counters around fcl.collide, _containsPointExact, intersect/difference, signed_distance,
    installed from outside for the duration of one call."""

    def __init__(self):
        self.n = {}

    def hit(self, k, v=None):
        self.n[k] = self.n.get(k, 0) + 1
        if v is not None:
            self.n[k + ":" + str(v)] = self.n.get(k + ":" + str(v), 0) + 1

    def __enter__(self):
        import trimesh
        from scenic.core import regions as R

        probe = self
        self._R = R
        self._fcl = R.fcl
        real = R.fcl

        class FclProxy:
            def __getattr__(self, name):
                return getattr(real, name)

            @staticmethod
            def collide(*a, **k):
                r = real.collide(*a, **k)
                probe.hit("collide", bool(r))
                return r

            @staticmethod
            def distance(*a, **k):
                probe.hit("distance")
                return real.distance(*a, **k)

        R.fcl = FclProxy()
        MV = R.MeshVolumeRegion
        self._saved = [(MV, "_containsPointExact", MV.__dict__["_containsPointExact"]),
                       (MV, "intersect", MV.__dict__["intersect"]),
                       (MV, "difference", MV.__dict__["difference"]),
                       (trimesh.proximity.ProximityQuery, "signed_distance",
                        trimesh.proximity.ProximityQuery.__dict__["signed_distance"])]

        def wrap(orig, key):
            def f(*a, **k):
                probe.hit(key)
                return orig(*a, **k)

            return f

        for cls, name, orig in self._saved:
            setattr(cls, name, wrap(orig, name))
        return self

    def __exit__(self, *exc):
        self._R.fcl = self._fcl
        for cls, name, orig in self._saved:
            setattr(cls, name, orig)
        return False


def fcl_distance_model(specs_pos, motion):
    """What python-fcl itself answers for the two solids, built here from the unit meshes and
    the properties (scaled geometry + rigid transform, the representation Scenic uses).  Only
    used to attribute an over-estimated minimum distance to the third-party library: the
    failure is FCL's iff this independent call reproduces the reported value."""
    import fcl

    objs = []
    for spec, pos in specs_pos:
        shape, unit, _ = get_shape(spec["shape"])
        V = unit.V * np.asarray(spec["dims"], float)
        F = unit.F
        if shape.isConvex:
            faces = np.concatenate((3 * np.ones((len(F), 1), dtype=np.int64), F), axis=1)
            geom = fcl.Convex(V, len(F), faces.flatten())
        else:
            geom = fcl.BVHModel()
            geom.beginModel(num_tris_=len(F), num_vertices_=len(V))
            geom.addSubModel(V, F)
            geom.endModel()
        R = geo.pose_matrix(spec["ypr"], spec.get("parent"))
        p = np.asarray(pos, float)
        if motion:
            G = geo.rot(*motion["ypr"])
            R, p = G @ R, G @ p + np.asarray(motion["t"], float)
        objs.append(fcl.CollisionObject(geom, fcl.Transform(R, p)))
    return float(fcl.distance(objs[0], objs[1]))


def fcl_inputs_verified_and_reproduced(x, y, sx, sy, d):
    """Second, robust route of the same attribution.  FCL's early stop is chaotic in the last bits
    of its inputs (a rotation matrix built from Euler products instead of a quaternion changes
    which wrong value comes out), so an independently built call need not reproduce Scenic's
    number.  Here the inputs Scenic hands to FCL are *verified* against the oracle -- scaled
    geometry == unit mesh x dimensions, transform == (R, position) rebuilt from the properties --
    and FCL is then called directly on exactly those inputs, in the same argument order.  If that
    returns the reported value, Scenic passed correct geometry and returned FCL's answer
    unchanged: the error is the third-party library's, not minimumDistanceTo's."""
    import fcl

    try:
        objs = []
        for o, (spec, S_R, S_p) in ((x, sx), (y, sy)):
            occ = o.occupiedSpace
            geom, trans = occ._fclData
            ss = occ._scaledShape
            _, unit, _ = get_shape(spec["shape"])
            V = unit.V * np.asarray(spec["dims"], float)
            sv = np.array(ss.mesh.vertices, dtype=float)
            scale = max(1.0, float(np.abs(V).max()), float(np.abs(S_p).max()))
            if ss._fclData[0] is not geom or sv.shape != V.shape or np.abs(sv - V).max() > 1e-9 * scale:
                return False
            if np.abs(np.asarray(trans.getRotation()) - S_R).max() > 1e-9:
                return False
            if np.abs(np.asarray(trans.getTranslation()) - S_p).max() > 1e-9 * scale:
                return False
            objs.append(fcl.CollisionObject(geom, trans))
        raw = float(fcl.distance(objs[0], objs[1]))
    except Exception:
        return False
    return abs(raw - d) <= 1e-9 * max(1.0, abs(d))


def intersect_exit(probe, oA, oB, result, cdist, rsum):
    n = probe.n
    if oA._isPlanarBox and oB._isPlanarBox:
        return "planar-boxes"
    if n.get("intersect"):
        return "pass5-boolean"
    if n.get("_containsPointExact"):
        return "pass4-interior-point"
    if n.get("collide:True"):
        return "pass3-fcl-hit"
    if n.get("collide:False"):
        return "pass3-fcl-convex-miss"
    if result:
        return "pass2-inradii-overlap"
    return "pass1-spheres-apart" if cdist > rsum else "pass2-radii-apart"


# --------------------------------------------------------------------------------------------
# regions
# --------------------------------------------------------------------------------------------


class OReg:
    """Oracle model of a region: contains(S) and meets(S) are three-valued."""


class OConvex(OReg):
    def __init__(self, solid):
        self.solid = solid
        p = solid.parts[0]
        self.A, self.b = p.A, p.b

    def contains(self, S, band):
        return geo.contained_convex(self.A, self.b, S, band)[0]

    def meets(self, S, band):
        return geo.overlap_verdict(self.solid, S, band)[0]

    def anchors(self):
        return [(self.solid.centre, self.solid.V.max(axis=0) - self.solid.V.min(axis=0))]

    def extent(self):
        return self.solid.size


class OCells(OReg):
    """outer convex set minus convex holes; `cells` (occupied parts) used for meets."""

    def __init__(self, outer, holes, cells, anchors, size):
        self.outer, self.holes, self.cells, self._anchors, self._size = outer, holes, cells, anchors, size

    def contains(self, S, band):
        return geo.contained_cells(self.outer[0], self.outer[1], self.holes, S, band)[0]

    def meets(self, S, band):
        best = -math.inf
        for (A, b) in self.cells:
            for p in S.parts:
                d = p.V @ A.T - b
                clear = d.min(axis=0).max()
                if clear > 4 * band and clear > 0:
                    best = max(best, -clear / 2)
                    continue
                best = max(best, geo.inset_halfspaces(A, b, p))
        return 1 if best > band else -1 if best < -band else 0

    def anchors(self):
        return self._anchors

    def extent(self):
        return self._size


class OComp(OReg):
    def __init__(self, op, a, b):
        self.op, self.a, self.b = op, a, b

    def contains(self, S, band):
        ca = self.a.contains(S, band)
        if self.op == "inter":
            cb = self.b.contains(S, band)
            return -1 if (ca < 0 or cb < 0) else 1 if (ca > 0 and cb > 0) else 0
        mb = self.b.meets(S, band)
        return -1 if (ca < 0 or mb > 0) else 1 if (ca > 0 and mb < 0) else 0

    def meets(self, S, band):
        raise core.HarnessError("meets of a composed region is not modelled")

    def anchors(self):
        return self.a.anchors()

    def extent(self):
        return self.a.extent()


def oreg_of_object(obj, pos):
    """The solid occupied by an object, as an oracle region (for strict-nesting tests)."""
    shape, solid, empty = get_shape(obj["shape"])
    ws = world_solid(obj, pos)
    if solid.convex:
        return OConvex(ws)
    M = geo.pose_matrix(obj["ypr"], obj.get("parent")) @ np.diag(np.asarray(obj["dims"], float))
    p = np.asarray(pos, float)
    outer = geo.box_part([-0.5] * 3, [0.5] * 3).moved(M, p)
    holes = [(h.A, h.b) for h in (e.moved(M, p) for e in empty)]
    return OCells((outer.A, outer.b), holes, [(c.A, c.b) for c in ws.parts], [], ws.size)


def _prism(lo, hi):
    """H-representation of the vertical prism over the rectangle [lo, hi] (no z bounds)."""
    A = np.array([[1.0, 0, 0], [-1.0, 0, 0], [0, 1.0, 0], [0, -1.0, 0]])
    b = np.array([hi[0], -lo[0], hi[1], -lo[1]])
    return A, b


def build_region(spec):
    """(scenic Region, oracle OReg, class name)."""
    import shapely.geometry
    import shapely.ops
    from scenic.core import regions as R
    from scenic.core.vectors import Orientation, Vector

    k = spec["k"]
    if k in ("box", "sph", "mesh"):
        sspec = {"box": {"k": "box"}, "sph": {"k": "sph"}}.get(k) or spec["shape"]
        shape, solid, empty = get_shape(sspec)
        Rm = geo.rot(*spec["ypr"])
        M = Rm @ np.diag(np.asarray(spec["dims"], float))
        pos = np.asarray(spec["pos"], float)
        kw = dict(dimensions=tuple(float(d) for d in spec["dims"]),
                  position=Vector(*[float(x) for x in pos]),
                  rotation=Orientation.fromEuler(*[float(a) for a in spec["ypr"]]))
        if k == "box":
            reg = R.BoxRegion(**kw)
        elif k == "sph":
            reg = R.SpheroidRegion(**kw)
        else:
            reg = R.MeshVolumeRegion(mesh=shape.mesh.copy(), **kw)
        ws = solid.moved(M, pos)
        # the region's own mesh must be the documented transform of the unit mesh
        rv = np.array(reg.mesh.vertices, dtype=float)
        if rv.shape != ws.V.shape or np.abs(rv - ws.V).max() > 1e-7 * max(1.0, ws.size):
            raise core.HarnessError(f"region mesh of kind {k} is not R·diag(dims)·unit+pos")
        if solid.convex:
            return reg, OConvex(ws), k if k != "mesh" else "mesh-convex"
        outer = geo.box_part([-0.5] * 3, [0.5] * 3).moved(M, pos)
        holes = [(h.A, h.b) for h in (e.moved(M, pos) for e in empty)]
        cells = [(c.A, c.b) for c in ws.parts]
        anchors = [(c.centre, np.abs(c.V - c.centre).max(axis=0) * 2) for c in ws.parts]
        cls = "mesh-multibody" if (solid.bodies or 1) > 1 else "mesh-nonconvex"
        return reg, OCells((outer.A, outer.b), holes, cells, anchors, ws.size), cls
    if k in ("foot", "polygon"):
        occ = np.array(spec["occ"], dtype=bool)
        xs = np.asarray(spec["cuts"][0], float) * spec["dims"][0] + spec["pos"][0]
        ys = np.asarray(spec["cuts"][1], float) * spec["dims"][1] + spec["pos"][1]
        rects, cells, holes, anchors = [], [], [], []
        for i in range(occ.shape[0]):
            for j in range(occ.shape[1]):
                lo, hi = (xs[i], ys[j]), (xs[i + 1], ys[j + 1])
                if occ[i, j]:
                    rects.append(shapely.geometry.box(lo[0], lo[1], hi[0], hi[1]))
                    cells.append(_prism(lo, hi))
                    anchors.append((np.array([(lo[0] + hi[0]) / 2, (lo[1] + hi[1]) / 2, spec["z"]]),
                                    np.array([hi[0] - lo[0], hi[1] - lo[1], spec["zext"]])))
                else:
                    holes.append(_prism(lo, hi))
        poly = shapely.ops.unary_union(rects)
        if k == "foot":
            reg = R.PolygonalFootprintRegion(poly)
        else:
            reg = R.PolygonalRegion(polygon=poly, z=float(spec["z"]))
        outer = _prism((xs[0], ys[0]), (xs[-1], ys[-1]))
        size = math.hypot(xs[-1] - xs[0], ys[-1] - ys[0])
        cls = k + ("-holes" if any(len(g.interiors) for g in getattr(poly, "geoms", [poly])) else "")
        return reg, OCells(outer, holes, cells, anchors, size), cls
    if k in ("diff", "inter"):
        ra, oa, ca = build_region(spec["A"])
        rb, ob, cb = build_region(spec["B"])
        reg = ra.difference(rb) if k == "diff" else ra.intersect(rb)
        return reg, OComp(k, oa, ob), f"{k}({ca},{cb})->{type(reg).__name__}"
    raise core.HarnessError(f"unknown region {k}")


# --------------------------------------------------------------------------------------------
# strategies
# --------------------------------------------------------------------------------------------

_CENT = st.integers(0, 99)


def U(lo, hi):
    """Uniform reals in [lo, hi) with 1e-6 resolution, composed of three 0..99 draws.
    (Measured: Hypothesis' floats() put a third of the mass on 0 / tiny values, and bounded
    integers() wider than ~256 are size-biased -- 80 % of integers(0, 10**6) fall in the lowest
    decile -- either of which starves the generic configurations.)"""
    return st.tuples(_CENT, _CENT, _CENT).map(
        lambda t: lo + (hi - lo) * (t[0] * 10000 + t[1] * 100 + t[2]) / 1e6)


def W(options):
    """Choice from a list weighted by repetition (at most 100 entries)."""
    options = list(options)
    return st.integers(0, len(options) - 1).map(lambda k: options[k])


ANG = U(-math.pi, math.pi)
PITCH = U(-1.4, 1.4)
DIM = st.one_of(U(0.2, 3.0), U(0.2, 8.0))
SMALL_DELTA = U(math.log(3e-3), math.log(1e-1)).map(math.exp)
LARGE_DELTA = U(0.1, 0.6)


@st.composite
def cuts_1d(draw, n):
    if n == 1:
        return [0.0, 1.0]
    w = [draw(st.integers(2, 9)) for _ in range(n)]
    tot = float(sum(w))
    acc, out = 0.0, [0.0]
    for x in w[:-1]:
        acc += x
        out.append(acc / tot)
    out.append(1.0)
    return out


def _crop(occ):
    idx = np.argwhere(occ)
    lo, hi = idx.min(axis=0), idx.max(axis=0) + 1
    return occ[tuple(slice(a, b) for a, b in zip(lo, hi))]


@st.composite
def polycubes(draw, want=None):
    want = want or draw(st.sampled_from(["nonconvex", "nonconvex", "multi", "multi", "random"]))
    if want == "multi":
        # two or three groups along one axis separated by empty slabs
        ax = draw(st.integers(0, 2))
        shp = [draw(st.integers(1, 2)) for _ in range(3)]
        shp[ax] = draw(st.sampled_from([3, 3, 5]))
        occ = np.zeros(shp, bool)
        for s in range(0, shp[ax], 2):
            sl = [slice(None)] * 3
            sl[ax] = s
            sub = np.array(draw(st.lists(st.booleans(), min_size=occ[tuple(sl)].size,
                                         max_size=occ[tuple(sl)].size))).reshape(occ[tuple(sl)].shape)
            if not sub.any():
                sub.flat[0] = True
            occ[tuple(sl)] = sub
    else:
        shp = [draw(st.integers(1, 3)) for _ in range(3)]
        if want == "nonconvex" and sorted(shp)[1] == 1:
            shp[draw(st.integers(0, 2))] = 2
            shp[(shp.index(max(shp)) + 1) % 3] = max(2, shp[(shp.index(max(shp)) + 1) % 3])
        n = shp[0] * shp[1] * shp[2]
        bits = draw(st.lists(st.booleans(), min_size=n, max_size=n))
        occ = np.array(bits, bool).reshape(shp)
        if not occ.any():
            occ.flat[0] = True
        if want == "nonconvex" and occ.all():
            occ.flat[draw(st.integers(0, n - 1))] = False
            if not occ.any():
                occ[...] = True
    occ = _crop(geo.repair_cells(occ))
    cuts = [draw(cuts_1d(occ.shape[a])) for a in range(3)]
    return {"k": "poly", "occ": occ.astype(int).tolist(), "cuts": cuts}


@st.composite
def shapes(draw):
    k = draw(W(["box", "box", "box", "cyl", "cone", "sph", "poly", "poly", "poly",
                              "poly", "poly"]))
    if k == "poly":
        return draw(polycubes())
    if k != "sph" and draw(st.integers(0, 5)) == 0:
        # a primitive shape created with an initial_rotation (rotated, then rescaled to its
        # new bounding box: a rotated BoxShape is no longer a box in the object's frame)
        rot = draw(W([[math.pi / 4, 0.0, 0.0], [draw(ANG), 0.0, 0.0], [draw(ANG), draw(PITCH), draw(ANG)],
                      [math.pi / 2, 0.0, 0.0]]))
        return {"k": k, "irot": [round(a, 6) for a in rot]}
    return {"k": k}


@st.composite
def poses(draw):
    kind = draw(W(["generic", "generic", "generic", "planar", "planar", "aligned",
                                 "quarter"]))
    if kind == "generic":
        return [draw(ANG), draw(PITCH), draw(ANG)]
    if kind == "planar":
        return [draw(ANG), 0.0, 0.0]
    if kind == "aligned":
        return [0.0, 0.0, 0.0]
    q = st.sampled_from([0.0, math.pi / 2, -math.pi / 2, math.pi])
    return [draw(q), draw(st.sampled_from([0.0, math.pi / 2, -math.pi / 2])), draw(q)]


@st.composite
def objects(draw):
    o = {"shape": draw(shapes()), "dims": [draw(DIM), draw(DIM), draw(DIM)], "ypr": draw(poses())}
    if draw(st.integers(0, 4)) == 0:
        o["parent"] = [draw(ANG), draw(PITCH), draw(ANG)]
    return o


POS = st.lists(U(-40, 40), min_size=3, max_size=3)
# azimuth, sin(elevation); one direction in six lies in a coordinate plane, which for
# axis-aligned bodies gives the symmetric configurations (parallel closest edges)
DIRS = st.tuples(st.integers(0, 5).flatmap(
    lambda k: W([0.0, math.pi / 2, math.pi, -math.pi / 2]) if k == 0 else ANG), U(-1.0, 1.0)).map(list)


@st.composite
def placements(draw):
    kind = draw(W(["contact"] * 9 + ["inside"] * 4 + ["notch"] * 3 + ["free"] * 2
                                + ["far"] * 2))
    pl = {"kind": kind, "u": draw(DIRS), "sel": draw(st.integers(0, 63))}
    if kind == "contact":
        mag = draw(st.one_of(SMALL_DELTA, SMALL_DELTA, LARGE_DELTA))
        pl["delta"] = mag * draw(st.sampled_from([-1, 1, 1]))
        pl["which"] = draw(st.sampled_from(["outer", "outer", "pair"]))
    elif kind in ("inside", "notch"):
        pl["rel"] = [draw(U(0.08, 0.6)) for _ in range(3)]
        pl["off"] = draw(U(0.0, 0.6))
    elif kind == "free":
        pl["frac"] = draw(U(0.0, 1.0))
    else:
        pl["factor"] = draw(U(1.02, 2.0))
    return pl


@st.composite
def motions(draw):
    if draw(st.integers(0, 3)) != 0:
        return None
    return {"ypr": [draw(ANG), draw(PITCH), draw(ANG)],
            "t": [draw(U(-30, 30)) for _ in range(3)]}


@st.composite
def pair_cases(draw):
    A, B = draw(objects()), draw(objects())
    pl = draw(placements())
    if pl["kind"] == "notch" or (pl["kind"] == "inside" and draw(st.integers(0, 2)) > 0):
        # small body inside a part / a concavity of a non-convex or multi-body solid: the
        # configurations that the surface-collision passes cannot decide
        A["shape"] = draw(polycubes(draw(st.sampled_from(["nonconvex", "multi"]))))
    elif draw(st.integers(0, 7)) == 0:
        # both planar boxes: the 2D fast path
        for o in (A, B):
            o["shape"] = {"k": "box"}
            o["ypr"] = [o["ypr"][0], 0.0, 0.0]
            o.pop("parent", None)
        if draw(st.integers(0, 1)) == 0:
            # mostly sideways: upright boxes next to each other rather than stacked
            pl["u"] = [pl["u"][0], draw(U(-0.3, 0.3))]
        if draw(st.integers(0, 1)) == 0:
            A["shape"] = {"k": "box", "irot": [round(draw(W([math.pi / 4, draw(ANG)])), 6), 0.0, 0.0]}
    return {"mode": "pair", "A": A, "posA": draw(POS), "B": B, "place": pl,
            "twin": draw(st.integers(0, 2)) == 0, "motion": draw(motions())}


@st.composite
def grid2d(draw):
    nx, ny = draw(st.integers(1, 3)), draw(st.integers(1, 3))
    ring = draw(st.integers(0, 3)) == 0
    if ring:
        nx = ny = 3
    bits = draw(st.lists(st.booleans(), min_size=nx * ny, max_size=nx * ny))
    occ = np.array(bits, bool).reshape((nx, ny, 1))
    if ring:
        occ[...] = True
        occ[1, 1, 0] = False           # a hole
    if not occ.any():
        occ[...] = True
    occ = _crop(geo.repair_cells(occ))[:, :, 0]
    return occ.astype(int).tolist(), [draw(cuts_1d(occ.shape[0])), draw(cuts_1d(occ.shape[1]))]


@st.composite
def leaf_regions(draw, centre=None, scale=1.0, kinds=None):
    k = draw(W(kinds or ["box", "box", "sph", "meshc", "meshp", "meshp", "meshp",
                                       "foot", "foot", "polygon"]))
    pos = centre if centre is not None else draw(POS)
    big = U(2.0 * scale, 12.0 * scale)
    if k in ("box", "sph"):
        return {"k": k, "dims": [draw(big), draw(big), draw(big)], "ypr": draw(poses()), "pos": pos}
    if k == "meshc":
        return {"k": "mesh", "shape": {"k": draw(st.sampled_from(["cyl", "cone"]))},
                "dims": [draw(big), draw(big), draw(big)], "ypr": draw(poses()), "pos": pos}
    if k == "meshp":
        return {"k": "mesh", "shape": draw(polycubes(draw(st.sampled_from(["nonconvex", "nonconvex",
                                                                           "multi"])))),
                "dims": [draw(big), draw(big), draw(big)], "ypr": draw(poses()), "pos": pos}
    occ, cuts = draw(grid2d())
    dx, dy = draw(big), draw(big)
    return {"k": k, "occ": occ, "cuts": cuts, "dims": [dx, dy],
            "pos": [pos[0] - dx / 2, pos[1] - dy / 2], "z": pos[2], "zext": draw(big)}


@st.composite
def regions(draw):
    if draw(st.integers(0, 3)) != 0:
        return draw(leaf_regions())
    a = draw(leaf_regions())
    c = a["pos"] if a["k"] not in ("foot", "polygon") else \
        [a["pos"][0] + a["dims"][0] / 2, a["pos"][1] + a["dims"][1] / 2, a["z"]]
    c = [c[i] + draw(U(-3, 3)) for i in range(3)]
    op = draw(st.sampled_from(["diff", "diff", "inter"]))
    if a["k"] in ("foot", "polygon"):
        kinds = ["foot"] if a["k"] == "foot" else ["polygon"]
    else:
        kinds = ["box", "sph", "meshc", "meshp", "foot"]
    if a["k"] == "polygon":
        # planar polygons are 2D sets at their own z: only same-plane compositions are
        # modelled here (different planes are C16's subject)
        c[2] = a["z"]
    b = draw(leaf_regions(centre=c, scale=0.5 if op == "diff" else 1.0, kinds=kinds))
    return {"k": op, "A": a, "B": b}


@st.composite
def contain_cases(draw):
    B = draw(objects())
    pl = {"u": draw(DIRS), "sel": draw(st.integers(0, 63)),
          "rel": [draw(U(0.05, 0.6)) for _ in range(3)],
          "kind": draw(W(["wall"] * 5 + ["deep"] * 2 + ["free"] * 2 + ["bridge"] * 2 + ["far"]))}
    mag = draw(st.one_of(SMALL_DELTA, SMALL_DELTA, LARGE_DELTA))
    pl["delta"] = mag * draw(st.sampled_from([-1, -1, 1]))
    pl["frac"] = draw(U(0.0, 1.0))
    return {"mode": "contain", "R": draw(regions()), "B": B, "place": pl,
            "twin": draw(st.integers(0, 3)) == 0}


def cases():
    return st.integers(0, 9).flatmap(lambda k: pair_cases() if k < 6 else contain_cases())


# --------------------------------------------------------------------------------------------
# constructive placement
# --------------------------------------------------------------------------------------------


def unit_dir(u):
    az, se = u
    ce = math.sqrt(max(0.0, 1 - se * se))
    return np.array([ce * math.cos(az), ce * math.sin(az), se])


def place_pair(case):
    """World position of B.  Returns (posB, effective B spec)."""
    A, B, pl = case["A"], dict(case["B"]), case["place"]
    posA = np.asarray(case["posA"], float)
    SA = world_solid(A, posA)
    u = unit_dir(pl["u"])
    kind = pl["kind"]
    _, unitA, emptyA = get_shape(A["shape"])
    if kind == "notch" and not emptyA:
        kind = "inside"
    if kind in ("inside", "notch"):
        RA = geo.pose_matrix(A["ypr"], A.get("parent"))
        M = RA @ np.diag(np.asarray(A["dims"], float))
        cells = unitA.parts if kind == "inside" else emptyA
        c = cells[pl["sel"] % len(cells)]
        ext = (c.V.max(axis=0) - c.V.min(axis=0)) * np.asarray(A["dims"], float)
        B["dims"] = [max(0.05, float(r * e)) for r, e in zip(pl["rel"], ext)]
        anchor = M @ c.centre + posA
        posB = anchor + u * pl["off"] * float(ext.min()) / 2
        return posB, B, kind
    SB0 = world_solid(B, posA)
    size = min(SA.size, SB0.size)
    if kind == "far":
        s = (SA.circumradius_about(posA) + SB0.circumradius_about(posA)) * pl["factor"]
        return posA + s * u, B, kind
    # start with one part of B centred on one part of A (so that the line of motion certainly
    # passes through a contact), then slide along u
    p0 = SA.parts[pl["sel"] % len(SA.parts)]
    q0 = SB0.parts[(pl["sel"] // 8) % len(SB0.parts)]
    base = posA + (p0.centre - q0.centre)
    SB0 = world_solid(B, base)
    ss = []
    for p in SA.parts:
        for q in SB0.parts:
            s = geo.contact_s(p, q, u)
            if s is not None:
                ss.append(s)
    if not ss:
        raise core.HarnessError("no contact along the line through two coincident part centres")
    if kind == "free":
        return base + pl["frac"] * max(ss) * u, B, kind
    s0 = max(ss) if pl["which"] == "outer" else sorted(ss)[pl["sel"] % len(ss)]
    return base + (s0 + pl["delta"] * size) * u, B, kind


# --------------------------------------------------------------------------------------------
# judge
# --------------------------------------------------------------------------------------------

_state = {"rng": None}


def _reseed(case):
    s = int(core.digest(case), 16) % (2 ** 31)
    random.seed(s)
    np.random.seed(s)


def check_mesh(out, tag, o, S):
    """Scenic's occupiedSpace mesh against the solid rebuilt from the properties."""
    v = np.array(o.occupiedSpace.mesh.vertices, dtype=float)
    if v.shape != S.V.shape or np.abs(v - S.V).max() > 1e-7 * max(1.0, S.size + np.abs(S.V).max()):
        out.fail(f"pose:{tag}|occupiedSpace-differs-from-properties",
                 observed=float(np.abs(v - S.V).max()) if v.shape == S.V.shape else "shape")
        return False
    return True


def judge_pair(case, out):
    from scenic.syntax import veneer

    A = case["A"]
    posA = case["posA"]
    posB, B, kind = place_pair(case)
    posB = [float(x) for x in posB]
    SA, SB = world_solid(A, posA), world_solid(B, posB)
    size = min(SA.size, SB.size)
    band = max(BAND_REL * size, BAND_ABS)
    verdict, depth = geo.overlap_verdict(SA, SB, band)
    cA, cB = shape_class(A["shape"]), shape_class(B["shape"])
    out.cls("pair", "place:" + kind, "shapes:" + "x".join(sorted([cA, cB])))
    # signature cell: convexity classes only (one root cause must not fan out over shapes)
    coarse = {"poly-1body": "nonconvex", "poly-multi": "multibody", "rotbox": "rotated-boxshape"}
    cell = "x".join(sorted([coarse.get(cA, "convex"), coarse.get(cB, "convex")]))
    cdist = float(np.linalg.norm(np.asarray(posA) - np.asarray(posB)))
    rsum = SA.circumradius_about(posA) + SB.circumradius_about(posB)
    truth = {1: "overlap", -1: "disjoint", 0: "near-boundary"}[verdict]
    out.cls("truth:" + truth)
    if verdict > 0 and depth < 0.02 * size:
        out.cls("truth:shallow-overlap")
    gap = None
    if verdict > 0:
        nested = (oreg_of_object(A, posA).contains(SB, band) > 0
                  or oreg_of_object(B, posB).contains(SA, band) > 0)
        if nested:
            out.cls("truth:nested-no-surface-contact")
    if verdict < 0:
        gap = geo.solid_distance(SA, SB)
        if gap < 0.05 * size:
            out.cls("truth:small-gap")
    out.nontrivial = verdict != 0 and cdist < rsum

    variants = [("", None, False)]
    if case.get("twin"):
        variants.append((":sampled", None, True))
    if case.get("motion"):
        variants.append((":moved", case["motion"], False))
    base_syms = set()

    def fail(op, sym, suffix, **detail):
        """Record a failure; a variant (sampled twin / moved) only reports symptoms the base
        configuration did not show (same root cause -> same signature)."""
        if suffix and (op, sym) in base_syms:
            return
        if not suffix:
            base_syms.add((op, sym))
        out.fail(f"{op}{suffix}|{sym}", **detail)

    for suffix, motion, via in variants:
        try:
            oA = scenic_object(A, posA, motion, via)
            oB = scenic_object(B, posB, motion, via)
        except Exception as e:  # construction of a valid object must not fail
            out.fail(f"construct:{cell}{suffix}|" + core.exc_signature(e), error=repr(e))
            continue
        okA = check_mesh(out, cA + suffix, oA, world_solid(A, posA, motion))
        okB = check_mesh(out, cB + suffix, oB, world_solid(B, posB, motion))
        if not (okA and okB):
            continue
        res = {}
        for name, x, y in (("AB", oA, oB), ("BA", oB, oA)):
            try:
                with Probe() as pr:
                    r = x.intersects(y)
                ex = intersect_exit(pr, x, y, r, cdist, rsum)
                if not suffix:
                    out.cls("exit:" + ex)
                res[name] = (bool(r), ex)
            except Exception as e:
                out.fail(f"intersects:{cell}{suffix}|" + core.exc_signature(e), error=repr(e))
        try:
            r = bool(veneer.Intersects(oA, oB))
            if "AB" in res and r != res["AB"][0]:
                # the operator must be the method; reported only when it differs from it
                res["op"] = (r, "operator")
        except Exception as e:
            out.fail(f"intersects-op:{cell}{suffix}|" + core.exc_signature(e), error=repr(e))
        if verdict != 0:
            for name, (r, ex) in res.items():
                if r != (verdict > 0):
                    sym = "says-disjoint-but-overlap" if verdict > 0 else "says-overlap-but-disjoint"
                    fail(f"intersects:{cell}", f"{sym}@{ex}", suffix, order=name,
                             expected=truth, depth_or_gap=depth if verdict > 0 else gap,
                             size=size, posB=posB, dimsB=B["dims"])
        elif len({r for r, _ in res.values()}) > 1 and not suffix:
            out.cls("near-boundary:orders-differ")
        # minimum distance
        for name, x, y in (("AB", oA, oB), ("BA", oB, oA)):
            try:
                with Probe():
                    d = float(x.minimumDistanceTo(y))
            except Exception as e:
                out.fail(f"mindist:{cell}{suffix}|" + core.exc_signature(e), error=repr(e))
                continue
            if verdict < 0:
                if abs(d - gap) > 1e-5 * size + DIST_ABS and not suffix:
                    out.cls("mindist:inexact")
                if abs(d - gap) > DIST_REL * size + DIST_ABS:
                    sym = "too-large" if d > gap else "too-small"
                    if d <= 0:
                        sym = "nonpositive-but-disjoint"
                    if sym == "too-large":
                        # known third-party finding: python-fcl over-estimates.  Attributed to
                        # it only if FCL alone, called from here, returns the same value.
                        pair = [(A, posA), (B, posB)] if name == "AB" else [(B, posB), (A, posA)]
                        try:
                            model = fcl_distance_model(pair, motion)
                        except Exception:
                            model = None
                        if model is None or abs(model - d) > 1e-7 * max(1.0, abs(d)):
                            def rp(spec, pos):
                                R = geo.pose_matrix(spec["ypr"], spec.get("parent"))
                                q = np.asarray(pos, float)
                                if motion:
                                    G = geo.rot(*motion["ypr"])
                                    R, q = G @ R, G @ q + np.asarray(motion["t"], float)
                                return (spec, R, q)

                            sA, sB = rp(A, posA), rp(B, posB)
                            ok = fcl_inputs_verified_and_reproduced(
                                x, y, *((sA, sB) if name == "AB" else (sB, sA)), d)
                            if not ok:
                                sym = "too-large-beyond-fcl"
                    fail(f"mindist:{cell}", sym, suffix, order=name, expected=gap, observed=d,
                             size=size, posB=posB, dimsB=B["dims"])
            elif verdict > 0:
                if d > 1e-9:
                    conv = "convex" if (SA.convex and SB.convex) else "nonconvex"
                    fail(f"mindist:{conv}", "positive-but-overlap", suffix, order=name,
                             observed=d, depth=depth, size=size, posB=posB, dimsB=B["dims"])


def contains_exit(probe, reg, result):
    n = probe.n
    name = type(reg).__name__
    if "Mesh" not in name and name not in ("BoxRegion", "SpheroidRegion"):
        return name + (":accept" if result else ":reject")
    if n.get("difference"):
        return "pass5-boolean"
    sd = n.get("signed_distance", 0)
    if reg.isConvex:
        return {0: "pass1-bbox-reject", 1: "pass2-convex-bbox-corners"}.get(sd, "pass2-convex-vertices")
    if sd == 0:
        return "pass1-bbox-reject"
    return "pass3-inner-sphere-accept" if result else "pass3/4-reject"


def judge_contain(case, out):
    B = dict(case["B"])
    pl = case["place"]
    try:
        reg, oreg, rcls = build_region(case["R"])
    except core.HarnessError:
        raise
    except Exception as e:
        # composing two valid regions must not fail
        out.fail(f"region:{case['R']['k']}|" + core.exc_signature(e), error=repr(e))
        return
    out.cls("contain", "region:" + rcls.split("->")[0].split("(")[0], "regioncls:" + rcls)
    # signature cell: leaf kind, or operation -> resulting class for composed regions
    rsig = rcls if "->" not in rcls else rcls.split("(")[0] + "->" + rcls.split("->")[1]
    anchors = oreg.anchors()
    centre, ext = anchors[pl["sel"] % len(anchors)]
    B["dims"] = [max(0.05, float(r * e)) for r, e in zip(pl["rel"], ext)]
    u = unit_dir(pl["u"])
    if pl["kind"] == "bridge":
        # a long thin upright box reaching from one occupied cell to another one (possibly
        # across a notch, a hole or the gap between two bodies)
        i1 = pl["sel"] % len(anchors)
        i2 = (pl["sel"] // 8) % len(anchors)
        i2 = i2 if i2 != i1 else (i1 + 1) % len(anchors)
        (c1, e1), (c2, e2) = anchors[i1], anchors[i2]
        dxy = (np.asarray(c2) - np.asarray(c1))[:2]
        if i1 == i2 or np.linalg.norm(dxy) < 1e-6:
            pl = dict(pl, kind="free")
        else:
            L = float(np.linalg.norm(dxy))
            thin = min(float(e1[0]), float(e1[1]), float(e2[0]), float(e2[1]))
            B["shape"] = {"k": "box"}
            B["ypr"] = [math.atan2(dxy[1], dxy[0]), 0.0, 0.0]
            B.pop("parent", None)
            B["dims"] = [L * (0.5 + 0.7 * pl["frac"]), max(0.05, pl["rel"][1] * thin * 0.6),
                         max(0.05, pl["rel"][2] * min(float(e1[2]), float(e2[2])))]
            centre = (np.asarray(c1) + np.asarray(c2)) / 2
    if pl["kind"] == "deep":
        B["dims"] = [max(0.05, d * 0.4) for d in B["dims"]]
    S0 = world_solid(B, centre)
    if pl["kind"] in ("wall", "deep"):
        # start from a contained position: shrink the object until it fits at the anchor
        for _ in range(4):
            if oreg.contains(S0, max(BAND_REL * S0.size, BAND_ABS)) > 0:
                break
            B["dims"] = [max(0.05, d * 0.5) for d in B["dims"]]
            S0 = world_solid(B, centre)
    size = S0.size
    band = max(BAND_REL * size, BAND_ABS)
    smax = oreg.extent() * 1.5 + size
    if pl["kind"] in ("deep", "bridge"):
        s = 0.0
    elif pl["kind"] == "far":
        s = smax * (1 + pl["frac"])
    elif pl["kind"] == "free":
        s = pl["frac"] * oreg.extent() * 0.6
    else:
        lo, hi = 0.0, smax
        if oreg.contains(S0, band) < 0:
            hi = 0.0
        else:
            for _ in range(16):
                mid = (lo + hi) / 2
                if oreg.contains(S0.moved(np.eye(3), mid * u), band) >= 0:
                    lo = mid
                else:
                    hi = mid
        s = max(0.0, lo + pl["delta"] * size) if lo > 0 else abs(pl["delta"]) * size * 0.5
    pos = [float(x) for x in (np.asarray(centre) + s * u)]
    S = world_solid(B, pos)
    verdict = oreg.contains(S, band)
    truth = {1: "contained", -1: "not-contained", 0: "near-boundary"}[verdict]
    cB = shape_class(B["shape"])
    out.cls("truth:" + truth, "cplace:" + pl["kind"], "objshape:" + cB)
    out.nontrivial = verdict != 0 and pl["kind"] != "far"
    variants = [("", False)] + ([(":sampled", True)] if case.get("twin") else [])
    base_failed = False
    for suffix, via in variants:
        try:
            o = scenic_object(B, pos, None, via)
        except Exception as e:
            out.fail(f"construct:{cB}{suffix}|" + core.exc_signature(e), error=repr(e))
            continue
        if not check_mesh(out, cB + suffix, o, S):
            continue
        try:
            with Probe() as pr:
                r = bool(reg.containsObject(o))
            ex = contains_exit(pr, reg, r)
            if not suffix:
                out.cls("cexit:" + ex)
        except Exception as e:
            if not (suffix and base_failed):
                out.fail(f"contains:{rsig}{suffix}|" + core.exc_signature(e), error=repr(e))
            base_failed = True
            continue
        if verdict != 0 and r != (verdict > 0):
            sym = "says-outside-but-contained" if verdict > 0 else "says-contained-but-sticks-out"
            if not (suffix and base_failed):
                ocls = "rotated-boxshape" if cB == "rotbox" else ("convex" if S.convex else "nonconvex")
                out.fail(f"contains:{rsig}:{ocls}-object{suffix}|{sym}@{ex}",
                         expected=truth, pos=pos, dims=B["dims"], size=size, region=rcls)
            base_failed = True


def judge(case):
    geo.selftest()
    out = core.Outcome()
    _reseed(case)
    try:
        if case["mode"] == "pair":
            judge_pair(case, out)
        else:
            judge_contain(case, out)
    except geo.Unsolved:
        out = core.Outcome(inconclusive=True, classes=["oracle-lp-unsolved"])
    return out


def replay(case):
    return judge(case)


# --------------------------------------------------------------------------------------------
# runner interface
# --------------------------------------------------------------------------------------------

REQUIRED_EXITS = ["exit:planar-boxes", "exit:pass1-spheres-apart", "exit:pass2-inradii-overlap",
                  "exit:pass3-fcl-hit", "exit:pass3-fcl-convex-miss", "exit:pass4-interior-point",
                  "exit:pass5-boolean"]


def plan(tier, seed, jobs):
    n = 300 if tier == "quick" else 8000
    return [{"seed": seed * 1000 + k, "n": n} for k in range(jobs)]


def run_shard(shard, tier):
    geo.selftest()
    col = core.Collector(PROP, shard["id"])
    core.hyp_search(cases(), judge, shard["n"], shard["seed"], col,
                    known_sigs=shard.get("known_sigs", ()), case_timeout=120,
                    shrink_s=20 if tier == "quick" else 240)
    return col.result()


def post_merge(classes, evaluations, tier):
    """Coverage guard over the whole run (a single Hypothesis shard can legitimately miss one
    exit for a given seed): every exit of the multi-pass procedures must have been reached."""
    if evaluations >= 1000:
        missing = [e for e in REQUIRED_EXITS if classes.get(e, 0) < 1]
        if missing:
            return f"exit classes never reached in the whole run: {missing}"
    return None
