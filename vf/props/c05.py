"""C05 — expressions over random values evaluate as in plain Python on the samples.

A case is a straight-line program in three-address form: every statement binds one node (a
built-in distribution, or one operator / attribute / index / call applied to earlier nodes and
constants) to a Python variable *and* to a `param`, so a generated scene exposes the sampled
value of every node.  The oracle re-applies each node's operation, in plain Python, to the
sampled values of its operands (helpers shared through vf.c05_lib) and demands equality.
A second part of the program is a class whose defaults refer to `self.` properties (chains of
dependent defaults, distributions with lazily evaluated arguments, keyword operands); every
default must equal its Python evaluation at the object's final property values.
Finally supportInterval(node) must contain every sampled value.
"""

from __future__ import annotations

import math
import random
import warnings

import numpy as np
from hypothesis import strategies as st

from vf import c05_lib as L
from vf import core

PROP = "C05"
NEEDS_PARSER = True
FLOOR = 0.50
RULE = ("Hypothesis-generated straight-line programs of 6-16 typed nodes over all built-in "
        "distributions (Range, DiscreteRange, Normal, TruncatedNormal, Uniform, Discrete, with "
        "constant or random parameters), scalars / vectors / orientations / tuples / lists / "
        "dicts / namedtuples / strings / plain objects / random callables; forward and reverse "
        "operators, identity operands, lifted built-ins, user functions with keyword and starred "
        "arguments, attribute / property / method access, indexing and slicing with random "
        "indices; plus a class with 3-7 `self.`-dependent defaults (degenerate distributions such "
        "as Range(self.a, self.a) make lazily evaluated arguments exactly checkable), 0-2 "
        "overriding `with` specifiers; 8 scenes per program.  Non-trivial = some node at depth >= 3 "
        "over >= 2 distinct random leaves, or a lazily evaluated default; distinct = SHA-1 of the IR.")
ASSUMPTIONS = [
    "the sampled value of a node is what Scene.params holds for the param bound to it",
    "plain Python applied to sampled operands (same helper functions, same Vector/Orientation "
    "methods on concrete values) defines the expected value; numbers are compared by value "
    "(NaN-safe), floats exactly, containers by type and elements, orientations up to 1e-12",
    "operand domains exclude Python-level errors (division by zero, bad index): such programs "
    "are not generated; a node whose plain-Python evaluation raises is discarded",
    "Range(v, v), Uniform(v, v), Normal(v, 0) and DiscreteRange(k, k) return exactly v / k",
]

# --------------------------------------------------------------------------------------------
# operation table
#   args: list of type tags; "K..." = literal constant drawn by the generator
#   txt:  Scenic/Python source template;  py: plain-Python evaluation on concrete operands
# --------------------------------------------------------------------------------------------

HEADER = '''from vf.c05_lib import *
vf = VectorField("vf", lambda p: 0.01 * p.x + 0.02 * p.y)
IDENT = Orientation.fromEuler(0, 0, 0)
'''


def _vf(v):
    from scenic.core.vectors import Orientation

    return Orientation._fromHeading(0.01 * v.x + 0.02 * v.y)


def _V(*a):
    from scenic.core.vectors import Vector

    return Vector(*a)


def _O(*a):
    from scenic.core.vectors import Orientation

    return Orientation._fromEuler(*a)


def _ident():
    from scenic.core.vectors import Orientation

    return Orientation._fromEuler(0, 0, 0)


def _c(v):
    """Coordinates of a Vector or of a tuple/list used as one."""
    return tuple(v.coordinates) if hasattr(v, "coordinates") else tuple(v)


def _vmap(f, *vs):
    """Vector built coordinate-wise (only the Vector constructor is used, no Vector method)."""
    return _V(*[f(*xs) for xs in zip(*[_c(v) for v in vs])])


def _cross(a, b):
    (ax, ay, az), (bx, by, bz) = _c(a), _c(b)
    return _V(ay * bz - az * by, az * bx - ax * bz, ax * by - ay * bx)


def _rot(a, t):
    x, y, z = _c(a)
    return _V(math.cos(t) * x - math.sin(t) * y, math.sin(t) * x + math.cos(t) * y, z)


def _wrap(a):
    while a > math.pi:
        a -= 2 * math.pi
    while a < -math.pi:
        a += 2 * math.pi
    return a


OPS = {}


def op(name, args, res, txt, py, **kw):
    OPS[name] = dict(name=name, args=args, res=res, txt=txt, py=py, **kw)


# ---- leaves (constant parameters) ------------------------------------------------------------
op("range", ["Klo", "Kspan"], ["num"], "Range({0}, {0} + {1})", None, leaf=True)
op("range_rev", ["Klo", "Kspan"], ["num"], "Range({0} + {1}, {0})", None, leaf=True)
op("range_pos", ["Kposlo", "Kspan"], ["num", "pos"], "Range({0}, {0} + {1})", None, leaf=True)
op("drange", ["Kint", "Kcount"], ["num", "int"], "DiscreteRange({0}, {0} + {1})", None, leaf=True)
op("drange_pos", ["Kposint", "Kcount"], ["num", "int", "pos"], "DiscreteRange({0}, {0} + {1})",
   None, leaf=True)
op("drange_idx", [], ["num", "int", "idx"], "DiscreteRange(0, 2)", None, leaf=True)
op("normal", ["Klo", "Kposlo"], ["num"], "Normal({0}, {1})", None, leaf=True)
op("tnormal", ["Klo", "Kposlo", "Kspan"], ["num"],
   "TruncatedNormal({0}, {1}, {0} - {2}, {0} + {2})", None, leaf=True)
op("uniform_num", ["Knum", "Knum", "Knum"], ["num"], "Uniform({0}, {1}, {2})", None, leaf=True)
op("uniform_int", ["Kint", "Kint"], ["num", "int"], "Uniform({0}, {1})", None, leaf=True)
op("uniform_idx", [], ["num", "int", "idx"], "Uniform(0, 1, 2)", None, leaf=True)
op("discrete", ["Knum", "Knum", "Kweight", "Kweight"], ["num"],
   "Discrete({{{0}: {2}, {1} + 0.5: {3}}})", None, leaf=True)
op("uniform_vec", ["Knum", "Knum", "Knum", "Knum"], ["vec", "rvec"],
   "Uniform(Vector({0}, {1}, 1), Vector({2}, {3}, -2))", None, leaf=True)
op("uniform_ori", ["Knum", "Knum"], ["ori"],
   "Uniform(Orientation.fromEuler({0}, 0.2, 0.1), Orientation.fromEuler({1}, -0.3, 0.4))", None,
   leaf=True)
op("uniform_tup", [], ["rtup"], "Uniform((1, 2, 3), (4, 5, 6), (7.5, 8, 9))", None, leaf=True)
op("uniform_list", [], ["rlist"], "Uniform([1, 2], [3, 4, 5], [6])", None, leaf=True)
op("uniform_dict", [], ["rdict"], "Uniform({{'a': 1, 'b': 2}}, {{'a': 3.5, 'b': 5}})", None,
   leaf=True)
op("uniform_nt", [], ["rnt"], "Uniform(Pair(1, 2), Pair(3, 4.5))", None, leaf=True)
op("uniform_str", [], ["str", "nestr"], "Uniform('ab', 'cde', 'f')", None, leaf=True)
op("uniform_key", [], ["key"], "Uniform('a', 'b')", None, leaf=True)
op("uniform_obj", [], ["obj"], "Uniform(BOXES[0], BOXES[1], BOXES[2])", None, leaf=True)
op("uniform_fn", [], ["fn"], "Uniform(g_double, g_square)", None, leaf=True)
# ---- leaves with random parameters -------------------------------------------------------------
op("range_dep", ["num", "Kspan"], ["num"], "Range({0}, {0} + {1})", None, leaf=True)
op("drange_dep", ["int", "Kcount"], ["num", "int"], "DiscreteRange({0}, {0} + {1})", None, leaf=True)
op("normal_dep", ["num", "pos"], ["num"], "Normal({0}, {1})", None, leaf=True)
op("uniform_dep", ["num", "num"], ["num"], "Uniform({0}, {1})", None, leaf=True)
# ---- scalar operators ----------------------------------------------------------------------------
for sym, name in (("+", "add"), ("-", "sub"), ("*", "mul")):
    op(name, ["num", "num"], ["num"], "({0} " + sym + " {1})",
       {"+": lambda a, b: a + b, "-": lambda a, b: a - b, "*": lambda a, b: a * b}[sym])
    op(name + "_k", ["num", "Knum"], ["num"], "({0} " + sym + " {1})",
       {"+": lambda a, b: a + b, "-": lambda a, b: a - b, "*": lambda a, b: a * b}[sym])
    op("r" + name, ["Knum", "num"], ["num"], "({0} " + sym + " {1})",
       {"+": lambda a, b: a + b, "-": lambda a, b: a - b, "*": lambda a, b: a * b}[sym])
op("div", ["num", "pos"], ["num"], "({0} / {1})", lambda a, b: a / b)
op("div_k", ["num", "Kpos"], ["num"], "({0} / {1})", lambda a, b: a / b)
op("rdiv", ["Knum", "pos"], ["num"], "({0} / {1})", lambda a, b: a / b)
op("floordiv", ["num", "pos"], ["num"], "({0} // {1})", lambda a, b: a // b)
op("floordiv_k", ["num", "Kpos"], ["num"], "({0} // {1})", lambda a, b: a // b)
op("rfloordiv", ["Knum", "pos"], ["num"], "({0} // {1})", lambda a, b: a // b)
op("mod", ["num", "pos"], ["num"], "({0} % {1})", lambda a, b: a % b)
op("mod_k", ["num", "Kpos"], ["num"], "({0} % {1})", lambda a, b: a % b)
op("rmod", ["Knum", "pos"], ["num"], "({0} % {1})", lambda a, b: a % b)
op("divmod", ["num", "pos"], ["rtup2"], "divmod({0}, {1})", lambda a, b: divmod(a, b))
op("rdivmod", ["Knum", "pos"], ["rtup2"], "divmod({0}, {1})", lambda a, b: divmod(a, b))
op("pow_k", ["pos", "Ksmallint"], ["num"], "({0} ** {1})", lambda a, b: a ** b)
op("pow", ["pos", "idx"], ["num"], "({0} ** {1})", lambda a, b: a ** b)
op("rpow", ["Kpos", "num"], ["num"], "({0} ** ({1} / 8))", lambda a, b: a ** (b / 8))
op("pow3", ["int"], ["num", "int"], "pow({0}, 2, 5)", lambda a: pow(a, 2, 5))
op("ori_kw", ["num"], ["ori"], "Orientation.fromEuler(0.25, 0.5, roll={0})", lambda a: _O(0.25, 0.5, a))
op("round_kw", ["num"], ["num", "int"], "round(number={0})", lambda a: round(number=a))
op("round_nd_kw", ["idx"], ["num"], "round(2.34567, ndigits={0})", lambda i: round(2.34567, ndigits=i))
op("str_list", ["num", "num"], ["str"], "str([{0}, {1}])[0]", lambda a, b: "[")
op("neg", ["num"], ["num"], "(-{0})", lambda a: -a)
op("upos", ["num"], ["num"], "(+{0})", lambda a: +a)
op("abs", ["num"], ["num"], "abs({0})", lambda a: abs(a))
op("round", ["num"], ["num", "int"], "round({0})", lambda a: round(a))
op("round2", ["num"], ["num"], "round({0}, 2)", lambda a: round(a, 2))
op("int", ["num"], ["num", "int"], "int({0})", lambda a: int(a))
op("float", ["num"], ["num"], "float({0})", lambda a: float(a))
op("str_of", ["num"], ["str"], "str({0})", lambda a: str(a))
op("sin", ["num"], ["num"], "sin({0})", lambda a: math.sin(a))
op("cos", ["num"], ["num"], "cos({0})", lambda a: math.cos(a))
op("hypot", ["num", "num"], ["num"], "hypot({0}, {1})", lambda a, b: math.hypot(a, b))
op("hypot_k", ["num", "Knum"], ["num"], "hypot({0}, {1})", lambda a, b: math.hypot(a, b))
op("max", ["num", "num"], ["num"], "max({0}, {1})", lambda a, b: max(a, b))
op("min", ["num", "num"], ["num"], "min({0}, {1})", lambda a, b: min(a, b))
op("max3", ["num", "Knum", "num"], ["num"], "max({0}, {1}, {2})", lambda a, b, c: max(a, b, c))
op("min_key", ["num", "num"], ["num"], "min({0}, {1}, key=abs)", lambda a, b: min(a, b, key=abs))
op("max_key", ["num", "num"], ["num"], "max({0}, {1}, key=abs)", lambda a, b: max(a, b, key=abs))
# ---- identities ------------------------------------------------------------------------------
for nm, txt, fn in (
        ("add0", "({0} + 0)", lambda a: a + 0), ("radd0", "(0 + {0})", lambda a: 0 + a),
        ("add0f", "({0} + 0.0)", lambda a: a + 0.0), ("sub0", "({0} - 0)", lambda a: a - 0),
        ("mul1", "({0} * 1)", lambda a: a * 1), ("rmul1", "(1 * {0})", lambda a: 1 * a),
        ("mul1f", "({0} * 1.0)", lambda a: a * 1.0), ("div1", "({0} / 1)", lambda a: a / 1),
        ("floordiv1", "({0} // 1)", lambda a: a // 1), ("floordiv1f", "({0} // 1.0)", lambda a: a // 1.0),
        ("pow1", "({0} ** 1)", lambda a: a ** 1), ("mul0", "({0} * 0)", lambda a: a * 0),
        ("rsub0", "(0 - {0})", lambda a: 0 - a), ("mod1", "({0} % 1)", lambda a: a % 1)):
    op(nm, ["num"], ["num"], txt, fn, identity=True)
# ---- user functions: positional, keyword, starred arguments ---------------------------------
op("f_lin", ["num", "num"], ["num"], "f_lin({0}, {1})", lambda a, b: L.f_lin(a, b))
op("f_kw", ["num", "num", "num"], ["num"], "f_kw({0}, scale={1}, shift={2})",
   lambda a, b, c: L.f_kw(a, scale=b, shift=c))
op("f_kw1", ["num", "num"], ["num"], "f_kw({0}, shift={1})", lambda a, b: L.f_kw(a, shift=b))
op("f_pair", ["num"], ["ptup2"], "f_pair({0})", lambda a: L.f_pair(a))
op("f_sum_star_r", ["num", "rtup"], ["num"], "f_sum({0}, *{1})", lambda a, t: L.f_sum(a, *t))
op("f_sum_star_l", ["num", "rlist"], ["num"], "f_sum({0}, *{1})", lambda a, t: L.f_sum(a, *t))
op("f_sum_star_p", ["num", "ptup3"], ["num"], "f_sum({0}, *{1})", lambda a, t: L.f_sum(a, *t))
op("f_mix_star", ["num", "rtup", "num"], ["num"], "f_mix({0}, *{1}, k={2})",
   lambda a, t, k: L.f_mix(a, *t, k=k))
op("uniform_star", ["rtup"], ["num"], "Uniform(*{0})", None, leaf=True, member_of=0)
op("uniform_star_l", ["rlist"], ["num"], "Uniform(*{0})", None, leaf=True, member_of=0)
op("uniform_star_mix", ["num", "rlist"], ["num"], "Uniform({0}, *{1})", None, leaf=True,
   member_of_mix=True)
# ---- vectors ------------------------------------------------------------------------------------
op("vector", ["num", "num", "num"], ["vec"], "Vector({0}, {1}, {2})", lambda a, b, c: _V(a, b, c))
op("vadd", ["vec", "vec"], ["vec"], "({0} + {1})", lambda a, b: _vmap(lambda x, y: x + y, a, b),
   approx=True)
op("vsub", ["vec", "vec"], ["vec"], "({0} - {1})", lambda a, b: _vmap(lambda x, y: x - y, a, b),
   approx=True)
op("vadd_t", ["vec", "Knum", "Knum"], ["vec"], "({0} + ({1}, {2}, 3))",
   lambda a, b, c: _vmap(lambda x, y: x + y, a, (b, c, 3)), approx=True)
op("vradd_t", ["vec", "Knum"], ["vec"], "(({1}, 2, 3) + {0})",
   lambda a, b: _vmap(lambda x, y: x + y, (b, 2, 3), a), approx=True)
op("vrsub_t", ["vec", "Knum"], ["vec"], "(({1}, 2, 3) - {0})",
   lambda a, b: _vmap(lambda x, y: x - y, (b, 2, 3), a), approx=True)
op("vrsub0", ["vec"], ["vec"], "((0, 0, 0) - {0})", lambda a: _vmap(lambda x: 0 - x, a),
   identity=True, approx=True)
op("vradd0", ["vec"], ["vec"], "((0, 0, 0) + {0})", lambda a: _vmap(lambda x: 0 + x, a),
   identity=True, approx=True)
op("vadd0", ["vec"], ["vec"], "({0} + (0, 0, 0))", lambda a: _vmap(lambda x: x + 0, a),
   identity=True, approx=True)
op("vsub0", ["vec"], ["vec"], "({0} - Vector(0, 0, 0))", lambda a: _vmap(lambda x: x - 0, a),
   identity=True, approx=True)
op("vmul", ["vec", "num"], ["vec"], "({0} * {1})", lambda a, b: _vmap(lambda x: x * b, a), approx=True)
# (result not reused: a numpy-scalar sample times a Vector is an ndarray in plain Python too)
op("vrmul", ["num", "vec"], ["vecres"], "({0} * {1})", lambda a, b: _vmap(lambda x: x * a, b), approx=True)
op("vdiv", ["vec", "pos"], ["vec"], "({0} / {1})", lambda a, b: _vmap(lambda x: x / b, a), approx=True)
op("vx", ["vec"], ["num"], "{0}.x", lambda a: _c(a)[0])
op("vz", ["vec"], ["num"], "{0}.z", lambda a: _c(a)[2])
op("vidx", ["vec", "Kidx"], ["num"], "{0}[{1}]", lambda a, i: _c(a)[i])
# (a Vector with random coordinates is a plain sequence: a random index needs a random vector)
op("rvidx", ["rvec", "idx"], ["num"], "{0}[{1}]", lambda a, i: _c(a)[i])
op("vnorm", ["vec"], ["num"], "{0}.norm()", lambda a: math.hypot(*_c(a)), approx=True)
op("vdist", ["vec", "vec"], ["num"], "{0}.distanceTo({1})",
   lambda a, b: math.hypot(*[y - x for x, y in zip(_c(a), _c(b))]), approx=True)
op("vangle", ["vec", "vec"], ["num"], "{0}.angleTo({1})",
   lambda a, b: _wrap(math.atan2(_c(b)[1] - _c(a)[1], _c(b)[0] - _c(a)[0]) - math.pi / 2),
   approx=True)
op("vdot", ["vec", "vec"], ["num"], "{0}.dot({1})",
   lambda a, b: sum(x * y for x, y in zip(_c(a), _c(b))), approx=True)
op("vcross", ["vec", "vec"], ["vec"], "{0}.cross({1})", _cross, approx=True)
op("vnormalized", ["vec"], ["vec"], "{0}.normalized()",
   lambda a: _vmap(lambda x: x / math.hypot(*_c(a)) if math.hypot(*_c(a)) else 0.0, a), approx=True)
op("vrot", ["vec", "num"], ["vec"], "{0}.rotatedBy({1})", _rot, approx=True)
op("vfield", ["vec"], ["num"], "(vf at {0}).yaw", lambda a: _vf(a).yaw, approx=True)
# ---- orientations ---------------------------------------------------------------------------------
op("ori", ["num", "num", "num"], ["ori"], "Orientation.fromEuler({0}, {1}, {2})",
   lambda a, b, c: _O(a, b, c))
op("omul", ["ori", "ori"], ["ori"], "({0} * {1})", lambda a, b: a * b)
op("omul_i", ["ori"], ["ori"], "({0} * IDENT)", lambda a: a * _ident(), identity=True)
op("imul_o", ["ori"], ["ori"], "(IDENT * {0})", lambda a: _ident() * a, identity=True)
op("oinv", ["ori"], ["ori"], "{0}.inverse", lambda a: a.inverse)
op("oyaw", ["ori"], ["num"], "{0}.yaw", lambda a: a.yaw)
op("oadd", ["ori", "num"], ["ori"], "({0} + {1})", lambda a, b: a + b)
op("oradd", ["num", "ori"], ["ori"], "({0} + {1})", lambda a, b: a + b)
op("orot", ["vec", "ori"], ["vec"], "{0}.applyRotation({1})", lambda a, b: a.applyRotation(b))
# ---- containers -----------------------------------------------------------------------------------
op("ptup3", ["num", "num", "num"], ["ptup3"], "({0}, {1}, {2})", lambda a, b, c: (a, b, c))
op("plist3", ["num", "num", "num"], ["plist3"], "[{0}, {1}, {2}]", lambda a, b, c: [a, b, c])
op("ptup_idx", ["ptup3", "Kidx"], ["num"], "{0}[{1}]", lambda t, i: t[i])
op("ptup2_idx", ["ptup2", "Kidx2"], ["num"], "{0}[{1}]", lambda t, i: t[i])
op("plist_idx", ["plist3", "Kidx"], ["num"], "{0}[{1}]", lambda t, i: t[i])
op("ptup_slice", ["ptup3"], ["ptup2"], "{0}[1:]", lambda t: t[1:])
op("ptup_nest", ["ptup3", "num"], ["pnest"], "({0}, [{1}, 'x'])", lambda t, a: (t, [a, "x"]))
op("pnest_idx", ["pnest", "Kidx"], ["num"], "{0}[0][{1}]", lambda t, i: t[0][i])
op("rtup_idx", ["rtup", "idx"], ["num"], "{0}[{1}]", lambda t, i: t[i])
op("rtup_idx_k", ["rtup", "Kidx"], ["num"], "{0}[{1}]", lambda t, i: t[i])
op("rtup_neg", ["rtup"], ["num"], "{0}[-1]", lambda t: t[-1])
op("rtup_slice", ["rtup", "idx"], ["rseq"], "{0}[{1}:]", lambda t, i: t[i:])
op("rtup_slice_k", ["rtup"], ["rseq"], "{0}[0:2]", lambda t: t[0:2])
op("rtup_slice_step", ["rtup", "idx"], ["rseq"], "{0}[::{1} + 1]", lambda t, i: t[::i + 1])
op("rtup_len", ["rtup"], ["num", "int"], "len({0})", lambda t: len(t))
op("rseq_len", ["rseq"], ["num", "int"], "len({0})", lambda t: len(t))
op("rtup2_idx", ["rtup2", "Kidx2"], ["num"], "{0}[{1}]", lambda t, i: t[i])
op("rlist_len", ["rlist"], ["num", "int", "pos"], "len({0})", lambda t: len(t))
op("rlist_first", ["rlist"], ["num"], "{0}[0]", lambda t: t[0])
op("rlist_last", ["rlist"], ["num"], "{0}[-1]", lambda t: t[-1])
op("pdict", ["num", "num"], ["pdict"], "{{'a': {0}, 'b': {1}}}", lambda a, b: {"a": a, "b": b})
op("pdict_get", ["pdict", "Kkey"], ["num"], "{0}[{1}]", lambda d, k: d[k])
op("rdict_get", ["rdict", "Kkey"], ["num"], "{0}[{1}]", lambda d, k: d[k])
op("rdict_getr", ["rdict", "key"], ["num"], "{0}[{1}]", lambda d, k: d[k])
op("rdict_m", ["rdict", "Kkey"], ["num"], "{0}.get({1})", lambda d, k: d.get(k))
op("rdict_len", ["rdict"], ["num", "int"], "len({0})", lambda d: len(d))
op("pnt", ["num", "num"], ["pnt"], "Pair({0}, {1})", lambda a, b: L.Pair(a, b))
op("pnt_a", ["pnt"], ["num"], "{0}.a", lambda t: t.a)
op("pnt_idx", ["pnt"], ["num"], "{0}[1]", lambda t: t[1])
op("rnt_b", ["rnt"], ["num"], "{0}.b", lambda t: t.b)
op("rnt_idx", ["rnt"], ["num"], "{0}[0]", lambda t: t[0])
# ---- strings ----------------------------------------------------------------------------------------
op("sconcat", ["str", "Kstr"], ["str"], "({0} + {1})", lambda s, k: s + k)
op("srconcat", ["Kstr", "str"], ["str"], "({0} + {1})", lambda k, s: k + s)
op("sconcat2", ["str", "str"], ["str"], "({0} + {1})", lambda s, t: s + t)
op("smul", ["str"], ["str"], "({0} * 2)", lambda s: s * 2)
op("srmul", ["str"], ["str"], "(2 * {0})", lambda s: 2 * s)
op("smul_r", ["str", "idx"], ["str"], "({0} * {1})", lambda s, i: s * i)
op("sidx", ["nestr"], ["str"], "{0}[0]", lambda s: s[0])  # non-empty strings only
op("sslice", ["str", "idx"], ["str"], "{0}[{1}:]", lambda s, i: s[i:])
op("slen", ["str"], ["num", "int", "pos"], "len({0})", lambda s: len(s))
op("supper", ["str"], ["str"], "{0}.upper()", lambda s: s.upper())
op("supper_ne", ["nestr"], ["str", "nestr"], "{0}.upper()", lambda s: s.upper())
op("sstarts", ["str", "Kstr"], ["bool"], "{0}.startswith({1})", lambda s, k: s.startswith(k))
op("sjoin", ["str", "Kstr"], ["str"], "{0}.join([{1}, 'q'])", lambda s, k: s.join([k, "q"]))
op("sreplace", ["str", "Kstr"], ["str"], "{0}.replace('a', {1})", lambda s, k: s.replace("a", k))
# ---- plain objects and random callables ---------------------------------------------------------------
op("obj_k", ["obj"], ["num", "int"], "{0}.k", lambda o: o.k)
op("obj_prop", ["obj"], ["num", "int"], "{0}.twice", lambda o: o.twice)
op("obj_label", ["obj"], ["str", "nestr"], "{0}.label", lambda o: o.label)
op("obj_scale", ["obj", "num"], ["num"], "{0}.scale({1})", lambda o, a: o.scale(a))
op("obj_scale_k", ["obj", "Knum"], ["num"], "{0}.scale({1})", lambda o, a: o.scale(a))
op("obj_scale_kw", ["obj", "num", "num"], ["num"], "{0}.scale({1}, factor={2})",
   lambda o, a, b: o.scale(a, factor=b))
op("obj_scale_kwk", ["obj", "num", "Knum"], ["num"], "{0}.scale({1}, factor={2})",
   lambda o, a, b: o.scale(a, factor=b))
op("obj_tag_kw", ["obj", "str"], ["str"], "{0}.tag(suffix={1}, sep='/')",
   lambda o, s: o.tag(suffix=s, sep="/"))
op("obj_pick", ["obj", "idx"], ["num", "int"], "{0}.pick({1})", lambda o, i: o.pick(i))
op("obj_items", ["obj", "idx"], ["num", "int"], "{0}.items[{1}]", lambda o, i: o.items[i])
op("obj_items_slice", ["obj"], ["rseq"], "{0}.items[1:]", lambda o: o.items[1:])
op("fn_call", ["fn", "num"], ["num"], "{0}({1})", lambda f, a: f(a))
op("fn_call_kw", ["fn", "num", "num"], ["num"], "{0}({1}, bonus={2})", lambda f, a, b: f(a, bonus=b))
op("fn_call_kwk", ["fn", "num", "Knum"], ["num"], "{0}({1}, bonus={2})",
   lambda f, a, b: f(a, bonus=b))
# ---- lazily evaluated distributions (class defaults only; arguments are self.<prop>) ---------------------
op("z_range", ["num"], ["num"], "Range({0}, {0})", lambda a: a, lazy_only=True)
op("z_uniform", ["num"], ["num"], "Uniform({0}, {0})", lambda a: a, lazy_only=True)
op("z_uniform3", ["num", "num"], ["num"], "Uniform({0}, {0}, {0}) + {1}", lambda a, b: a + b,
   lazy_only=True)
op("z_normal", ["num"], ["num"], "Normal({0}, 0)", lambda a: a, lazy_only=True)
op("z_drange", ["int"], ["num", "int"], "DiscreteRange({0}, {0})", lambda a: a, lazy_only=True)
op("z_discrete", ["num"], ["num"], "Discrete({{{0}: 1, {0} + 0: 2}})", lambda a: a, lazy_only=True)
op("z_tnormal", ["num"], ["num"], "TruncatedNormal({0}, 1, -1e12, 1e12) * 0 + {0}", lambda a: a,
   lazy_only=True, approx=True)
op("z_range_op", ["num", "num"], ["num"], "(Range({0}, {0}) * 2 + {1})", lambda a, b: a * 2 + b,
   lazy_only=True)
op("z_range_fn", ["num", "num"], ["num"], "f_lin(Range({0}, {0}), {1})",
   lambda a, b: L.f_lin(a, b), lazy_only=True)

# ---- specifier arguments needing lazy evaluation: LZ = (K relative to vf).yaw depends on the position
# of the object being built; py(lz, *operands) ---------------------------------------------------------
def sop(name, args, txt, py, **kw):
    OPS[name] = dict(name=name, args=args, res=["lzres"], txt=txt, py=py, spec_only=True, **kw)


sop("lz_add_dist", ["Knum"], "(Range({0}, {0}) + LZ)", lambda z, c: c + z)
sop("lz_radd_dist", ["Knum"], "(LZ + Range({0}, {0}))", lambda z, c: z + c)
sop("lz_mul", ["num"], "(LZ * {0})", lambda z, a: z * a)
sop("lz_rmul", ["num"], "({0} * LZ)", lambda z, a: a * z)
sop("lz_rsub", ["num"], "({0} - LZ)", lambda z, a: a - z)
sop("lz_div", ["num"], "({0} / (LZ + 10))", lambda z, a: a / (z + 10))
sop("lz_range_arg", [], "Range(LZ, LZ)", lambda z: z)
sop("lz_range_arg2", ["num"], "(Range(LZ, LZ + 0) + {0})", lambda z, a: z + a)
sop("lz_normal_arg", [], "Normal(LZ, 0)", lambda z: z)
sop("lz_normal_arg2", ["pos"], "(Normal(LZ, {0}) * 0 + LZ)", lambda z, a: z)
sop("lz_tnormal_arg", [], "(TruncatedNormal(LZ, 1, -1e12, 1e12) * 0 + LZ)", lambda z: z)
sop("lz_drange_arg", [], "DiscreteRange(2, LZ * 0 + 2.5)", lambda z: 2)
sop("lz_uniform_arg", ["Knum"], "Uniform(LZ + {0}, LZ + {0})", lambda z, c: z + c)
sop("lz_discrete_arg", [], "Discrete({{LZ: 1, LZ + 0: 3}})", lambda z: z)
sop("lz_fn", ["num"], "f_lin({0}, LZ)", lambda z, a: L.f_lin(a, z))
sop("lz_fn_kw", ["num", "num"], "f_kw({0}, scale=LZ, shift={1})",
    lambda z, a, b: L.f_kw(a, scale=z, shift=b))
sop("lz_hypot", ["num"], "hypot({0}, LZ)", lambda z, a: math.hypot(a, z))
sop("lz_max", ["num"], "max({0}, LZ)", lambda z, a: max(a, z))
sop("lz_abs", [], "abs(LZ - 5)", lambda z: abs(z - 5))
sop("lz_hypot_k", ["Knum"], "hypot({0}, LZ)", lambda z, c: math.hypot(c, z))
sop("lz_max_k", ["Knum"], "max(LZ, {0})", lambda z, c: max(z, c))
sop("lz_sin", [], "sin(LZ)", lambda z: math.sin(z))
sop("lz_fn_k", ["Knum"], "f_kw({0}, shift=LZ)", lambda z, c: L.f_kw(c, shift=z))
sop("lz_neg_dist", ["num"], "(-(LZ + {0}))", lambda z, a: -(z + a))
sop("lz_round", ["num"], "round(LZ + {0}, 3)", lambda z, a: round(z + a, 3))
sop("lz_tuple", ["num"], "({0}, LZ)", lambda z, a: (a, z))
sop("lz_list", ["num"], "[LZ, {0}]", lambda z, a: [z, a])
sop("lz_dict", ["num"], "{{'a': {0}, 'b': LZ}}", lambda z, a: {"a": a, "b": z})
sop("lz_nt", ["num"], "Pair({0}, LZ)", lambda z, a: L.Pair(a, z))
sop("lz_vector", ["num"], "Vector({0}, LZ, 0)", lambda z, a: _V(a, z, 0))
sop("lz_vector_norm", ["num"], "Vector({0}, LZ, 0).norm()", lambda z, a: _V(a, z, 0).norm())
sop("lz_vadd", ["vec"], "({0} + Vector(LZ, 0, 0))", lambda z, v: v + _V(z, 0, 0))
sop("lz_call", [], "Uniform(g_double, g_double)(LZ)", lambda z: L.g_double(z))
sop("lz_call_kw", ["num"], "Uniform(g_double, g_double)({0}, bonus=LZ)",
    lambda z, a: L.g_double(a, bonus=z))
sop("lz_call_kw2", ["fn", "num"], "{0}({1}, bonus=LZ)", lambda z, f, a: f(a, bonus=z))
sop("lz_method", ["num"], "Uniform(BOXES[0], BOXES[0]).scale({0}, LZ)",
    lambda z, a: L.BOXES[0].scale(a, z))
sop("lz_method_kw", ["obj", "num"], "{0}.scale({1}, factor=LZ)", lambda z, o, a: o.scale(a, factor=z))
sop("lz_index", ["rtup"], "{0}[DiscreteRange(1, LZ * 0 + 1.5)]", lambda z, t: t[1])
sop("lz_str", [], "str(LZ)", lambda z: str(z))
# an int-valued lazy value combined with a float: needs the reflected operator
sop("lz_int_add", [], "(round(LZ) + 0.5)", lambda z: round(z) + 0.5)
sop("lz_int_mul", ["num"], "(round(LZ) * 1.5 + {0})", lambda z, a: round(z) * 1.5 + a)
sop("lz_int_rsub", [], "(0.25 - round(LZ))", lambda z: 0.25 - round(z))
# constant Vector combined with a lazily evaluated Vector
sop("lz_vconst_add", [], "(Vector(1, 2, 3) + Vector(LZ, 0, 0))", lambda z: _V(1 + z, 2, 3))
sop("lz_vconst_sub", [], "(Vector(1, 2, 3) - Vector(0, LZ, 0)).y", lambda z: 2 - z)
sop("lz_vrand_add", ["num"], "(Vector({0}, 2, 3) + Vector(LZ, 0, 0)).x", lambda z, a: a + z)
# constant Vector operated with a lazily evaluated orientation (LZO = the lazy orientation itself)
sop("lz_vconst_rot", [], "Vector(0, 2, 0).applyRotation(LZO).x", lambda z: -2 * math.sin(z))
sop("lz_vconst_rotby", [], "Vector(0, 2, 1).rotatedBy(LZO).y", lambda z: 2 * math.cos(z))
sop("lz_vconst_offset", [], "Vector(1, 1, 0).offsetRotated(LZO, Vector(0, 2, 0)).x",
    lambda z: 1 - 2 * math.sin(z))
# the only lazy / random argument of a lifted function passed by keyword
sop("lz_ori_kw", [], "Orientation.fromEuler(0.25, 0.5, roll=LZ).roll",
    lambda z: _O(0.25, 0.5, z).roll)
sop("lz_round_kw", ["num"], "round(number=LZ + {0})", lambda z, a: round(number=z + a))
# containers with a lazy element passed through a lifted function keep their type
sop("lz_str_list", ["num"], "str([{0}, LZ])[0]", lambda z, a: "[")
sop("lz_str_nt", ["num"], "str(Pair({0}, LZ))[0:4]", lambda z, a: "Pair")
sop("lz_len_list", ["num"], "str([{0}, (LZ, 1)])[-1]", lambda z, a: "]")

KCONST = {
    "Klo": st.integers(-40, 40).map(lambda k: k / 4),
    "Kspan": st.integers(1, 24).map(lambda k: k / 4),
    "Kposlo": st.integers(2, 16).map(lambda k: k / 4),
    "Kint": st.integers(-6, 6),
    "Kposint": st.integers(1, 5),
    "Kcount": st.integers(0, 4),
    "Knum": st.one_of(st.integers(-5, 5), st.integers(-20, 20).map(lambda k: k / 4)),
    "Kpos": st.sampled_from([1, 2, 3, 0.5, 2.5, 1.0]),
    "Ksmallint": st.integers(-2, 3),
    "Kweight": st.sampled_from([1, 2, 0.5, 3]),
    "Kidx": st.integers(0, 2),
    "Kidx2": st.integers(0, 1),
    "Kkey": st.sampled_from(["'a'", "'b'"]),
    "Kstr": st.sampled_from(["'a'", "'xy'", "''", "'f'"]),
}


def lit(v):
    if isinstance(v, str):
        return v  # already a quoted literal
    if isinstance(v, float) and v < 0 or isinstance(v, int) and v < 0:
        return f"({v!r})"
    return repr(v)


def litval(v):
    if isinstance(v, str):
        return v[1:-1]
    return v


# --------------------------------------------------------------------------------------------
# emission
# --------------------------------------------------------------------------------------------

def expr_text(stmt, ref):
    o = OPS[stmt["op"]]
    parts = []
    for a in stmt["a"]:
        parts.append(lit(a[1]) if a[0] == "c" else ref(a[1]))
    return o["txt"].format(*parts)


def emit(case):
    lines = [HEADER]
    for s in case["stmts"]:
        lines.append(f"{s['n']} = {expr_text(s, lambda n: n)}")
        lines.append(f"param {s['n']} = {s['n']}")
    lz = case.get("lazy")
    sp = case.get("spec")
    cls, withs, at = "Object", "", "(0, 0)"
    if lz:
        lines.append("class K:")
        for s in lz["props"]:
            lines.append(f"    {s['n']}: {expr_text(s, lambda n: 'self.' + n)}")
        withs = "".join(f", with {s['n']} {expr_text(s, lambda n: n)}" for s in lz["withs"])
        cls = "K"
    if sp:
        # a fixed position makes LZ a lazily evaluated *constant* (plain Python values at
        # evaluation time); a random one makes it a lazily evaluated distribution
        at = "(3.0, -2.0)" if sp.get("fixed") else "(Range(0, 10), Range(-5, 5))"
        LZ = f"({lit(sp['k'])} relative to vf).yaw"
        withs += f", with lz {LZ}"
        for s in sp["items"]:
            withs += f", with {s['n']} " + expr_text(s, lambda n: n).replace(
                "LZO", f"({lit(sp['k'])} relative to vf)").replace("LZ", LZ)
    lines.append(f"ego = new {cls} at {at}{withs}")
    return "\n".join(lines) + "\n"


# --------------------------------------------------------------------------------------------
# comparison
# --------------------------------------------------------------------------------------------

def same(a, b, approx=False):
    from scenic.core.vectors import Orientation, Vector

    if isinstance(a, np.ndarray) or isinstance(b, np.ndarray):
        # a numpy scalar sample (e.g. from TruncatedNormal) times a Vector is an ndarray in plain
        # Python as well: compare coordinates, whatever the sequence type
        try:
            ca, cb = _c(a), _c(b)
        except TypeError:
            return False
        return len(ca) == len(cb) and all(same(x, y, approx) for x, y in zip(ca, cb))
    if isinstance(a, Orientation) or isinstance(b, Orientation):
        if not (isinstance(a, Orientation) and isinstance(b, Orientation)):
            return False
        return bool(abs(abs(float(np.dot(a.q, b.q))) - 1.0) < 1e-12)
    if isinstance(a, Vector) or isinstance(b, Vector):
        if not (isinstance(a, Vector) and isinstance(b, Vector)):
            return False
        return all(same(x, y, approx) for x, y in zip(a.coordinates, b.coordinates))
    if isinstance(a, bool) or isinstance(b, bool):
        return isinstance(a, (bool, np.bool_)) and isinstance(b, (bool, np.bool_)) and bool(a) == bool(b)
    num = (int, float, np.integer, np.floating)
    if isinstance(a, num) or isinstance(b, num):
        if not (isinstance(a, num) and isinstance(b, num)):
            return False
        fa, fb = float(a), float(b)
        if fa != fa or fb != fb:
            return fa != fa and fb != fb
        if approx:
            return abs(fa - fb) <= 1e-9 * max(1.0, abs(fa))
        return a == b
    if isinstance(a, str) or isinstance(b, str):
        return isinstance(a, str) and isinstance(b, str) and a == b
    if isinstance(a, dict) or isinstance(b, dict):
        return (isinstance(a, dict) and isinstance(b, dict) and a.keys() == b.keys()
                and all(same(a[k], b[k], approx) for k in a))
    if isinstance(a, (tuple, list)) or isinstance(b, (tuple, list)):
        return (type(a) is type(b) and len(a) == len(b)
                and all(same(x, y, approx) for x, y in zip(a, b)))
    return a is b


def show(v):
    try:
        r = repr(v)
    except Exception:
        r = object.__repr__(v)
    return f"{type(v).__name__}:{r[:120]}"


def is_random_obj(v):
    """Does a sampled value still contain an unsampled distribution?"""
    from scenic.core.lazy_eval import isLazy

    if isLazy(v):
        return True
    if isinstance(v, dict):
        return any(is_random_obj(x) for x in v.values())
    if isinstance(v, (tuple, list)):
        return any(is_random_obj(x) for x in v)
    return False


# --------------------------------------------------------------------------------------------
# judge
# --------------------------------------------------------------------------------------------

def arg_kinds(stmt):
    return "".join("k" if a[0] == "c" else "n" for a in stmt["a"])


def cell_of(stmt, prefix="node"):
    """Structural cell of a node: operation + which operands are constants; an operation whose
    constant operand is its identity element is the identity variant of the operation."""
    nm = stmt["op"]
    ident = {"add_k": 0, "sub_k": 0, "radd": 0, "mul_k": 1, "rmul": 1, "div_k": 1,
             "floordiv_k": 1, "pow_k": 1}
    if nm in ("floordiv1", "floordiv1f") or (nm == "floordiv_k" and stmt["a"][1][1] == 1):
        return f"{prefix}:floordiv-by-one"
    if nm in ident:
        k = [a[1] for a in stmt["a"] if a[0] == "c"]
        if k and k[0] == ident[nm] and not isinstance(k[0], bool):
            return f"{prefix}:{nm}:identity-operand"
    return f"{prefix}:{nm}:{arg_kinds(stmt)}"


def depth_and_leaves(case):
    info = {}
    for s in case["stmts"]:
        o = OPS[s["op"]]
        ds, ls = [0], set()
        for a in s["a"]:
            if a[0] == "n":
                ds.append(info[a[1]][0])
                ls |= info[a[1]][1]
        if o.get("leaf"):
            ls = ls | {s["n"]}
        info[s["n"]] = (max(ds) + 1, ls)
    return info


def judge(case, nscenes=8):
    import scenic
    from scenic.core.distributions import RejectionException, supportInterval

    out = core.Outcome()
    src = emit(case)
    stmts = case["stmts"]
    lz = case.get("lazy")
    info = depth_and_leaves(case)
    out.nontrivial = (any(d >= 3 and len(ls) >= 2 for d, ls in info.values()) or bool(lz)
                      or bool(case.get("spec")))
    if case.get("spec"):
        out.cls("spec")
        for s in case["spec"]["items"]:
            out.cls("specop:" + s["op"])
    for s in stmts:
        out.cls("op:" + s["op"])
    if lz:
        out.cls("lazy", f"lazy-props:{len(lz['props'])}", f"lazy-withs:{len(lz['withs'])}")
        for s in lz["props"]:
            out.cls("lazyop:" + s["op"])
    try:
        with warnings.catch_warnings():
            warnings.simplefilter("ignore")
            sc = scenic.scenarioFromString(src, mode2D=case.get("mode2D", False))
    except Exception as e:
        # attribute to the shortest failing prefix
        culprit = blame(case)
        out.fail(f"{culprit}|compile:" + core.exc_signature(e), error=repr(e)[:300], source=src)
        return out

    # static bounds
    bounds = {}
    tainted = set()  # nodes downstream of a node whose bounds are already known to be wrong
    for s in stmts:
        o = OPS[s["op"]]
        if "num" not in o["res"]:
            continue
        node = sc.params.get(s["n"])
        try:
            lo, hi = supportInterval(node)
        except Exception as e:
            if not any(a[0] == "n" and a[1] in tainted for a in s["a"]):
                out.fail(f"support:{s['op']}|raises:" + core.exc_signature(e), node=s,
                         error=repr(e)[:200], source=src)
            tainted.add(s["n"])
            continue
        if lo is not None or hi is not None:
            bounds[s["n"]] = (lo, hi)
            out.cls("support-known")

    random.seed(case["seed"])
    np.random.seed(case["seed"] % (2 ** 32))
    failed = set()
    for k in range(nscenes):
        try:
            with warnings.catch_warnings():
                warnings.simplefilter("ignore")
                scene, _ = sc.generate(maxIterations=50, verbosity=0)
        except RejectionException:
            out.cls("rejected")
            continue
        except (ZeroDivisionError, OverflowError) as e:
            # an arithmetic error on the sampled operands (e.g. -4 / len(s[i:]) with an empty
            # slice): plain Python raises the same on the same samples, so nothing to compare
            out.cls("unjudged:python-also-raises:" + type(e).__name__)
            continue
        except Exception as e:
            culprit = blame(case, sample=True)
            out.fail(f"{culprit}|sample:" + core.exc_signature(e), error=repr(e)[:300], source=src)
            return out
        vals = scene.params
        for s in stmts:
            o = OPS[s["op"]]
            got = vals[s["n"]]
            sig_cell = cell_of(s)
            if is_random_obj(got):
                if sig_cell not in failed:
                    failed.add(sig_cell)
                    out.fail(f"{sig_cell}|unsampled-value-in-scene", node=s, observed=show(got),
                             source=src)
                continue
            args = [litval(a[1]) if a[0] == "c" else vals[a[1]] for a in s["a"]]
            if any(is_random_obj(a) for a in args):
                continue
            if o.get("member_of") is not None:
                if not any(same(got, x) for x in args[o["member_of"]]):
                    out.fail(f"{sig_cell}|not-a-member", node=s, observed=show(got),
                             operands=[show(a) for a in args], source=src)
            elif o.get("member_of_mix"):
                if not any(same(got, x) for x in [args[0]] + list(args[1])):
                    out.fail(f"{sig_cell}|not-a-member", node=s, observed=show(got),
                             operands=[show(a) for a in args], source=src)
            elif o["py"] is not None:
                try:
                    exp = o["py"](*args)
                except Exception as e:
                    # plain Python rejects these operands: outside the fragment
                    out.cls("discard:python-raises:" + type(e).__name__)
                    exp = None
                    if sig_cell not in failed and s["op"] == "vcross":
                        pass
                    continue
                if not same(got, exp, o.get("approx", False)) and sig_cell not in failed:
                    failed.add(sig_cell)
                    out.fail(f"{sig_cell}|value-differs", node=s, expected=show(exp),
                             observed=show(got), operands=[show(a) for a in args], source=src)
            if any(a[0] == "n" and a[1] in tainted for a in s["a"]):
                tainted.add(s["n"])
            elif s["n"] in bounds and isinstance(got, (int, float, np.integer, np.floating)):
                lo, hi = bounds[s["n"]]
                g = float(got)
                if (lo is not None and g < lo - 1e-12 * max(1, abs(lo))) or \
                        (hi is not None and g > hi + 1e-12 * max(1, abs(hi))):
                    cell = f"support:{s['op']}"
                    tainted.add(s["n"])
                    if cell not in failed:
                        failed.add(cell)
                        out.fail(f"{cell}|value-outside-bounds", node=s, bounds=[lo, hi],
                                 observed=g, operands=[a for a in s["a"]], source=src)
        sp = case.get("spec")
        if sp:
            ego = scene.egoObject
            z = ego.lz
            pos = ego.position
            exp_z = sp["k"] + (0.01 * pos.x + 0.02 * pos.y)
            if not same(z, exp_z, True) and "lz" not in failed:
                failed.add("lz")
                out.fail("spec:relative-to-field|not-evaluated-at-final-position", expected=exp_z,
                         observed=show(z), source=src)
            for s in sp["items"]:
                o = OPS[s["op"]]
                got = getattr(ego, s["n"])
                cell = f"spec:{s['op']}"
                if is_random_obj(got):
                    if cell not in failed:
                        failed.add(cell)
                        out.fail(f"{cell}|unsampled-value-in-scene", item=s, observed=show(got),
                                 source=src)
                    continue
                args = [litval(a[1]) if a[0] == "c" else vals[a[1]] for a in s["a"]]
                if any(is_random_obj(a) for a in args):
                    continue
                try:
                    exp = o["py"](z, *args)
                except Exception as e:
                    out.cls("discard:python-raises:" + type(e).__name__)
                    continue
                if not same(got, exp, True) and cell not in failed:
                    failed.add(cell)
                    out.fail(f"{cell}|value-differs", item=s, expected=show(exp), observed=show(got),
                             operands=[show(z)] + [show(a) for a in args], source=src)
        if lz:
            ego = scene.egoObject
            overridden = {w["n"] for w in lz["withs"]}
            for s in lz["props"]:
                o = OPS[s["op"]]
                got = getattr(ego, s["n"])
                if s["n"] in overridden:
                    w = next(w for w in lz["withs"] if w["n"] == s["n"])
                    ow = OPS[w["op"]]
                    if ow["py"] is not None:
                        args = [litval(a[1]) if a[0] == "c" else vals[a[1]] for a in w["a"]]
                        exp = ow["py"](*args)
                    else:
                        exp = vals.get(w["a"][0][1]) if False else None
                    if exp is not None and not same(got, exp) and "lazy-with" not in failed:
                        failed.add("lazy-with")
                        out.fail(f"lazy:with:{w['op']}|value-differs", expected=show(exp),
                                 observed=show(got), source=src)
                    continue
                if o["py"] is None:
                    continue  # an independent random default: its sample is the observation
                args = [litval(a[1]) if a[0] == "c" else getattr(ego, a[1]) for a in s["a"]]
                try:
                    exp = o["py"](*args)
                except Exception as e:
                    out.cls("discard:python-raises:" + type(e).__name__)
                    continue
                cell = cell_of(s, "lazy")
                if not same(got, exp, o.get("approx", False)) and cell not in failed:
                    failed.add(cell)
                    out.fail(f"{cell}|not-evaluated-at-final-values", prop=s, expected=show(exp),
                             observed=show(got), operands=[show(a) for a in args], source=src)
    return out


def blame(case, sample=False):
    """Smallest prefix of the program (then: the class part) that still fails."""
    import scenic

    def fails(c):
        try:
            with warnings.catch_warnings():
                warnings.simplefilter("ignore")
                sc = scenic.scenarioFromString(emit(c), mode2D=c.get("mode2D", False))
                if sample:
                    random.seed(case["seed"])
                    for _ in range(3):
                        sc.generate(maxIterations=50, verbosity=0)
            return False
        except Exception:
            return True

    stmts = case["stmts"]
    base = dict(case, lazy=None, spec=None)
    if not fails(base) and case.get("spec"):
        sp = case["spec"]
        for it in sp["items"]:
            if fails(dict(base, spec=dict(sp, items=[it]))):
                return f"spec:{it['op']}"
        if fails(dict(base, spec=dict(sp, items=[]))):
            return "spec:relative-to-field"
    if not fails(base) and case.get("lazy"):
        lz = case["lazy"]
        # which property?
        for i in range(1, len(lz["props"]) + 1):
            sub = dict(lz, props=[p for p in lz["props"][:i]], withs=[])
            names = {p["n"] for p in sub["props"]}
            if any(a[0] == "n" and a[1] not in names for p in sub["props"] for a in p["a"]):
                continue
            if fails(dict(case, lazy=sub)):
                s = lz["props"][i - 1]
                return cell_of(s, "lazy")
        return "lazy:program"
    for i in range(1, len(stmts) + 1):
        if fails(dict(base, stmts=stmts[:i])):
            s = stmts[i - 1]
            return cell_of(s)
    return "program"


def replay(case):
    return judge(case)


# --------------------------------------------------------------------------------------------
# generator
# --------------------------------------------------------------------------------------------

NORMAL_OPS = [n for n, o in OPS.items() if not o.get("lazy_only") and not o.get("spec_only")]
SPEC_OPS = [n for n, o in OPS.items() if o.get("spec_only")]
LEAF_OPS = [n for n in NORMAL_OPS if OPS[n].get("leaf") and
            all(a.startswith("K") for a in OPS[n]["args"])]


@st.composite
def programs(draw):
    env = {}  # type tag -> [names]
    stmts = []
    counter = [0]

    def fresh():
        counter[0] += 1
        return f"n{counter[0]}"

    def add(opname, args):
        n = fresh()
        stmts.append({"n": n, "op": opname, "a": args})
        for t in OPS[opname]["res"]:
            env.setdefault(t, []).append(n)
        return n

    def make_args(opname):
        args = []
        for t in OPS[opname]["args"]:
            if t.startswith("K"):
                args.append(["c", draw(KCONST[t])])
            else:
                names = env[t]
                # prefer recent nodes: deeper expressions
                k = draw(st.integers(0, len(names) - 1))
                if draw(st.booleans()):
                    k = max(k, len(names) - 1 - draw(st.integers(0, 1)))
                args.append(["n", names[min(k, len(names) - 1)]])
        return args

    def available(opname):
        return all(t.startswith("K") or env.get(t) for t in OPS[opname]["args"])

    PRODUCER = {"num": ["range", "normal", "uniform_num", "tnormal", "discrete", "range_rev"],
                "pos": ["range_pos", "drange_pos"], "int": ["drange", "uniform_int"],
                "idx": ["drange_idx", "uniform_idx"], "vec": ["vector", "uniform_vec"],
                "rvec": ["uniform_vec"],
                "ori": ["ori", "uniform_ori"], "rtup": ["uniform_tup"], "rlist": ["uniform_list"],
                "rdict": ["uniform_dict"], "rnt": ["uniform_nt"], "str": ["uniform_str"],
                "nestr": ["uniform_str"],
                "key": ["uniform_key"], "obj": ["uniform_obj"], "fn": ["uniform_fn"],
                "ptup3": ["ptup3"], "plist3": ["plist3"], "ptup2": ["f_pair", "ptup_slice"],
                "pnest": ["ptup_nest"], "rtup2": ["divmod"], "rseq": ["rtup_slice_k", "rtup_slice"],
                "pdict": ["pdict"], "pnt": ["pnt"]}

    def ensure(t, fuel=4):
        """Make sure a node of type t exists (creating producers of its operands first)."""
        if env.get(t) and (fuel <= 0 or draw(st.integers(0, 3)) > 0):
            return
        nm = draw(st.sampled_from(PRODUCER[t])) if fuel > 0 else PRODUCER[t][0]
        for a in OPS[nm]["args"]:
            if not a.startswith("K") and not env.get(a):
                ensure(a, fuel - 1)
        add(nm, make_args(nm))

    first = draw(st.sampled_from(["range", "range", "normal", "tnormal", "uniform_num", "discrete",
                                  "range_rev", "drange"]))
    add(first, make_args(first))
    add("range", make_args("range"))
    n_ops = draw(st.integers(4, 10))
    for _ in range(n_ops):
        # every operation is equally likely; missing operand types are created on demand
        nm = draw(st.sampled_from(NORMAL_OPS))
        if OPS[nm].get("leaf") and draw(st.integers(0, 2)) > 0:
            nm = draw(st.sampled_from(NORMAL_OPS))
        if draw(st.integers(0, 3)) == 0:  # the arithmetic core a little more often
            nm = draw(st.sampled_from(["add", "sub", "mul", "div", "rsub", "rdiv", "neg", "abs",
                                       "max", "min", "hypot", "floordiv", "mod", "pow"]))
        for a in OPS[nm]["args"]:
            if not a.startswith("K"):
                ensure(a)
        add(nm, make_args(nm))
        if len(stmts) > 22:
            break

    lazy = None
    if draw(st.integers(0, 2)) > 0:
        # a class: properties a0.. with `self.`-dependent defaults; any definition order
        props = []
        pnum, pint = [], []
        nprops = draw(st.integers(3, 7))
        lazy_ops = ["add", "sub", "mul", "add_k", "rsub", "radd0", "mul1", "neg", "abs", "hypot",
                    "max", "f_lin", "f_kw", "f_kw1", "round", "int", "floordiv1", "pow1",
                    "z_range", "z_range", "z_uniform", "z_uniform3", "z_normal", "z_drange",
                    "z_discrete", "z_tnormal", "z_range_op", "z_range_fn", "range_dep",
                    "uniform_dep", "normal_dep"]
        obj_ops = ["obj_scale", "obj_scale_kw", "obj_scale_kwk", "fn_call", "fn_call_kw",
                   "fn_call_kwk"]
        have_obj = have_fn = None
        for i in range(nprops):
            n = f"a{i}"
            if i == 0 or (i == 1 and draw(st.booleans())):
                nm = draw(st.sampled_from(["range", "drange", "uniform_num", "normal", "range_pos"]))
                args = [["c", draw(KCONST[t])] for t in OPS[nm]["args"]]
            elif draw(st.integers(0, 6)) == 0 and have_obj is None:
                nm, args = "uniform_obj", []
                have_obj = n
            elif draw(st.integers(0, 8)) == 0 and have_fn is None:
                nm, args = "uniform_fn", []
                have_fn = n
            else:
                pool = list(lazy_ops)
                if have_obj or have_fn:
                    pool += obj_ops * 3
                nm = draw(st.sampled_from(pool))
                args = []
                ok = True
                for t in OPS[nm]["args"]:
                    if t.startswith("K"):
                        args.append(["c", draw(KCONST[t])])
                    elif t == "obj":
                        if not have_obj:
                            ok = False
                            break
                        args.append(["n", have_obj])
                    elif t == "fn":
                        if not have_fn:
                            ok = False
                            break
                        args.append(["n", have_fn])
                    elif t == "int":
                        if not pint:
                            ok = False
                            break
                        args.append(["n", draw(st.sampled_from(pint))])
                    elif t == "pos":
                        ok = False
                        break
                    else:
                        args.append(["n", draw(st.sampled_from(pnum))])
                if not ok:
                    nm = "add_k"
                    args = [["n", draw(st.sampled_from(pnum))], ["c", draw(KCONST["Knum"])]]
            props.append({"n": n, "op": nm, "a": args})
            if "num" in OPS[nm]["res"]:
                pnum.append(n)
            if "int" in OPS[nm]["res"]:
                pint.append(n)
        # definition order is irrelevant to Scenic: shuffle
        order = draw(st.permutations(list(range(len(props)))))
        props = [props[i] for i in order]
        withs = []
        numeric_nodes = env.get("num", [])
        for _ in range(draw(st.integers(0, 2))):
            target = draw(st.sampled_from(pnum))
            if any(w["n"] == target for w in withs):
                continue
            if draw(st.booleans()) and numeric_nodes:
                withs.append({"n": target, "op": "upos", "a": [["n", draw(st.sampled_from(numeric_nodes))]]})
            else:
                withs.append({"n": target, "op": "upos", "a": [["c", draw(KCONST["Knum"])]]})
        # an int-typed property overridden by a non-integer would break DiscreteRange(k, k) = k
        int_used = {a[1] for p in props if p["op"] == "z_drange" for a in p["a"]}
        withs = [w for w in withs if w["n"] not in int_used]
        lazy = {"props": props, "withs": withs}
    spec = None
    if draw(st.integers(0, 2)) > 0:
        items = []
        for i in range(draw(st.integers(1, 5))):
            cands = [n for n in SPEC_OPS if available(n)]
            nm = draw(st.sampled_from(cands))
            items.append({"n": f"b{i}", "op": nm, "a": make_args(nm)})
        spec = {"k": draw(st.integers(-8, 8).map(lambda k: k / 4)), "items": items,
                "fixed": draw(st.integers(0, 2)) == 0}
    return {"seed": draw(st.integers(0, 2 ** 31)), "mode2D": draw(st.sampled_from([False, False, True])),
            "stmts": stmts, "lazy": lazy, "spec": spec}


def strategy():
    return programs()


def plan(tier, seed, jobs):
    n = 60 if tier == "quick" else 4000
    return [{"seed": seed * 1000 + k, "n": n} for k in range(jobs)]


def run_shard(shard, tier):
    col = core.Collector(PROP, shard["id"])
    core.hyp_search(programs(), judge, shard["n"], shard["seed"], col,
                    known_sigs=shard.get("known_sigs", ()), case_timeout=120,
                    shrink_s=8 if tier == "quick" else 60)
    return col.result()
