"""C06 — specifier resolution follows the documented priorities, whatever the order.

Three families of cases:
  builtin    exhaustive subsets of the built-in specifier forms x argument kinds, every
             permutation, 3D and 2D mode (driven from generated Scenic text; see vf.c06_hook);
  synthetic  Hypothesis-drawn Specifier / ModifyingSpecifier objects with drawn priority tables
             and dependency sets, fed to Constructible._resolveSpecifiers in every order;
  classes    Hypothesis-drawn Scenic class hierarchies (plain / inherited / additive / dynamic /
             final defaults, `self.` dependencies, acyclic and cyclic) instantiated with `with`
             specifiers in every order.
Oracle: vf.c06_ref (order-free reference resolver transcribed from docs/reference/specifiers.rst)
and, for the classes family, a plain-Python evaluation of the defaults at the final values.
"""

from __future__ import annotations

import itertools
import json
import random
import warnings

from hypothesis import strategies as st

from vf import c06_hook, c06_ref, core

PROP = "C06"
NEEDS_PARSER = True
FLOOR = 0.30
RULE = ("builtin: every subset of size <= 2 of 55 specifier atoms (46 in 2D mode) (specifier form x argument "
        "kind), every subset of size 3 of a 22-atom core (thorough: of all atoms, plus size 4 of "
        "the core) and seeded samples of larger subsets, each in every permutation, in 3D and 2D "
        "mode, for class Object (pairs also for Point, OrientedPoint and a user class UC whose parentOrientation / heading default is not the global frame); synthetic: Hypothesis "
        "specifier sets over 6 properties; classes: Hypothesis class hierarchies of depth <= 3. "
        "Non-trivial = at least two specifiers touch a common property, or a dependency chain of "
        "length >= 2 (a specifier depending on a property another user specifier or a dependent "
        "default provides); distinct = SHA-1 of the case (subset + class + mode, or program).")
ASSUMPTIONS = [
    "reference resolver vf.c06_ref written from docs/reference/specifiers.rst; the table of "
    "properties/priorities/dependencies in ATOMS transcribed from the same page; class property "
    "lists and derived-property dependencies from the Point/OrientedPoint/Object docstrings "
    "rendered in docs/reference/classes.rst; 2D-mode rewriting from docs/porting.rst",
    "who assigned a property is observed by wrapping Specifier.getValuesFor (order of evaluation "
    "and state of the object under construction); values of simple markers are compared as well",
    "semantics of additive (tuple of all defaults, most derived first), final (cannot be "
    "specified or overridden) and dynamic (as plain at creation) defaults are not in the "
    "reference; they are taken from the property statement and tests/syntax/test_classes.py",
    "when several error conditions hold at once any of them may be reported",
]

# --------------------------------------------------------------------------------------------
# Built-in specifier atoms: source text and the table transcribed from specifiers.rst
# --------------------------------------------------------------------------------------------

YPR = {"yaw": 1, "pitch": 1, "roll": 1}
POS_PO3 = {"position": 1, "parentOrientation": 3}
ON_DEPS = ["baseOffset", "contactTolerance", "onDirection"]


def A(src, prios, deps=(), modifiable=(), d3=True, d2=True, marker=None):
    return {"src": src, "prios": prios, "deps": list(deps), "modifiable": list(modifiable),
            "d3": d3, "d2": d2, "marker": marker}


ATOMS = {
    # with <property> <value>: the given property, priority 1, no dependencies
    "wfoo": A("with foo 17", {"foo": 1}, marker=("foo", 17.0)),
    "wyaw": A("with yaw 0.41", {"yaw": 1}, marker=("yaw", 0.41)),
    "wpitch": A("with pitch 0.42", {"pitch": 1}, d2=False, marker=("pitch", 0.42)),
    "wpo": A("with parentOrientation 0.43", {"parentOrientation": 1}),
    "wpos": A("with position (7, 7)", {"position": 1}, marker=("position", (7.0, 7.0, 0.0))),
    "wwidth": A("with width 2.5", {"width": 1}, marker=("width", 2.5)),
    "wct": A("with contactTolerance 0.07", {"contactTolerance": 1},
             marker=("contactTolerance", 0.07)),
    "wrci": A("with regionContainedIn RC", {"regionContainedIn": 1}),
    "wbo": A("with baseOffset (0, 0, -0.7)", {"baseOffset": 1}, d2=False),
    # derived properties (OrientedPoint docs: "non-overridable"); 2D mode: porting.rst
    "whead": A("with heading 0.44", {"heading": 1}),
    "worient": A("with orientation 0.45", {"orientation": 1}),
    "at": A("at (11, 12)", {"position": 1}, marker=("position", (11.0, 12.0, 0.0))),
    "in0": A("in R0", {"position": 1}),
    "in1": A("in R1", POS_PO3),
    "cin0": A("contained in R0", {"position": 1, "regionContainedIn": 1}),
    "cin1": A("contained in R1", {"position": 1, "regionContainedIn": 1, "parentOrientation": 3}),
    "on0": A("on S0", {"position": 1}, ON_DEPS, ["position"]),
    "on1": A("on S1", {"position": 1, "parentOrientation": 2}, ON_DEPS, ["position"]),
    "onv": A("on (13, 14)", {"position": 1}, ON_DEPS, ["position"]),
    "onob": A("on OB", {"position": 1, "parentOrientation": 2}, ON_DEPS, ["position"]),
    "offby": A("offset by (1, 2)", POS_PO3),
    "offal": A("offset along 0.5 by (1, 2)", POS_PO3),
    "offalf": A("offset along vf by (1, 2)", POS_PO3),
    "bey": A("beyond (20, 20) by 3", POS_PO3),
    "beyf": A("beyond (20, 20) by (1, 2) from OP", POS_PO3),
    # "...the orientation of the third argument if it is an OrientedPoint; otherwise the global
    # coordinate system is used": parentOrientation is specified (priority 3) in every case
    "beyv": A("beyond (21, 21) by 3 from (5, 5)", POS_PO3),
    "beyp": A("beyond (22, 22) by (1, 2) from P", POS_PO3),
    "vis": A("visible", {"position": 3}, ["regionContainedIn"]),
    "visf": A("visible from P", {"position": 3}, ["regionContainedIn"]),
    "nvis": A("not visible", {"position": 3}, ["regionContainedIn"]),
    "nvisf": A("not visible from OP", {"position": 3}, ["regionContainedIn"]),
    "leftv": A("left of (30, 30) by 1", {"position": 1}, ["width", "orientation"]),
    "leftop": A("left of OP", POS_PO3, ["width"]),
    "leftob": A("left of OB by 2", POS_PO3, ["width", "contactTolerance"]),
    "rightop": A("right of OP by 1", POS_PO3, ["width"]),
    "aheadv": A("ahead of (31, 31)", {"position": 1}, ["length", "orientation"]),
    "aheadop": A("ahead of OP by 2", POS_PO3, ["length"]),
    "aheadob": A("ahead of OB", POS_PO3, ["length", "contactTolerance"]),
    "behindob": A("behind OB by 1", POS_PO3, ["length", "contactTolerance"]),
    "abovev": A("above (32, 32, 1)", {"position": 1}, ["height", "orientation"], d2=False),
    "aboveop": A("above OP", POS_PO3, ["height"], d2=False),
    "aboveob": A("above OB by 1", POS_PO3, ["height", "contactTolerance"], d2=False),
    "belowop": A("below OP by 1", POS_PO3, ["height"], d2=False),
    "fol": A("following vf for 5", POS_PO3),
    "folf": A("following vf from (40, 40) for 5", POS_PO3),
    "fh": A("facing 0.61", YPR, ["parentOrientation"]),
    "fe": A("facing (0.62, 0.1, 0.2)", YPR, ["parentOrientation"], d2=False),
    "ff": A("facing vf", YPR, ["position", "parentOrientation"]),
    # operators.rst: `relative to` with a field "yields an expression depending on the position"
    "frel": A("facing (0.1 relative to vf)", YPR, ["position", "parentOrientation"]),
    "ftow": A("facing toward (60, 60)", {"yaw": 1}, ["position", "parentOrientation"]),
    "faway": A("facing away from (61, 61)", {"yaw": 1}, ["position", "parentOrientation"]),
    "fdtow": A("facing directly toward (62, 62, 5)", {"yaw": 1, "pitch": 1},
               ["position", "parentOrientation"], d2=False),
    "fdaway": A("facing directly away from (63, 63, 5)", {"yaw": 1, "pitch": 1},
                ["position", "parentOrientation"], d2=False),
    "app": A("apparently facing 0.7", {"yaw": 1}, ["position", "parentOrientation"]),
    "appf": A("apparently facing 0.7 from (64, 64)", {"yaw": 1}, ["position", "parentOrientation"]),
}
CORE = ["wyaw", "wpo", "wpos", "wct", "whead", "at", "in1", "cin0", "on1", "onv", "onob", "offby",
        "vis", "nvisf", "leftv", "leftop", "leftob", "fol", "fh", "ff", "ftow", "app"]

SETUP = '''from vf import c06_hook as _h
workspace = Workspace(RectangularRegion((0, 0), 0, 4000, 4000))
vf = VectorField("vf", lambda pos: 0.3)
R0 = RectangularRegion((100, 100), 0.0, 4, 4)
R1 = PolygonalRegion([(200, 200), (204, 200), (204, 204), (200, 204)], orientation=vf)
RC = RectangularRegion((0, 0), 0.0, 3000, 3000)
_SB = new Object at (0, 0, -20), with width 3000, with length 3000, with height 1, with allowCollisions True
S1 = _SB.topSurface
S0 = MeshSurfaceRegion(S1.mesh, centerMesh=False, orientation=None)
ego = new Object at (0, -50), with yaw 0.11
P = new Point at (50, 50)
OP = new OrientedPoint at (-50, 50), facing 0.21
OB = new Object at (0, 0, -60), facing 0.31, with width 2500, with length 2400, with height 2, with allowCollisions True
_h.install(globals())
'''
# a user class whose defaults differ from Object's for what specifiers optionally specify
SETUP_UC = {False: "class UC:\n    parentOrientation: 0.9\n    contactTolerance: 0.3\n",
            True: "class UC:\n    heading: 0.9\n"}

# documented derived-property dependencies (Point / OrientedPoint / Object docstrings)
DOC_DEFAULT_DEPS = {
    "orientation": ["yaw", "pitch", "roll", "parentOrientation"],
    "heading": ["orientation"],
    "width": ["shape"], "length": ["shape"], "height": ["shape"],
    "baseOffset": ["height"],
    "visionSensorOffset": ["length"],
    "velocity": ["speed", "orientation"],
}
DOC_FINALS = {"Point": [], "OrientedPoint": ["orientation", "heading"],
              "Object": ["orientation", "heading", "observations"]}
DOC_PROPS = {
    "Point": ["position", "width", "length", "height", "baseOffset", "contactTolerance",
              "onDirection", "visibleDistance", "viewRayDensity", "viewRayCount",
              "viewRayDistanceScaling", "mutationScale", "positionStdDev"],
    "OrientedPoint": ["yaw", "pitch", "roll", "parentOrientation", "orientation", "heading",
                      "viewAngles", "orientationStdDev"],
    "Object": ["width", "length", "height", "shape", "allowCollisions", "regionContainedIn",
               "baseOffset", "contactTolerance", "sideComponentThresholds", "cameraOffset",
               "visionSensorOffset", "requireVisible", "occluding", "showVisibleRegion", "color",
               "render", "velocity", "speed", "angularVelocity", "angularSpeed", "behavior",
               "lastActions", "sensors", "observations"],
}


def doc_atom(a, mode2D, clsname="Object"):
    """Documented table entry of an atom in the given mode."""
    d = ATOMS[a]
    if a == "whead" and mode2D and clsname != "Point":  # a Point has no heading to rewrite
        # porting.rst: "`with heading X` is replaced with `facing X`"
        return {"name": a, "prios": dict(YPR), "deps": ["parentOrientation"], "modifiable": []}
    return {"name": a, "prios": dict(d["prios"]), "deps": list(d["deps"]),
            "modifiable": list(d["modifiable"])}


def class_defaults(clsname, mode2D, impl_props):
    """{prop: documented deps} for the properties the class has."""
    out = {}
    for p in impl_props:
        deps = DOC_DEFAULT_DEPS.get(p, [])
        if clsname == "Point" and p in ("width", "length", "height", "baseOffset"):
            deps = []  # plain constants for Point ("default value 0")
        if clsname == "OrientedPoint" and p in ("width", "length", "height", "baseOffset"):
            deps = []
        if mode2D and p == "baseOffset":
            deps = []  # porting.rst: zeroed in 2D mode
        out[p] = [q for q in deps]
    return out


def finals_of(clsname):
    f = []
    for c in ("Point", "OrientedPoint", "Object"):
        f += [p for p in DOC_FINALS[c] if p not in f]
        if c == clsname:
            break
    return f


# --------------------------------------------------------------------------------------------
# builtin family
# --------------------------------------------------------------------------------------------

def atoms_for(mode2D):
    return [a for a, d in ATOMS.items() if (d["d2"] if mode2D else d["d3"])]


def builtin_subsets(tier, seed):
    """Deterministic list of (clsname, mode2D, atom-ids) for the tier."""
    out = []
    rng = random.Random(f"C06:{seed}")
    for mode2D in (False, True):
        atoms = atoms_for(mode2D)
        core_atoms = [a for a in CORE if a in atoms]
        for a in atoms:
            for c in ("Object", "OrientedPoint", "Point", "UC"):
                out.append((c, mode2D, (a,)))
        for pair in itertools.combinations(atoms, 2):
            out.append(("Object", mode2D, pair))
        for pair in itertools.combinations(core_atoms, 2):
            out.append(("OrientedPoint", mode2D, pair))
            out.append(("Point", mode2D, pair))
        for pair in itertools.combinations(core_atoms + ["beyv", "beyp", "bey", "offal", "aheadop"], 2):
            out.append(("UC", mode2D, pair))
        if tier == "quick":
            triples = list(itertools.combinations(core_atoms, 3))
            for _ in range(700):
                triples.append(tuple(sorted(rng.sample(atoms, 3), key=atoms.index)))
            for _ in range(150):
                triples.append(tuple(sorted(rng.sample(core_atoms, 4), key=atoms.index)))
        else:
            triples = list(itertools.combinations(atoms, 3))
            triples += list(itertools.combinations(core_atoms, 4))
            for _ in range(1500):
                triples.append(tuple(sorted(rng.sample(atoms, 4), key=atoms.index)))
            for _ in range(300):
                triples.append(tuple(sorted(rng.sample(atoms, 5), key=atoms.index)))
        seen = set()
        for t in triples:
            if t not in seen:
                seen.add(t)
                out.append(("Object", mode2D, t))
    return out


def run_builtin_chunk(chunk, mode2D):
    """Compile one program with one `new` line per subset; returns hook results."""
    import scenic

    lines = [SETUP.replace("_h.install(globals())", SETUP_UC[mode2D] + "_h.install(globals())")]
    plan = []
    for clsname, _, ids in chunk:
        lines.append(f"new {clsname} " + ", ".join(ATOMS[a]["src"] for a in ids))
        plan.append(list(ids))
    lines.append("_h.uninstall(globals())")
    src = "\n".join(lines) + "\n"
    c06_hook.begin(plan, 0)
    c06_hook.CONFIG["atoms"] = {a: doc_atom(a, mode2D) for a in ATOMS}
    c06_hook.CONFIG["mode2D"] = mode2D
    try:
        with warnings.catch_warnings():
            warnings.simplefilter("ignore")
            scenic.scenarioFromString(src, mode2D=mode2D)
    except Exception as e:
        import traceback

        raise core.HarnessError("builtin chunk failed to compile: " + "".join(
            traceback.format_exception(e))[-1500:])
    if len(c06_hook.RESULTS) != len(chunk):
        raise core.HarnessError(f"hook captured {len(c06_hook.RESULTS)} of {len(chunk)} subsets")
    return list(c06_hook.RESULTS)


def conflict_profile(specs):
    """Cell of a subset: which properties are specified more than once, at which priorities."""
    byp = {}
    for s in specs:
        for p, k in s["prios"].items():
            byp.setdefault(p, []).append(f"{k}m" if p in s["modifiable"] else str(k))
    parts = [f"{p}@" + "+".join(sorted(v)) for p, v in sorted(byp.items()) if len(v) > 1]
    return ",".join(parts) if parts else "no-shared-property"


def shadowed_ambiguity(specs):
    """True when every same-priority clash lies below a strictly better specification of the
    same property (e.g. position@1+3+3): the reference (step 1) still calls it an ambiguity."""
    found = False
    byp = {}
    for s in specs:
        for p, k in s["prios"].items():
            if p not in s["modifiable"]:
                byp.setdefault(p, []).append(k)
    for p, ks in byp.items():
        dup = {k for k in ks if ks.count(k) > 1}
        for k in dup:
            if min(ks) < k:
                found = True
            else:
                return False
    return found


def judge_builtin(case, res):
    """case = {"family": "builtin", "cls", "mode2D", "ids"}; res = hook result for it."""
    out = core.Outcome()
    mode2D = case["mode2D"]
    ids = case["ids"]
    specs = [doc_atom(a, mode2D, case["cls"]) for a in ids]
    out.cls("builtin", f"size:{len(ids)}", "2D" if mode2D else "3D", f"class:{case['cls']}")
    impl_props = res["class_props"]
    defaults = class_defaults(case["cls"], mode2D, impl_props)
    finals = finals_of(case["cls"])
    ref = c06_ref.resolve(specs, defaults, finals)
    profile = conflict_profile(specs)

    # (1) table: what each constructed specifier declares = what the reference lists
    if len(ids) == 1 and case["cls"] in ("Object", "UC"):
        a = ids[0]
        dec = res["declared"][0]
        doc = specs[0]
        if a == "whead" and mode2D:
            pass  # rewritten by _prepareSpecifiers; judged through the outcome
        else:
            dp = {p: k for p, k in dec["prios"].items() if not p.startswith("_")}
            if dp != doc["prios"]:
                out.fail(f"table:{a}|priorities", documented=doc["prios"], declared=dp,
                         source=ATOMS[a]["src"])
            if sorted(dec["deps"]) != sorted(doc["deps"]):
                out.fail(f"table:{a}|dependencies", documented=sorted(doc["deps"]),
                         declared=sorted(dec["deps"]), source=ATOMS[a]["src"])
            if sorted(dec["modifiable"]) != sorted(doc["modifiable"]):
                out.fail(f"table:{a}|modifiable", documented=doc["modifiable"],
                         declared=dec["modifiable"], source=ATOMS[a]["src"])

    # non-trivial?
    shared = profile != "no-shared-property"
    chain = False
    provided = {p for s in specs for p in s["prios"]}
    for s in specs:
        for d in s["deps"]:
            if d in provided or any(q in provided for q in _closure(d, defaults)):
                chain = True
    out.nontrivial = shared or chain
    if shared:
        out.cls("shared-property")
    if chain:
        out.cls("dependency-chain")

    # (2) every permutation against the reference
    src = f"new {case['cls']} " + ", ".join(ATOMS[a]["src"] for a in ids)
    interesting = sorted({p for s in specs for p in s["prios"]})
    observed = []
    for o in res["outs"]:
        if o["status"] == "error":
            observed.append(("error", o["kind"]))
        else:
            own = {p: o["owner"].get(p) for p in interesting}
            mod = {p: m for p, m in o["modifier"].items() if p in interesting}
            observed.append(("ok", json.dumps([own, mod], sort_keys=True)))
    kinds_seen = sorted({k for st_, k in observed if st_ == "error"})
    n_ok = sum(1 for st_, _ in observed if st_ == "ok")

    if ref["status"] == "error":
        out.cls("ref:error:" + "+".join(sorted(ref["kinds"])))
        allowed = set(ref["kinds"])
        if "ambiguous" in allowed or "modified-twice" in allowed:
            allowed.add("duplicate-name")  # two specifiers of one name always clash on a property
        if ref["modifier"].get("position") == "onv":
            allowed.add("on-vector-modifying")
        bad_kinds = [k for k in kinds_seen if k not in allowed]
        unsupported = [k for k in bad_kinds if k == "other:NotImplementedError"]
        if n_ok and n_ok < len(observed):
            cellname = profile
            if ref["kinds"] == {"ambiguous"} and shadowed_ambiguity(specs):
                cellname = "shadowed-same-priority"  # one root cause whatever else is specified
            out.fail(f"resolve:{cellname}|accepted-in-some-orders:expected-"
                     + "+".join(sorted(ref["kinds"])), source=src, mode2D=mode2D,
                     accepted_orders=[[ids[i] for i in o["perm"]] for o in res["outs"]
                                      if o["status"] == "ok"][:3],
                     rejected_orders=[[ids[i] for i in o["perm"]] for o in res["outs"]
                                      if o["status"] == "error"][:3])
        elif n_ok:
            out.fail(f"resolve:{profile}|accepted:expected-" + "+".join(sorted(ref["kinds"])),
                     source=src, mode2D=mode2D)
        elif unsupported:
            out.cls("unjudged:documented-not-yet-supported")
        elif bad_kinds:
            ex = next(o for o in res["outs"] if o["status"] == "error" and o["kind"] in bad_kinds)
            if bad_kinds[0].startswith("other:"):
                out.fail(f"resolve|unexpected-exception:{ex['sig']}", source=src, mode2D=mode2D,
                         message=ex["msg"], expected_error="+".join(sorted(ref["kinds"])))
            else:
                out.fail(f"resolve:{profile}|error-kind:{bad_kinds[0]}:expected-"
                         + "+".join(sorted(ref["kinds"])), source=src, mode2D=mode2D,
                         message=ex["msg"], where=ex["sig"])
        elif len(kinds_seen) > 1:
            out.cls("unjudged:several-errors-order")
        return out

    if ref["modifier"].get("position") == "onv":
        # "this modifying version of the specifier does not accept a vector" (specifiers.rst, on)
        out.cls("ref:error:on-vector-modifying")
        if n_ok:
            out.fail(f"resolve:{profile}|accepted:expected-on-vector-modifying", source=src,
                     mode2D=mode2D)
        elif kinds_seen != ["on-vector-modifying"]:
            ex = res["outs"][0]
            out.fail(f"resolve:{profile}|error-kind:{kinds_seen[0]}:expected-on-vector-modifying",
                     source=src, mode2D=mode2D, message=ex["msg"], where=ex["sig"])
        return out
    out.cls("ref:ok")
    own = {p: ref["owner"].get(p) for p in interesting}
    mod = {p: m for p, m in ref["modifier"].items() if p in interesting}
    exp = json.dumps([own, mod], sort_keys=True)
    if n_ok < len(observed):
        if kinds_seen == ["other:NotImplementedError"] or kinds_seen == ["other:RejectionException"]:
            out.cls("unjudged:" + kinds_seen[0])
            return out
        ex = next(o for o in res["outs"] if o["status"] == "error")
        symptom = "rejected-in-some-orders" if n_ok else "rejected"
        out.fail(f"resolve:{profile}|{symptom}:{ex['kind']}", source=src, mode2D=mode2D,
                 message=ex["msg"], where=ex["sig"], expected=json.loads(exp),
                 rejected_orders=[[ids[i] for i in o["perm"]] for o in res["outs"]
                                  if o["status"] == "error"][:3])
        return out
    got = sorted({v for _, v in observed})
    if got != [exp]:
        symptom = "order-dependent-values" if len(got) > 1 else "wrong-owner"
        out.fail(f"resolve:{profile}|{symptom}", source=src, mode2D=mode2D,
                 expected=json.loads(exp), observed=[json.loads(g) for g in got][:3])
    # (3) dependencies final when used
    for o in res["outs"]:
        if o["early"]:
            out.fail(f"resolve:{profile}|evaluated-before-dependency-final", source=src,
                     mode2D=mode2D, order=[ids[i] for i in o["perm"]], early=o["early"][:4],
                     evaluation_order=o["order"])
            break
    # (4) marker values
    for o in res["outs"]:
        vals = o.get("values") or {}
        for a in ids:
            mk = ATOMS[a]["marker"]
            if mk and ref["owner"].get(mk[0]) == a and mk[0] not in ref["modifier"]:
                got_v = vals.get(mk[0])
                exp_v = list(mk[1]) if isinstance(mk[1], tuple) else mk[1]
                if got_v != exp_v:
                    out.fail(f"resolve:{profile}|wrong-value", source=src, prop=mk[0],
                             expected=exp_v, observed=got_v)
                    return out
    return out


def _closure(p, defaults, seen=None):
    seen = set() if seen is None else seen
    for q in defaults.get(p, ()):
        if q not in seen:
            seen.add(q)
            _closure(q, defaults, seen)
    return seen


def table_checks(col, res_by_class):
    """Documented property lists / finals / derived dependencies of the built-in classes."""
    case = {"family": "class-table"}
    out = core.Outcome(nontrivial=True, classes=["class-table"])
    for cname, info in res_by_class.items():
        have = set(info["props"])
        want = []
        for c in ("Point", "OrientedPoint", "Object"):
            want += DOC_PROPS[c]
            if c == cname:
                break
        missing = [p for p in want if p not in have]
        if missing:
            out.fail(f"table:class-{cname}|documented-property-missing", missing=missing)
        if sorted(info["finals"]) != sorted(finals_of(cname)):
            out.fail(f"table:class-{cname}|final-properties", documented=sorted(finals_of(cname)),
                     declared=sorted(info["finals"]))
        for p, deps in info["deps"].items():
            if p in DOC_DEFAULT_DEPS and cname == "Object":
                if sorted(deps) != sorted(DOC_DEFAULT_DEPS[p]):
                    out.fail(f"table:default-{p}|dependencies", documented=DOC_DEFAULT_DEPS[p],
                             declared=sorted(deps))
    col.add(case, out)


# --------------------------------------------------------------------------------------------
# synthetic family
# --------------------------------------------------------------------------------------------

SPROPS = ["p0", "p1", "p2", "p3", "p4", "p5"]


@st.composite
def synthetic_cases(draw):
    nprops = draw(st.integers(3, 6))
    props = SPROPS[:nprops]
    # class defaults: a subset of the properties, with dependencies among all properties
    defaults = {}
    for p in props:
        if draw(st.integers(0, 4)) > 0:
            deps = draw(st.lists(st.sampled_from([q for q in SPROPS if q != p]), max_size=2,
                                 unique=True))
            if draw(st.integers(0, 2)) > 0:  # mostly acyclic: depend on later properties only
                deps = [q for q in deps if q > p]
            defaults[p] = sorted(deps)
    final_draws = {p: draw(st.integers(0, 9)) == 0 for p in sorted(defaults)}
    nspecs = draw(st.integers(1, 4))
    specs = []
    have_mod = set()
    for i in range(nspecs):
        ps = draw(st.lists(st.sampled_from(props), min_size=1, max_size=3, unique=True))
        is_mod = draw(st.integers(0, 3)) == 0
        prios = {}
        modifiable = []
        for p in sorted(ps):
            prios[p] = draw(st.sampled_from([1, 1, 2, 3]))
        if is_mod:
            cand = [p for p in sorted(ps) if p not in have_mod]
            if cand:
                m = draw(st.sampled_from(cand))
                modifiable = [m]
                prios[m] = 1
                have_mod.add(m)
        deps = draw(st.lists(st.sampled_from([q for q in SPROPS if q not in prios]), max_size=2,
                             unique=True)) if len(prios) < len(SPROPS) else []
        specs.append({"name": f"S{i}", "prios": prios, "deps": sorted(deps),
                      "modifiable": modifiable})
    # occasionally a second modifier of a property that an ordinary specifier gives priority 1
    # ("no property can be modified twice")
    for p in sorted(have_mod):
        if any(not sp["modifiable"] and sp["prios"].get(p) == 1 for sp in specs) \
                and len(specs) < 5 and draw(st.integers(0, 3)) == 0:
            specs.append({"name": f"S{len(specs)}", "prios": {p: 1}, "deps": [], "modifiable": [p]})
            break
    # (a modifying specifier never touches a derived property: none of the built-in ones does)
    modprops = {p for sp in specs if sp["modifiable"] for p in sp["prios"]}
    finals = [p for p, f in final_draws.items() if f and p not in modprops]
    return {"family": "synthetic", "defaults": defaults, "finals": finals, "specs": specs}


def judge_synthetic(case):
    from scenic.core.lazy_eval import DelayedArgument
    from scenic.core.specifiers import ModifyingSpecifier, Specifier

    out = core.Outcome()
    out.cls("synthetic", f"size:{len(case['specs'])}")
    specs, defaults, finals = case["specs"], case["defaults"], case["finals"]
    # a modifying specifier tying on a property it cannot modify: the reference says ambiguity
    # (step 1), built-in specifiers never do it -> not judged
    for s in specs:
        for p, k in s["prios"].items():
            if s["modifiable"] and p not in s["modifiable"]:
                if any(t is not s and t["prios"].get(p) == k for t in specs):
                    out.cls("unjudged:modifier-ties-on-unmodifiable-property")
                    return out
    ref = c06_ref.resolve(specs, defaults, finals)
    profile = conflict_profile(specs)
    shared = profile != "no-shared-property"
    provided = {p for s in specs for p in s["prios"]}
    chain = any(d in provided or any(q in provided for q in _closure(d, defaults))
                for s in specs for d in s["deps"]) or any(
        d in provided for p, ds in defaults.items() for d in ds)
    out.nontrivial = shared or chain
    if shared:
        out.cls("shared-property")
    if chain:
        out.cls("dependency-chain")
    expected = c06_ref.evaluate(specs, defaults, ref) if ref["status"] == "ok" else None
    out.cls("ref:ok" if expected is not None else "ref:error:" + "+".join(sorted(ref["kinds"])))

    def mk_value(name, ps, deps, modifiable):
        def fn(context):
            dv = tuple(getattr(context, q) for q in sorted(deps))
            vals = {}
            for p in ps:
                if p in modifiable and hasattr(context, p):
                    vals[p] = (name, p, dv, "mod", getattr(context, p))
                else:
                    vals[p] = (name, p, dv)
            return vals
        return fn

    def build():
        dspecs = {}
        for p, deps in defaults.items():
            val = DelayedArgument(set(deps), (lambda q, dd: lambda ctx: (
                "default", q, tuple(getattr(ctx, d) for d in sorted(dd))))(p, deps), _internal=True)
            dspecs[p] = Specifier("PropertyDefault", {p: -1}, {p: val})
        objs = []
        for s in specs:
            val = DelayedArgument(set(s["deps"]), mk_value(s["name"], sorted(s["prios"]), s["deps"],
                                                           s["modifiable"]), _internal=True)
            if s["modifiable"]:
                objs.append(ModifyingSpecifier(s["name"], dict(s["prios"]), val,
                                               modifiable_props=set(s["modifiable"])))
            else:
                objs.append(Specifier(s["name"], dict(s["prios"]), val))
        return dspecs, objs

    Probe = _probe_class()

    results = []
    for perm in itertools.permutations(range(len(specs))):
        dspecs, objs = build()
        Probe._finalProperties = frozenset(finals)
        try:
            props, _ = Probe._resolveSpecifiers([objs[i] for i in perm], defaults=dspecs)
            results.append(("ok", {p: _tok(v) for p, v in props.items()}, perm))
        except Exception as e:
            results.append(("error", c06_hook.classify(e), perm, str(e)[:200],
                            core.exc_signature(e)))
    n_ok = sum(1 for r in results if r[0] == "ok")
    kinds_seen = sorted({r[1] for r in results if r[0] == "error"})
    desc = {"specs": specs, "defaults": defaults, "finals": finals}
    if expected is None:
        allowed = set(ref["kinds"])
        if n_ok and n_ok < len(results):
            if ref["kinds"] == {"ambiguous"} and shadowed_ambiguity(specs):
                profile = "shadowed-same-priority"
            out.fail(f"synthetic:{profile}|accepted-in-some-orders:expected-"
                     + "+".join(sorted(ref["kinds"])), **desc,
                     accepted=[list(r[2]) for r in results if r[0] == "ok"][:3])
        elif n_ok:
            out.fail(f"synthetic:{profile}|accepted:expected-" + "+".join(sorted(ref["kinds"])),
                     **desc)
        else:
            bad = [k for k in kinds_seen if k not in allowed]
            if bad:
                r = next(r for r in results if r[0] == "error" and r[1] in bad)
                if bad[0].startswith("other:"):
                    out.fail(f"synthetic|unexpected-exception:{r[4]}", **desc, message=r[3],
                             expected_error="+".join(sorted(ref["kinds"])))
                else:
                    out.fail(f"synthetic|error-kind:{bad[0]}:expected-"
                             + "+".join(sorted(ref["kinds"])), **desc, message=r[3], where=r[4])
            elif len(kinds_seen) > 1:
                out.cls("unjudged:several-errors-order")
        return out
    exp = {p: _tok(v) for p, v in expected.items()}
    if n_ok < len(results):
        r = next(r for r in results if r[0] == "error")
        out.fail(f"synthetic:{profile}|" + ("rejected-in-some-orders" if n_ok else "rejected")
                 + f":{r[1]}", **desc, message=r[3], where=r[4], order=list(r[2]))
        return out
    vals = [r[1] for r in results]
    if any(v != exp for v in vals):
        distinct = {json.dumps(v, sort_keys=True) for v in vals}
        bad = next(r for r in results if r[1] != exp)
        wrong = sorted(p for p in set(exp) | set(bad[1]) if exp.get(p) != bad[1].get(p))
        out.fail(f"synthetic:{profile}|" + ("order-dependent-values" if len(distinct) > 1
                                           else "wrong-values"), **desc, order=list(bad[2]),
                 wrong_props=wrong, expected={p: exp.get(p) for p in wrong},
                 observed={p: bad[1].get(p) for p in wrong})
    return out


_PROBE = []


def _probe_class():
    """A bare Constructible subclass: only _resolveSpecifiers / _finalProperties are used."""
    if not _PROBE:
        from scenic.core.object_types import Constructible

        class Probe(Constructible):
            _scenic_properties = {}

        _PROBE.append(Probe)
    return _PROBE[0]


def _tok(v):
    if isinstance(v, tuple):
        return [_tok(x) for x in v]
    return v


# --------------------------------------------------------------------------------------------
# classes family
# --------------------------------------------------------------------------------------------

CPROPS = ["a", "b", "c", "d", "e"]
BUILTIN_READS = ["width", "yaw", "length"]
OUT_PROPS = CPROPS + ["ghost", "width", "length", "yaw", "heading"]


@st.composite
def class_cases(draw, branchy=False):
    # hierarchy shape: a chain, two roots joined by multiple inheritance, or a diamond
    shape = draw(st.sampled_from(["join", "diamond"] if branchy
                                 else ["chain", "chain", "join", "diamond"]))
    if shape == "chain":
        depth = draw(st.integers(1, 3))
        bases = [[] if k == 0 else [k - 1] for k in range(depth)]
    elif shape == "join":
        depth, bases = 3, [[], [], [0, 1]]
    else:
        depth, bases = 4, [[], [0], [0], [1, 2]]
    classes = []
    additive = {p for p in CPROPS if draw(st.integers(0, 5 if shape == "chain" else 2)) == 0}
    if branchy and not additive:
        additive = {draw(st.sampled_from(CPROPS))}
    for k in range(depth):
        body = {}
        for p in CPROPS:
            branchy = shape != "chain" and p in additive
            if draw(st.integers(0, 2)) == 0 or (k == 0 and draw(st.booleans())) or \
                    (branchy and draw(st.integers(0, 3)) > 0):
                terms = [["c", draw(st.integers(-9, 9))]]
                # additive defaults in different branches carry different `self.` dependencies
                for _ in range(draw(st.integers(1 if branchy else 0, 2))):
                    t = draw(st.sampled_from(["own", "own", "own", "builtin", "ghost"]))
                    if t == "own":
                        # (additive properties are tuples: not used as summands)
                        cand = [x for x in CPROPS if x != p and x not in additive]
                        if cand:
                            q = draw(st.sampled_from(cand))
                            if draw(st.integers(0, 3)) > 0 and not q > p:
                                q = draw(st.sampled_from(cand))
                            terms.append(["self", q])
                    elif t == "builtin":
                        terms.append(["self", draw(st.sampled_from(BUILTIN_READS))])
                    elif draw(st.integers(0, 3)) == 0:
                        terms.append(["self", "ghost"])
                attrs = []
                if p in additive:
                    attrs.append("additive")
                elif draw(st.integers(0, 7)) == 0:
                    attrs.append("dynamic")
                if draw(st.integers(0, 11)) == 0:
                    attrs.append("final")
                body[p] = {"terms": terms, "attrs": attrs}
        classes.append(body)
    withs = []
    for _ in range(draw(st.integers(0, 4))):
        p = draw(st.sampled_from(CPROPS + ["ghost", "width", "length"]))
        withs.append([p, draw(st.integers(10, 99))])
    # porting.rst: in 2D mode a class default for `heading` becomes one for parentOrientation;
    # in 3D mode heading is derived (final) and cannot be overridden
    hd = None
    if draw(st.integers(0, 5)) == 0:
        hd = [draw(st.integers(0, depth - 1)), draw(st.integers(1, 12)) / 8]
    return {"family": "classes", "mode2D": draw(st.sampled_from([False, False, True])),
            "classes": classes, "withs": withs, "hd": hd, "bases": bases}


def class_bases(case):
    n = len(case["classes"])
    return case.get("bases") or [[] if k == 0 else [k - 1] for k in range(n)]


def class_mro(case, k):
    """Indices of class k and its ancestors, most derived first (Python's linearisation)."""
    made = []
    for i, bs in enumerate(class_bases(case)[:k + 1]):
        made.append(type(f"C{i}", tuple(made[j] for j in bs) or (object,), {"_i": i}))
    return [c.__dict__["_i"] for c in made[k].__mro__ if "_i" in c.__dict__]


def emit_classes(case):
    lines = ["ego = new Object at (500, 500)"]
    for k, body in enumerate(case["classes"]):
        bs = class_bases(case)[k]
        base = "(" + ", ".join(f"C{i}" for i in bs) + ")" if bs else ""
        lines.append(f"class C{k}{base}:")
        hd = case.get("hd")
        if hd and hd[0] == k:
            lines.append(f"    heading: {hd[1]!r}")
        elif not body:
            lines.append("    pass")
        for p, d in body.items():
            expr = " + ".join(str(t[1]) if t[0] == "c" else f"self.{t[1]}" for t in d["terms"])
            attr = f"[{', '.join(d['attrs'])}]" if d["attrs"] else ""
            lines.append(f"    {p}{attr}: {expr}")
    top = f"C{len(case['classes']) - 1}"
    lines.append("RESULTS = []")
    lines.append("def _get(o, p):\n    try:\n        return getattr(o, p)\n    except AttributeError:"
                 "\n        return 'absent'")
    specs = [f"with {p} {v}" for p, v in case["withs"]]
    for perm in itertools.permutations(range(len(specs))):
        sl = ", ".join(["at (0, 0)"] + [specs[i] for i in perm]) if True else ""
        lines.append("try:")
        lines.append(f"    _o = new {top} {sl}, with allowCollisions True, with requireVisible False")
        lines.append("    RESULTS.append(['ok', {p: _get(_o, p) for p in "
                     f"{OUT_PROPS!r}" + "}])")
        lines.append("except Exception as _e:")
        lines.append("    RESULTS.append(['error', _e])")
    lines.append("param results = RESULTS")
    return "\n".join(lines) + "\n"


def ref_classes(case):
    """Reference outcome: ('ok', {prop: value}) or ('error', kinds)."""
    classes = case["classes"]
    kinds = set()
    # class-level rules
    for k, body in enumerate(classes):
        for p, d in body.items():
            if "additive" in d["attrs"] and "dynamic" in d["attrs"]:
                kinds.add("additive-dynamic")
    for k in range(len(classes)):
        # a final default may not be overridden: it must come last among the defaults a class sees
        order = class_mro(case, k)
        for p in CPROPS:
            defs = [classes[i][p] for i in order if p in classes[i]]
            if any("final" in d["attrs"] for d in defs[1:]):
                kinds.add("final-overridden")
    hd = case.get("hd")
    if hd and not case["mode2D"]:
        kinds.add("final-overridden")
    mro = [classes[i] for i in class_mro(case, len(classes) - 1)]  # most derived first
    own = {}
    for p in CPROPS:
        defs = [b[p] for b in mro if p in b]
        if defs:
            own[p] = defs
    finals = {p for p, defs in own.items() if "final" in defs[0]["attrs"]}
    withs = {}
    for p, v in case["withs"]:
        if p in withs:
            kinds.add("ambiguous")
        withs[p] = v
        if p in finals:
            kinds.add("final-specified")
    builtin_vals = {"width": 1.0, "length": 1.0, "yaw": 0.0,
                    "heading": hd[1] if hd and case["mode2D"] else 0.0}
    specs = [{"name": f"with-{p}", "prios": {p: 1}, "deps": [], "modifiable": []}
             for p in withs]
    defaults = {p: [] for p in builtin_vals}
    for p, defs in own.items():
        deps = set()
        use = defs if "additive" in defs[0]["attrs"] else defs[:1]
        for d in use:
            deps.update(t[1] for t in d["terms"] if t[0] == "self")
        defaults[p] = sorted(deps)
    r = c06_ref.resolve(list({sp["name"]: sp for sp in specs}.values()), defaults, sorted(finals))
    if r["status"] == "error":
        kinds |= r["kinds"]
    if kinds:
        return "error", kinds
    vals = {}

    def value(p):
        if p in vals:
            return vals[p]
        if p in withs:
            v = withs[p]
        elif p in own:
            defs = own[p]

            def ev(d):
                return sum(t[1] if t[0] == "c" else value(t[1]) for t in d["terms"])

            v = tuple(ev(d) for d in defs) if "additive" in defs[0]["attrs"] else ev(defs[0])
        else:
            v = builtin_vals[p]
        vals[p] = v
        return v

    out = {}
    for p in OUT_PROPS:
        if p in withs or p in own or p in builtin_vals:
            out[p] = value(p)
        else:
            out[p] = "absent"
    return "ok", out


def judge_classes(case):
    import scenic
    from scenic.core.errors import InvalidScenarioError

    out = core.Outcome()
    shape = "chain" if all(len(b) <= 1 for b in class_bases(case)) else (
        "diamond" if len(case["classes"]) == 4 else "join")
    out.cls("shape:" + shape)
    out.cls("classes", f"depth:{len(case['classes'])}", f"withs:{len(case['withs'])}",
            "2D" if case["mode2D"] else "3D")
    src = emit_classes(case)
    status, exp = ref_classes(case)
    feats = set()
    for body in case["classes"]:
        for p, d in body.items():
            feats.update(d["attrs"])
            if any(t[0] == "self" for t in d["terms"]):
                feats.add("self-dep")
    if case.get("hd"):
        feats.add("heading-default")
    out.cls(*sorted("feat:" + f for f in feats))
    ndeps = sum(1 for body in case["classes"] for d in body.values()
                for t in d["terms"] if t[0] == "self")
    out.nontrivial = ndeps >= 2 or (ndeps >= 1 and bool(case["withs"]))
    out.cls("ref:ok" if status == "ok" else "ref:error:" + "+".join(sorted(exp)))
    try:
        with warnings.catch_warnings():
            warnings.simplefilter("ignore")
            sc = scenic.scenarioFromString(src, mode2D=case["mode2D"])
        results = sc.params["results"]
    except Exception as e:
        msg = str(e)
        kind = c06_hook.classify(e)
        if isinstance(e, InvalidScenarioError):
            if "cannot be overridden" in msg:
                kind = "final-overridden"
            elif "additive properties cannot be dynamic" in msg:
                kind = "additive-dynamic"
        results = [["error", e, kind]]
        if "dynamic" in feats and kind in ("missing-dependency", "cyclic"):
            # defining a class with a dynamic property evaluates all defaults without any
            # specifier; what that should do with defaults that need one is not documented
            if any(ref_classes(dict(case, classes=case["classes"][:k + 1], withs=[],
                                    bases=class_bases(case)[:k + 1]))[0] == "error"
                   for k in range(len(case["classes"]))):
                out.cls("unjudged:dynamic-defaults-evaluated-at-class-definition")
                return out
    obs = []
    for r in results:
        if r[0] == "ok":
            obs.append(("ok", {p: _plain(v) for p, v in r[1].items()}))
        else:
            obs.append(("error", r[2] if len(r) > 2 else c06_hook.classify(r[1]), r[1]))
    n_ok = sum(1 for o in obs if o[0] == "ok")
    kinds_seen = sorted({o[1] for o in obs if o[0] == "error"})
    cell = "classes:" + ("+".join(sorted(feats)) or "plain")
    if status == "error":
        if n_ok and n_ok < len(obs):
            out.fail(f"{cell}|accepted-in-some-orders:expected-" + "+".join(sorted(exp)), source=src)
        elif n_ok:
            out.fail(f"{cell}|accepted:expected-" + "+".join(sorted(exp)), source=src,
                     observed=obs[0][1])
        else:
            allowed = set(exp)
            if "ambiguous" in allowed:
                allowed.add("duplicate-name")
            bad = [k for k in kinds_seen if k not in allowed]
            if bad:
                o = next(o for o in obs if o[0] == "error" and o[1] in bad)
                out.fail(f"{cell}|error-kind:{bad[0]}:expected-" + "+".join(sorted(exp)),
                         source=src, message=str(o[2])[:300], where=core.exc_signature(o[2]))
        return out
    if n_ok < len(obs):
        o = next(o for o in obs if o[0] == "error")
        out.fail(f"{cell}|" + ("rejected-in-some-orders" if n_ok else "rejected") + f":{o[1]}",
                 source=src, message=str(o[2])[:300], where=core.exc_signature(o[2]),
                 expected=exp)
        return out
    expn = {p: _plain(v) for p, v in exp.items()}

    def same(a, b):
        # numbers up to rounding (a heading goes through an orientation and back: 0.875 comes
        # out as 0.8750000000000001), everything else exactly
        if isinstance(a, bool) or isinstance(b, bool):
            return a == b
        if isinstance(a, (int, float)) and isinstance(b, (int, float)):
            return abs(a - b) <= 1e-9 * max(1.0, abs(a), abs(b))
        if isinstance(a, (list, tuple)) and isinstance(b, (list, tuple)) and len(a) == len(b):
            return all(same(x, y) for x, y in zip(a, b))
        return a == b

    for o in obs:
        if not (set(o[1]) == set(expn) and all(same(o[1][p], expn[p]) for p in expn)):
            wrong = sorted(p for p in expn if p not in o[1] or not same(o[1][p], expn[p]))
            distinct = {json.dumps(x[1], sort_keys=True) for x in obs}
            out.fail(f"{cell}|" + ("order-dependent-values" if len(distinct) > 1 else "wrong-values"),
                     source=src, wrong_props=wrong, expected={p: expn[p] for p in wrong},
                     observed={p: o[1].get(p) for p in wrong})
            break
    return out


def _plain(v):
    if isinstance(v, bool):
        return v
    if isinstance(v, (int, float)):
        return float(v)
    if isinstance(v, (tuple, list)):
        return [_plain(x) for x in v]
    if isinstance(v, str):
        return v
    try:
        return float(v)
    except Exception:
        return repr(v)


# --------------------------------------------------------------------------------------------
# driver
# --------------------------------------------------------------------------------------------

def strategy():
    return st.one_of(synthetic_cases(), synthetic_cases(), class_cases(), class_cases(branchy=True))


def judge(case):
    fam = case["family"]
    if fam == "synthetic":
        return judge_synthetic(case)
    if fam == "classes":
        return judge_classes(case)
    if fam == "builtin":
        chunk = [(case["cls"], case["mode2D"], tuple(case["ids"]))]
        res = run_builtin_chunk(chunk, case["mode2D"])[0]
        return judge_builtin(case, res)
    if fam == "class-table":
        run_builtin_chunk([("Object", False, ("at",))], False)
        col = core.Collector(PROP, 0)
        table_checks(col, c06_hook.CONFIG["class_info"])
        out = core.Outcome(nontrivial=True, classes=["class-table"])
        for sig, ent in col.failures.items():
            for ex in ent["examples"]:
                out.fail(sig, **ex["detail"])
        return out
    raise core.HarnessError("unknown family " + fam)


def replay(case):
    c06_ref.selfcheck()
    return judge(case)


def plan(tier, seed, jobs):
    n = 150 if tier == "quick" else 6000
    return [{"seed": seed * 1000 + k, "n": n, "k": k, "of": jobs, "base_seed": seed}
            for k in range(jobs)]


def run_shard(shard, tier):
    c06_ref.selfcheck()
    col = core.Collector(PROP, shard["id"])
    known = shard.get("known_sigs", ())
    # builtin: this shard's slice of the (tier-wide, seed-deterministic) subset list
    subsets = builtin_subsets(tier, shard["base_seed"])
    mine = subsets[shard["k"]::shard["of"]]
    for mode2D in (False, True):
        part = [s for s in mine if s[1] == mode2D]
        for i in range(0, len(part), 400):
            chunk = part[i:i + 400]
            results = run_builtin_chunk(chunk, mode2D)
            for (clsname, _, ids), res in zip(chunk, results):
                case = {"family": "builtin", "cls": clsname, "mode2D": mode2D, "ids": list(ids)}
                col.add(case, judge_builtin(case, res))
            if shard["k"] == 0 and i == 0 and not mode2D:
                table_checks(col, c06_hook.CONFIG["class_info"])
    col.extra["exhaustive_shards"] = 1
    col.extra["builtin_subsets"] = len(mine)
    core.hyp_search(strategy(), judge, shard["n"], shard["seed"], col, known_sigs=known,
                    case_timeout=120, shrink_s=20 if tier == "quick" else 60)
    return col.result()
