"""C07 — built-in specifiers and operators have their documented geometric meaning.

A case is one Scenic program (an ego at a random 3D pose plus ~20 *items*); every item
instantiates one specifier/operator form on a reference entity at a random 3D pose with a
non-global parentOrientation.  The scene's objects/params are compared with closed forms
computed by vf.c07_geo (plain numpy, written from docs/reference + tutorials/fundamentals.rst).
A second kind of case exercises the Orientation/Vector algebra laws directly.
"""

from __future__ import annotations

import math
import random
import warnings

import numpy as np
from hypothesis import strategies as st

from vf import c07_geo as G
from vf import core

PROP = "C07"
NEEDS_PARSER = True
FLOOR = 0.60
RULE = ("Hypothesis-generated programs: an ego and ~20 items, each one specifier/operator form "
        "(directional x {vector, OrientedPoint, Object} x by {none, scalar, vector}; facing "
        "family; offset by / offset along / beyond / following / on; relative to / offset along / "
        "side-of operators; distance / angle / altitude / relative heading / apparent heading / "
        "deg / field at) on entities at random 3D poses (position, parentOrientation, local "
        "yaw/pitch/roll), random dimensions, contactTolerance and offsets; 1/4 of the items pass "
        "their numbers as degenerate random values Range(v, v) so the sample-time path is used. "
        "Plus algebra cases (100 random orientations each).  An item is non-trivial when the "
        "reference frame it uses differs from the identity by > 10 deg about >= 2 axes and its "
        "anchor position is >= 1 from the origin; a case is non-trivial when >= 2/3 of its items "
        "are; distinct = SHA-1 of the case.")
ASSUMPTIONS = [
    "numpy matrix products and scipy's Rotation (used only in the oracle self-check) are correct",
    "conventions (x right / y ahead / z up, heading 0 = +Y, CCW positive, intrinsic Z-X'-Y'' "
    "Euler angles, orientation = parentOrientation . local) as stated in docs/reference/data.rst "
    "and tutorials/fundamentals.rst, pinned to the documented examples by c07_geo.selfcheck()",
    "an Orientation is observed through its quaternion `q` (x, y, z, w); a Vector through x, y, z",
    "tolerance 1e-9 x scale on positions, 1e-9 rad on rotations (1e-6 in the gimbal-lock slice)",
    "without `by`, the gap to an Object may be contactTolerance/2 (classes.rst, statement) or "
    "contactTolerance (specifiers.rst): both accepted; direction of the contactTolerance/2 "
    "offset of `on` and the lateral components of a vector `by` are not judged (docs silent)",
]

DIRS = {  # specifier -> (axis index, sign)
    "left of": (0, -1), "right of": (0, 1), "behind": (1, -1), "ahead of": (1, 1),
    "below": (2, -1), "above": (2, 1),
}
SIDES = {"front": (1, 1), "back": (1, -1), "left": (0, -1), "right": (0, 1), "top": (2, 1),
         "bottom": (2, -1)}
SIDE_NAMES = (["front", "back", "left", "right", "top", "bottom"]
              + [f"{a} {b}" for a in ("front", "back") for b in ("left", "right")]
              + [f"{c} {a} {b}" for c in ("top", "bottom") for a in ("front", "back")
                 for b in ("left", "right")])

# --------------------------------------------------------------------------------------------
# emission helpers
# --------------------------------------------------------------------------------------------


def fnum(v):
    return repr(float(v))


def num(v, rnd=False):
    s = fnum(v)
    if rnd:
        return f"Range({s}, {s})"
    return f"({s})" if float(v) < 0 else s


def tup(vs, rnd=False):
    return "(" + ", ".join(f"Range({fnum(v)}, {fnum(v)})" if rnd else fnum(v) for v in vs) + ")"


def ori_expr(e):
    return "Orientation.fromEuler(" + ", ".join(fnum(v) for v in e) + ")"


def pose_specs(pose, rnd=False, at=True):
    parts = []
    if at:
        parts.append(f"at {tup(pose['pos'], rnd)}")
    if any(pose["par"]):
        parts.append(f"with parentOrientation {tup(pose['par'])}")
    for nm, v in zip(("yaw", "pitch", "roll"), pose["loc"]):
        if v != 0:
            parts.append(f"with {nm} {num(v, rnd)}")
    return parts


def dim_specs(d, rnd=False):
    return [f"with width {num(d[0], rnd)}", f"with length {num(d[1], rnd)}",
            f"with height {num(d[2], rnd)}"]


def new_obj(specs, tag):
    return ("new Object " + ", ".join(list(specs) + ["with allowCollisions True",
                                                     f'with tag "{tag}"']))


def field_src(idx, coef):
    """Field idx 0: heading-valued; idx 1: Euler-triple-valued.  Linear in the position."""
    if idx == 0:
        a0, ax, ay, az = coef
        return (f"def _ff0(pos):\n    return {fnum(a0)} + {fnum(ax)} * pos.x + {fnum(ay)} * pos.y"
                f" + {fnum(az)} * pos.z\nvf0 = VectorField('vf0', _ff0)\n")
    a0, ax, b0, by, c0, cz, ms, ss = coef
    return (f"def _ff1(pos):\n    return ({fnum(a0)} + {fnum(ax)} * pos.x, {fnum(b0)} + {fnum(by)}"
            f" * pos.y, {fnum(c0)} + {fnum(cz)} * pos.z)\n"
            f"vf1 = VectorField('vf1', _ff1, minSteps={int(ms)}, defaultStepSize={fnum(ss)})\n")


def field_fn(idx, coef):
    if idx == 0:
        a0, ax, ay, az = coef
        return lambda p: a0 + ax * p[0] + ay * p[1] + az * p[2]
    a0, ax, b0, by, c0, cz, ms, ss = coef
    return lambda p: (a0 + ax * p[0], b0 + by * p[1], c0 + cz * p[2])


def field_steps(idx, coef):
    return (4, 5.0) if idx == 0 else (int(coef[6]), float(coef[7]))


def ref_entity(name, kind, pose, dims, rnd):
    if kind == "obj":
        return f"{name} = new Object " + ", ".join(
            pose_specs(pose, rnd) + dim_specs(dims, rnd) + ["with allowCollisions True"])
    return f"{name} = new OrientedPoint " + ", ".join(pose_specs(pose, rnd))


def emit(case):
    lines = [field_src(0, case["f0"]), field_src(1, case["f1"])]
    e = case["ego"]
    lines.append("ego = new Object " + ", ".join(
        pose_specs(e["pose"]) + dim_specs(e["dims"]) + ["with allowCollisions True",
                                                        'with tag "ego"']))
    for i, it in enumerate(case["items"]):
        lines.extend(EMIT[it["k"]](i, it))
    return "\n".join(lines) + "\n"


# ---- per-kind emitters ----------------------------------------------------------------------

def e_dir(i, it):
    rnd = it["rnd"]
    out = []
    if it["ref"] == "vec":
        target = tup(it["rp"]["pos"], rnd)
        own = pose_specs(it["np"], False, at=False)
    else:
        out.append(ref_entity(f"ref{i}", it["ref"], it["rp"], it["rd"], rnd))
        target = f"ref{i}"
        own = []
    by = ""
    if isinstance(it["by"], list):
        by = f" by {tup(it['by'], rnd)}"
    elif it["by"] is not None:
        by = f" by {num(it['by'], rnd)}"
    out.append(new_obj([f"{it['d']} {target}{by}"] + own + dim_specs(it["nd"], rnd)
                       + [f"with contactTolerance {num(it['ct'], rnd)}"], f"t{i}"))
    return out


def e_facing(i, it):
    f = it["form"]
    specs = pose_specs(it["pose"], it["rnd"])
    if f == "heading":
        specs.append(f"facing {num(it['h'])}")
    elif f == "euler":
        specs.append(f"facing {tup(it['e'])}")
    elif f == "oobj":
        specs.append(f"facing {ori_expr(it['e'])}")
    elif f == "field":
        specs.append(f"facing vf{it['f']}")
    elif f == "relfield":
        specs.append(f"facing ({num(it['h'])} relative to vf{it['f']})")
    elif f == "fieldrel":
        specs.append(f"facing (vf{it['f']} relative to {num(it['h'])})")
    elif f in ("toward", "away", "dtoward", "daway"):
        kw = {"toward": "facing toward", "away": "facing away from",
              "dtoward": "facing directly toward", "daway": "facing directly away from"}[f]
        specs.append(f"{kw} {tup(it['t'], it['rnd'])}")
    elif f == "apparent":
        frm = "" if it["t"] is None else f" from {tup(it['t'], it['rnd'])}"
        specs.append(f"apparently facing {num(it['h'])}{frm}")
    else:
        raise ValueError(f)
    return [new_obj(specs, f"t{i}")]


def e_pos(i, it):
    f = it["form"]
    out = []
    rnd = it["rnd"]
    if f == "offby":
        spec = f"offset by {tup(it['v'], rnd)}"
    elif f == "offalong":
        spec = f"offset along {dir_expr(it['dir'])} by {tup(it['v'], rnd)}"
    elif f == "beyond":
        by = tup(it["by"], rnd) if isinstance(it["by"], list) else num(it["by"], rnd)
        frm = ""
        if it["q"] == "vec":
            frm = f" from {tup(it['qp']['pos'], rnd)}"
        elif it["q"] in ("op", "obj"):
            out.append(ref_entity(f"ref{i}", it["q"], it["qp"], it["qd"], rnd))
            frm = f" from ref{i}"
        spec = f"beyond {tup(it['p'], rnd)} by {by}{frm}"
    elif f == "following":
        frm = "" if it["p"] is None else f" from {tup(it['p'], rnd)}"
        spec = f"following vf{it['f']}{frm} for {num(it['dist'], rnd)}"
    else:
        raise ValueError(f)
    out.append(new_obj([spec], f"t{i}"))
    return out


def dir_expr(d):
    if d["t"] == "h":
        return num(d["h"])
    if d["t"] == "o":
        return ori_expr(d["e"])
    return f"vf{d['f']}"


def dir_R(d, at, case):
    if d["t"] == "h":
        return G.Rz(d["h"])
    if d["t"] == "o":
        return G.euler(*d["e"])
    return G.orient(field_fn(d["f"], case[f"f{d['f']}"])(at))


def e_on(i, it):
    f = it["form"]
    rnd = it["rnd"]
    out = []
    own = pose_specs(it["np"], False, at=False) + dim_specs(it["nd"], rnd) \
        + [f"with contactTolerance {num(it['ct'], rnd)}"]
    if it.get("bo") is not None:
        own.append(f"with baseOffset {tup(it['bo'])}")
    if f == "vec":
        specs = [f"on {tup(it['p'], rnd)}"]
    elif f in ("region", "region_mod"):
        pts = ", ".join(tup(p) for p in rect_points(it["rect"]))
        orient = "" if it["of"] is None else f", orientation=vf{it['of']}"
        out.append(f"reg{i} = PolygonalRegion([{pts}], z={fnum(it['rect'][5])}{orient})")
        specs = [f"on reg{i}"]
        if f == "region_mod":
            specs.insert(0, f"at {tup(it['p'], rnd)}")
    elif f in ("obj", "obj_mod"):
        out.append(ref_entity(f"ref{i}", "obj", it["rp"], it["rd"], rnd))
        specs = [f"on ref{i}"]
        if f == "obj_mod":
            specs.insert(0, f"at {tup(it['p'], rnd)}")
    elif f in ("vol_dir_region", "vol_dir_obj"):
        d = [0.0, 0.0, 0.0]
        d[it["ax"]] = 1.0
        rd = f", onDirection={tup(d)}" if f == "vol_dir_region" else ""
        out.append(f"reg{i} = BoxRegion(dimensions={tup(it['bd'])}, position={tup(it['bc'])}{rd})")
        specs = [f"at {tup(it['p'], rnd)}", f"on reg{i}"]
        if f == "vol_dir_obj":
            specs.append(f"with onDirection {tup(d)}")
    else:
        raise ValueError(f)
    out.append(new_obj(specs + own, f"t{i}"))
    return out


def rect_points(rect):
    cx, cy, h, w, l, z = rect
    R = G.Rz(h)
    pts = []
    for sx, sy in ((1, 1), (-1, 1), (-1, -1), (1, -1)):
        p = np.array([cx, cy, 0.0]) + R @ np.array([sx * w / 2, sy * l / 2, 0.0])
        pts.append([float(p[0]), float(p[1])])
    return pts


def arg_expr(i, a, slot):
    """Operand of a scalar/vector operator: vector literal, or a reference entity."""
    if a["t"] == "vec":
        return [], tup(a["pose"]["pos"], a.get("rnd", False))
    if a["t"] == "ego":
        return [], "ego"
    name = f"ref{i}{slot}"
    return [ref_entity(name, a["t"], a["pose"], a.get("dims"), a.get("rnd", False))], name


def e_op(i, it):
    f = it["form"]
    out = []
    if f in ("dist", "angle", "alt"):
        kw = {"dist": "distance", "angle": "angle", "alt": "altitude"}[f]
        pre, b = arg_expr(i, it["b"], "b")
        out += pre
        if it["a"] is None:
            expr = f"{kw} to {b}"
        else:
            pre, a = arg_expr(i, it["a"], "a")
            out += pre
            expr = f"{kw} from {a} to {b}"
    elif f == "relhead":
        expr = f"relative heading of {num(it['h'])}"
        if it["h2"] is not None:
            expr += f" from {num(it['h2'])}"
    elif f == "apphead":
        pre, a = arg_expr(i, it["a"], "a")
        out += pre
        expr = f"apparent heading of {a}"
        if it["p"] is not None:
            expr += f" from {tup(it['p'])}"
    elif f == "deg":
        expr = f"{num(it['h'])} deg"
    elif f == "fieldat":
        expr = f"vf{it['f']} at {tup(it['p'])}"
    elif f == "relvv":
        expr = f"{tup(it['v'])} {it['kw']} {tup(it['w'])}"
    elif f == "relvop":
        pre, a = arg_expr(i, it["a"], "a")
        out += pre
        v = tup(it["v"], it["rnd"])
        expr = {"rel": f"{v} relative to {a}", "off": f"{a} offset by {v}",
                "rev": f"{a} relative to {v}"}[it["kw"]]
    elif f == "offalong":
        expr = f"{tup(it['v'])} offset along {dir_expr(it['dir'])} by {tup(it['w'], it['rnd'])}"
    elif f == "relhh":
        expr = f"{num(it['h'])} relative to {num(it['h2'])}"
    elif f == "reloo":
        expr = f"{ori_expr(it['e'])} relative to {ori_expr(it['e2'])}"
    elif f == "side":
        pre, a = arg_expr(i, it["a"], "a")
        out += pre
        expr = f"{it['side']} of {a}"
    else:
        raise ValueError(f)
    out.append(f"param r{i} = {expr}")
    return out


EMIT = {"dir": e_dir, "facing": e_facing, "pos": e_pos, "on": e_on, "op": e_op}

# --------------------------------------------------------------------------------------------
# reading the implementation's values
# --------------------------------------------------------------------------------------------


def vec(v):
    if hasattr(v, "x"):
        return np.array([float(v.x), float(v.y), float(v.z)])
    return np.array([float(c) for c in v])  # a property given as a plain tuple stays one


def mat(o):
    return G.quat_to_matrix(o.q)


class Env:
    def __init__(self, case, scene):
        self.case = case
        self.objs = {}
        for o in scene.objects:
            t = getattr(o, "tag", None)
            if t is not None:
                self.objs[t] = o
        self.params = scene.params
        e = case["ego"]
        self.ego_c = np.array(e["pose"]["pos"], float)
        self.ego_R = G.pose_R(e["pose"])
        self.ego_dims = e["dims"]

    def arg(self, a):
        """(position, rotation or None, dims or None) of an operator operand by the oracle."""
        if a["t"] == "ego":
            return self.ego_c, self.ego_R, self.ego_dims
        c = np.array(a["pose"]["pos"], float)
        if a["t"] == "vec":
            return c, None, None
        return c, G.pose_R(a["pose"]), a.get("dims")


def scale_of(*xs):
    m = 1.0
    for x in xs:
        if x is None:
            continue
        for v in np.ravel(np.asarray(x, float)):
            m = max(m, abs(float(v)))
    return m


class J:
    """Collects the verdicts of one item."""

    def __init__(self, out, cell, src, item):
        self.out, self.cell, self.src, self.item = out, cell, src, item

    def pos(self, what, got, exp, scale, tolmul=1.0):
        tol = 1e-9 * scale * tolmul
        d = float(np.max(np.abs(np.asarray(got, float) - np.asarray(exp, float))))
        if not d <= tol:
            self.out.fail(f"{self.cell}|{what}", item=self.item, expected=list(map(float, exp)),
                          observed=list(map(float, got)), source=self.src)
            return False
        return True

    def rot(self, what, got, exp, tol=1e-9):
        a = G.rot_angle(np.asarray(got), np.asarray(exp))
        if not a <= tol:
            self.out.fail(f"{self.cell}|{what}", item=self.item, angle_between=a,
                          expected_euler=list(G.to_euler(exp)), observed_euler=list(G.to_euler(got)),
                          source=self.src)
            return False
        return True

    def ang(self, what, got, exp, tol=1e-9):
        if not G.angdiff(float(got), float(exp)) <= tol:
            self.out.fail(f"{self.cell}|{what}", item=self.item, expected=float(exp),
                          observed=float(got), source=self.src)
            return False
        return True

    def val(self, what, got, exp, tol):
        if not abs(float(got) - float(exp)) <= tol:
            self.out.fail(f"{self.cell}|{what}", item=self.item, expected=float(exp),
                          observed=float(got), source=self.src)
            return False
        return True


def frame_nontrivial(R, anchor):
    y, p, r = G.to_euler(R)
    big = sum(1 for a in (y, p, r) if abs(a) > math.radians(10))
    return big >= 2 and float(np.linalg.norm(anchor)) >= 1.0


def generic_object_checks(j, o, dims=None, gimbal=False):
    """Every object: orientation = parentOrientation . (yaw, pitch, roll); heading = global
    yaw; corners = the 8 box corners in the object's frame."""
    tol = 1e-6 if gimbal else 1e-9
    R = mat(o.orientation)
    Rexp = mat(o.parentOrientation) @ G.euler(float(o.yaw), float(o.pitch), float(o.roll))
    j.rot("orientation!=parent.local", R, Rexp, tol)
    y, p, r = G.to_euler(R)
    if abs(p) < math.radians(80):
        j.ang("heading!=global-yaw", o.heading, y, tol)
    c = vec(o.position)
    if dims is not None:
        exp = sorted(tuple(np.round(x, 6)) for x in G.box_corners(c, R, dims))
        got = [vec(x) for x in o.corners]
        sc = scale_of(c, dims)
        ok = len(got) == 8
        if ok:
            expc = G.box_corners(c, R, dims)
            for gpt in got:
                if min(float(np.max(np.abs(gpt - e))) for e in expc) > 1e-9 * sc * (1e3 if gimbal else 1):
                    ok = False
            for e in expc:
                if min(float(np.max(np.abs(gpt - e))) for gpt in got) > 1e-9 * sc * (1e3 if gimbal else 1):
                    ok = False
        if not ok:
            j.out.fail(f"{j.cell}|corners", item=j.item, expected=[list(map(float, e)) for e in exp],
                       observed=[list(map(float, g)) for g in got], source=j.src)


# --------------------------------------------------------------------------------------------
# per-kind judges; each returns (nontrivial, [classes])
# --------------------------------------------------------------------------------------------

def j_dir(i, it, env, out, src):
    cell = f"dir:{it['ref']}:by-" + (
        "none" if it["by"] is None else "vector" if isinstance(it["by"], list) else "scalar")
    j = J(out, cell, src, it)
    o = env.objs[f"t{i}"]
    axis, sign = DIRS[it["d"]]
    c = np.array(it["rp"]["pos"], float)
    cn = vec(o.position)
    R_new = mat(o.orientation)
    classes = [f"dir:{it['ref']}", "by:" + cell.rsplit("-", 1)[1]]
    if it["ref"] == "vec":
        R = G.pose_R({"par": it["np"]["par"], "loc": it["np"]["loc"]})
        j.rot("own-orientation", R_new, R)
        href = 0.0
    else:
        R = G.pose_R(it["rp"])
        # the new object inherits the reference's orientation as parentOrientation
        j.rot("parentOrientation-not-inherited", mat(o.parentOrientation), R)
        j.rot("orientation", R_new, R)
        href = it["rd"][axis] / 2 if it["ref"] == "obj" else 0.0
    n = R[:, axis] * sign
    delta = cn - c
    axial = float(n @ delta) - href - it["nd"][axis] / 2
    lateral = delta - n * float(n @ delta)
    sc = scale_of(c, cn, it["nd"], it["rd"] if it["ref"] == "obj" else None)
    tol = 1e-9 * sc
    by = it["by"]
    if by is None:
        if it["ref"] == "obj":
            classes.append("unjudged:contactTolerance-vs-half")
            if not (abs(axial - it["ct"] / 2) <= tol or abs(axial - it["ct"]) <= tol):
                out.fail(f"{cell}|gap", item=it, expected_gap=[it["ct"] / 2, it["ct"]],
                         observed_gap=axial, source=src)
        else:
            j.val("gap", axial, 0.0, tol)
        j.pos("lateral", lateral, [0, 0, 0], sc)
    elif isinstance(by, list):
        classes.append("unjudged:vector-by-lateral")
        j.val("gap", axial, by[axis], tol)
    else:
        j.val("gap", axial, by, tol)
        j.pos("lateral", lateral, [0, 0, 0], sc)
    generic_object_checks(j, o, it["nd"])
    return frame_nontrivial(R, c), classes


def j_facing(i, it, env, out, src):
    f = it["form"]
    pose = it["pose"]
    par = pose["par"]
    pk = "global" if not any(par) else "yaw-parent" if not (par[1] or par[2]) else "3d-parent"
    gimbal = bool(it.get("gimbal"))
    cell = f"facing:{f}:{pk}" + (":gimbal" if gimbal else "")
    j = J(out, cell, src, it)
    o = env.objs[f"t{i}"]
    tol = 1e-6 if gimbal else 1e-9
    c = np.array(pose["pos"], float)
    Rp = G.euler(*par)
    R = mat(o.orientation)
    classes = [f"facing:{f}", f"parent:{pk}"] + (["gimbal"] if gimbal else [])
    lp, lr = pose["loc"][1], pose["loc"][2]
    fld = (lambda k: field_fn(k, env.case[f"f{k}"]))
    if f == "heading":
        j.rot("global-orientation", R, G.Rz(it["h"]), tol)
    elif f in ("euler", "oobj"):
        j.rot("global-orientation", R, G.euler(*it["e"]), tol)
    elif f == "field":
        j.rot("global-orientation", R, G.orient(fld(it["f"])(c)), tol)
    elif f == "relfield":
        # "starting in the second direction and then rotating according to the first"
        j.rot("global-orientation", R, G.orient(fld(it["f"])(c)) @ G.Rz(it["h"]), tol)
    elif f == "fieldrel":
        j.rot("global-orientation", R, G.Rz(it["h"]) @ G.orient(fld(it["f"])(c)), tol)
    elif f in ("toward", "away", "dtoward", "daway"):
        t = np.array(it["t"], float)
        g = Rp.T @ ((t - c) if f in ("toward", "dtoward") else (c - t))
        if math.hypot(g[0], g[1]) < 1e-3 * max(1.0, abs(g[2])) and not gimbal:
            classes.append("near-boundary")
        elif f in ("toward", "away"):
            # only yaw is specified: pitch and roll keep the values given with `with`
            j.rot("global-orientation", R, Rp @ G.euler(G.azimuth(g), lp, lr), tol)
        else:
            Rexp = Rp @ G.euler(G.azimuth(g), G.altitude(g), lr)
            if gimbal:
                # straight up/down in the parent frame: only the forward axis is determined
                fw = R @ np.array([0.0, 1.0, 0.0])
                ge = (Rp @ g) / np.linalg.norm(g)
                if float(np.max(np.abs(fw - ge))) > 1e-6:
                    out.fail(f"{cell}|forward-axis", item=it, expected=list(ge), observed=list(fw),
                             source=src)
            else:
                j.rot("global-orientation", R, Rexp, tol)
                fw = R @ np.array([0.0, 1.0, 0.0])
                ge = (Rp @ g) / np.linalg.norm(g)
                j.pos("forward-axis", fw, ge, 1.0)
    elif f == "apparent":
        frm = env.ego_c if it["t"] is None else np.array(it["t"], float)
        d = c - frm
        y, p, r = G.to_euler(R)
        if math.hypot(d[0], d[1]) < 1e-6 or abs(p) > math.radians(80):
            classes.append("near-boundary")
        elif pk == "3d-parent":
            # two readings of "heading with respect to the line of sight" when the parent frame
            # is tilted: heading = global yaw, or yaw and line of sight both taken in the parent
            # frame (as `facing toward` does).  Either is accepted.
            classes.append("unjudged:apparent-3d-which-reading")
            g = Rp.T @ d
            if not (G.angdiff(G.wrap(y - G.azimuth(d)), it["h"]) <= tol
                    or G.angdiff(G.wrap(float(o.yaw) - G.azimuth(g)), it["h"]) <= tol):
                out.fail(f"{cell}|apparent-heading", item=it, expected=it["h"],
                         observed_global=G.wrap(y - G.azimuth(d)),
                         observed_in_parent_frame=G.wrap(float(o.yaw) - G.azimuth(g)), source=src)
        else:
            # heading of the object relative to the line of sight = given heading
            j.ang("apparent-heading", G.wrap(y - G.azimuth(d)), it["h"], tol)
        j.val("pitch-changed", o.pitch, lp, tol)
        j.val("roll-changed", o.roll, lr, tol)
    generic_object_checks(j, o, [1.0, 1.0, 1.0], gimbal)
    return frame_nontrivial(Rp, c), classes


def j_pos(i, it, env, out, src):
    f = it["form"]
    o = env.objs[f"t{i}"]
    cn = vec(o.position)
    case = env.case
    classes = [f"pos:{f}"]
    if f == "offby":
        j = J(out, "offset-by", src, it)
        v = np.array(it["v"], float)
        exp = env.ego_c + env.ego_R @ v
        j.pos("position", cn, exp, scale_of(exp, v))
        j.rot("parentOrientation", mat(o.parentOrientation), env.ego_R)
        nt = frame_nontrivial(env.ego_R, env.ego_c)
    elif f == "offalong":
        j = J(out, f"offset-along:{it['dir']['t']}", src, it)
        v = np.array(it["v"], float)
        Rd = dir_R(it["dir"], env.ego_c, case)
        exp = env.ego_c + Rd @ v
        j.pos("position", cn, exp, scale_of(exp, v))
        j.rot("parentOrientation", mat(o.parentOrientation), env.ego_R)
        classes.append(f"dir:{it['dir']['t']}")
        nt = frame_nontrivial(Rd, env.ego_c)
    elif f == "beyond":
        j = J(out, "beyond:by-" + ("vector" if isinstance(it["by"], list) else "scalar"), src, it)
        jo = J(out, "beyond:from-" + ("vector" if it["q"] == "vec" else "oriented"), src, it)
        p = np.array(it["p"], float)
        if it["q"] == "ego":
            qc, qR = env.ego_c, env.ego_R
        else:
            qc = np.array(it["qp"]["pos"], float)
            qR = G.pose_R(it["qp"]) if it["q"] in ("op", "obj") else np.eye(3)
        v = np.array(it["by"], float) if isinstance(it["by"], list) else np.array(
            [0.0, it["by"], 0.0])
        d = p - qc
        classes.append(f"beyond-from:{it['q']}")
        if math.hypot(d[0], d[1]) < 1e-3:
            classes.append("near-boundary")
        else:
            Rl = G.los_frame(d)
            exp = p + Rl @ v
            j.pos("position", cn, exp, scale_of(exp, p, v))
        # "parentOrientation is specified to be the orientation of the third argument if it is
        # an OrientedPoint (including Objects such as ego); otherwise the global coordinate system"
        jo.rot("parentOrientation", mat(o.parentOrientation), qR)
        nt = frame_nontrivial(G.los_frame(d), p)
    elif f == "following":
        j = J(out, f"following:vf{it['f']}", src, it)
        fn = field_fn(it["f"], case[f"f{it['f']}"])
        ms, ss = field_steps(it["f"], case[f"f{it['f']}"])
        start = env.ego_c if it["p"] is None else np.array(it["p"], float)
        exp = G.follow(fn, start, it["dist"], ms, ss)
        j.pos("position", cn, exp, scale_of(exp, start), 10.0)
        # orientation of the field at the resulting point (evaluated where the object is)
        j.rot("parentOrientation", mat(o.parentOrientation), G.orient(fn(cn)), 1e-8)
        nt = frame_nontrivial(G.orient(fn(start)), start)
    else:
        raise ValueError(f)
    generic_object_checks(j, o, [1.0, 1.0, 1.0])
    return nt, classes


def in_rect(q, rect, tol):
    cx, cy, h, w, l, z = rect
    loc = G.Rz(h).T @ (np.array([q[0], q[1], 0.0]) - np.array([cx, cy, 0.0]))
    return abs(loc[0]) <= w / 2 + tol and abs(loc[1]) <= l / 2 + tol


def j_on(i, it, env, out, src):
    f = it["form"]
    j = J(out, f"on:{f}" + ("" if it.get("of") is None else ":oriented"), src, it)
    o = env.objs[f"t{i}"]
    cn = vec(o.position)
    ct = it["ct"]
    classes = [f"on:{f}", "unjudged:on-offset-direction"]
    Robj = mat(o.orientation)
    bo = np.array(it["bo"], float) if it.get("bo") is not None else np.array(
        [0.0, 0.0, -it["nd"][2] / 2])
    j.pos("baseOffset-default", vec(o.baseOffset), bo, scale_of(bo))
    # base of the object; generated so that the global and the object-local reading of
    # baseOffset coincide (rotation about the offset's own axis, or no rotation)
    base = cn + bo
    sc = scale_of(cn, bo)
    tol = 1e-9 * sc
    if f == "vec":
        p = np.array(it["p"], float)
        j.val("base-distance", float(np.linalg.norm(base - p)), ct / 2, tol)
        nt = float(np.linalg.norm(p)) >= 1
    elif f in ("region", "region_mod"):
        rect = it["rect"]
        z = rect[5]
        j.val("base-height", abs(base[2] - z), ct / 2, tol)
        if not in_rect(base, rect, 1e-7 * sc):
            out.fail(f"{j.cell}|base-outside-region", item=it, observed=list(base), source=src)
        if f == "region_mod":
            # projection along the default direction of a horizontal region keeps x, y
            j.pos("projection-moved-xy", base[:2], it["p"][:2], sc)
        if it["of"] is not None:
            fn = field_fn(it["of"], env.case[f"f{it['of']}"])
            pt = np.array([base[0], base[1], z])
            j.rot("parentOrientation", mat(o.parentOrientation), G.orient(fn(pt)), 1e-8)
        else:
            j.rot("own-orientation", Robj, G.pose_R({"par": it["np"]["par"],
                                                    "loc": it["np"]["loc"]}))
        nt = True
    elif f in ("vol_dir_region", "vol_dir_obj"):
        # "we find the closest point in the region along onDirection (or its negation)"; the
        # direction comes from the object, or else from the region ("a region can either specify
        # a default value to be used, or ...")
        p = np.array(it["p"], float)
        c, d, ax = np.array(it["bc"], float), np.array(it["bd"], float), it["ax"]
        hit = p.copy()
        hit[ax] = c[ax] + (d[ax] / 2 if p[ax] > c[ax] else -d[ax] / 2)
        j.val("base-distance-from-projection", float(np.linalg.norm(base - hit)), ct / 2,
              1e-7 * sc)
        nt = True
    else:
        rc = np.array(it["rp"]["pos"], float)
        Rr = G.pose_R(it["rp"])  # yaw only
        top = rc[2] + it["rd"][2] / 2
        j.val("base-height", abs(base[2] - top), ct / 2, 1e-7 * sc)
        yaw = G.to_euler(Rr)[0]
        if not in_rect(base, [rc[0], rc[1], yaw, it["rd"][0], it["rd"][1], top], 1e-6 * sc):
            out.fail(f"{j.cell}|base-outside-top-face", item=it, observed=list(base), source=src)
        if f == "obj_mod":
            j.pos("projection-moved-xy", base[:2], it["p"][:2], sc, 100.0)
        nt = True
    generic_object_checks(j, o, it["nd"])
    return nt, classes


def j_op(i, it, env, out, src):
    f = it["form"]
    r = env.params[f"r{i}"]
    classes = [f"op:{f}"]
    nt = True
    if f in ("dist", "angle", "alt"):
        ac, aR, _ = env.arg(it["a"]) if it["a"] is not None else (env.ego_c, env.ego_R, None)
        bc, _, _ = env.arg(it["b"])
        cell = f"op:{f}:" + ("ego" if it["a"] is None else it["a"]["t"]) + "-" + it["b"]["t"]
        j = J(out, cell, src, it)
        d = bc - ac
        if f == "dist":
            j.val("value", r, float(np.sqrt(d @ d)), 1e-9 * scale_of(ac, bc))
        elif math.hypot(d[0], d[1]) < 1e-6:
            classes.append("near-boundary")
        elif f == "angle":
            j.ang("value", r, G.azimuth(d))
        else:
            j.ang("value", r, G.altitude(d))
        nt = float(np.linalg.norm(ac)) >= 1 and abs(d[2]) > 0.1
    elif f == "relhead":
        j = J(out, "op:relhead:" + ("ego" if it["h2"] is None else "from"), src, it)
        if it["h2"] is None:
            y, p, _ = G.to_euler(env.ego_R)
            if abs(p) > math.radians(80):
                classes.append("near-boundary")
            else:
                j.ang("value", r, G.wrap(it["h"] - y))
            nt = frame_nontrivial(env.ego_R, env.ego_c)
        else:
            j.ang("value", r, G.wrap(it["h"] - it["h2"]))
            if not -math.pi - 1e-12 <= float(r) <= math.pi + 1e-12:
                out.fail(f"{j.cell}|not-normalized", item=it, observed=float(r), source=src)
    elif f == "apphead":
        ac, aR, _ = env.arg(it["a"])
        frm = env.ego_c if it["p"] is None else np.array(it["p"], float)
        j = J(out, f"op:apphead:{it['a']['t']}", src, it)
        d = ac - frm
        y, p, _ = G.to_euler(aR)
        if math.hypot(d[0], d[1]) < 1e-6 or abs(p) > math.radians(80):
            classes.append("near-boundary")
        else:
            j.ang("value", r, G.wrap(y - G.azimuth(d)))
        nt = frame_nontrivial(aR, ac)
    elif f == "deg":
        J(out, "op:deg", src, it).val("value", r, it["h"] * math.pi / 180,
                                      1e-12 * max(1.0, abs(it["h"])))
        nt = True
    elif f == "fieldat":
        fn = field_fn(it["f"], env.case[f"f{it['f']}"])
        J(out, f"op:field-at:vf{it['f']}", src, it).rot("value", mat(r), G.orient(fn(it["p"])))
        nt = frame_nontrivial(G.orient(fn(it["p"])), it["p"])
    elif f == "relvv":
        exp = np.array(it["v"], float) + np.array(it["w"], float)
        J(out, "op:vector-relative-to-vector", src, it).pos("value", vec(r), exp, scale_of(exp))
    elif f == "relvop":
        ac, aR, _ = env.arg(it["a"])
        j = J(out, f"op:vector-relative-to-{it['a']['t']}:{it['kw']}", src, it)
        v = np.array(it["v"], float)
        exp = ac + aR @ v
        j.pos("position", vec(r.position), exp, scale_of(exp, v))
        j.rot("orientation", mat(r.orientation), aR)
        nt = frame_nontrivial(aR, ac)
    elif f == "offalong":
        j = J(out, f"op:offset-along:{it['dir']['t']}", src, it)
        v = np.array(it["v"], float)
        w = np.array(it["w"], float)
        Rd = dir_R(it["dir"], v, env.case)
        exp = v + Rd @ w
        j.pos("value", vec(r), exp, scale_of(exp, w))
        nt = frame_nontrivial(Rd, v)
    elif f == "relhh":
        jj = J(out, "op:heading-relative-to-heading", src, it)
        if hasattr(r, "q"):  # "the orientation obtained by ..." (operators.rst): either type is fine
            jj.rot("value", mat(r), G.Rz(it["h"] + it["h2"]))
        else:
            jj.ang("value", r, it["h"] + it["h2"])
    elif f == "reloo":
        # start in the second direction, then rotate according to the first
        exp = G.euler(*it["e2"]) @ G.euler(*it["e"])
        J(out, "op:orientation-relative-to-orientation", src, it).rot("value", mat(r), exp)
        nt = frame_nontrivial(G.euler(*it["e2"]), [9, 9, 9]) and frame_nontrivial(
            G.euler(*it["e"]), [9, 9, 9])
    elif f == "side":
        ac, aR, dims = env.arg(it["a"])
        j = J(out, f"op:side:{len(it['side'].split())}", src, it)
        off = np.zeros(3)
        for w_ in it["side"].split():
            ax, sg = SIDES[w_]
            off[ax] = sg * dims[ax] / 2
        exp = ac + aR @ off
        j.pos("position", vec(r.position), exp, scale_of(exp, dims))
        j.rot("orientation", mat(r.orientation), aR)
        nt = frame_nontrivial(aR, ac)
    else:
        raise ValueError(f)
    return nt, classes


JUDGE = {"dir": j_dir, "facing": j_facing, "pos": j_pos, "on": j_on, "op": j_op}

# --------------------------------------------------------------------------------------------
# algebra cases
# --------------------------------------------------------------------------------------------


def judge_algebra(case):
    from scenic.core.vectors import Orientation, Vector

    out = core.Outcome()
    out.cls("algebra")
    rng = random.Random(case["seed"])
    gim = case["gimbal"]
    n_nt = 0
    for k in range(case["n"]):
        def ang(lim=math.pi):
            return rng.uniform(-lim, lim)

        e1 = [ang(), (rng.choice([-1, 1]) * math.pi / 2) if gim else ang(1.39), ang()]
        e2 = [ang(), ang(1.39), ang()]
        v = [rng.uniform(-50, 50) for _ in range(3)]
        h = ang()
        item = {"e1": e1, "e2": e2, "v": v, "h": h}
        tol = 1e-6 if gim else 1e-9
        sfx = ":gimbal" if gim else ""
        j = J(out, "algebra" + sfx, None, item)
        o1, o2 = Orientation.fromEuler(*e1), Orientation.fromEuler(*e2)
        M1, M2 = G.euler(*e1), G.euler(*e2)
        j.rot("fromEuler", mat(o1), M1, 1e-9)
        j.rot("inverse", mat(o1 * o1.inverse), np.eye(3), 1e-9)
        j.rot("inverse-left", mat(o1.inverse * o1), np.eye(3), 1e-9)
        j.rot("composition-order", mat(o1 * o2), M1 @ M2, 1e-9)
        j.rot("euler-roundtrip", mat(Orientation.fromEuler(*o1.eulerAngles)), M1, tol)
        j.rot("yaw-pitch-roll-attrs", G.euler(o1.yaw, o1.pitch, o1.roll), M1, tol)
        la = o1.localAnglesFor(o2)
        j.rot("localAnglesFor", M1 @ G.euler(*la), M2, tol)
        ga = o1.globalToLocalAngles(*e2)
        j.rot("globalToLocalAngles", M1 @ G.euler(*ga), M2, tol)
        j.rot("heading-coercion", mat(Orientation._fromHeading(h)), G.Rz(h), 1e-9)
        j.rot("add-heading", mat(o1 + h), M1 @ G.Rz(h), 1e-9)
        j.rot("radd-heading", mat(h + o1), G.Rz(h) @ M1, 1e-9)
        V = Vector(*v)
        sc = scale_of(v)
        j.pos("applyRotation", vec(V.applyRotation(o1)), M1 @ np.array(v), sc)
        j.pos("rotatedBy-orientation", vec(V.rotatedBy(o1)), M1 @ np.array(v), sc)
        j.pos("rotatedBy-heading", vec(V.rotatedBy(h)), G.Rz(h) @ np.array(v), sc)
        j.pos("offsetLocally", vec(Vector(1, 2, 3).offsetLocally(o1, V)),
              np.array([1.0, 2.0, 3.0]) + M1 @ np.array(v), sc)
        # heading 0 = +Y, +90 deg = -X
        j.pos("heading-zero", vec(Vector(0, 1, 0).rotatedBy(0.0)), [0, 1, 0], 1.0)
        j.pos("heading-90", vec(Vector(0, 1, 0).rotatedBy(math.pi / 2)), [-1, 0, 0], 1.0)
        sph = V.sphericalCoordinates()
        if math.hypot(v[0], v[1]) > 1e-6:
            j.val("spherical-rho", sph[0], float(np.linalg.norm(v)), 1e-9 * sc)
            j.ang("spherical-theta", sph[1], G.azimuth(v))
            j.ang("spherical-phi", sph[2], G.altitude(v))
            j.ang("angleTo", Vector(0, 0, 0).angleTo(V), G.azimuth(v))
            j.ang("altitudeTo", Vector(0, 0, 0).altitudeTo(V), G.altitude(v))
        if frame_nontrivial(M1, v):
            n_nt += 1
    out.nontrivial = n_nt >= case["n"] // 2
    if gim:
        out.cls("gimbal")
    return out


# --------------------------------------------------------------------------------------------
# judge
# --------------------------------------------------------------------------------------------

_checked = False


def startup():
    global _checked
    if not _checked:
        G.selfcheck()
        _checked = True


def build(src, seed):
    import scenic

    random.seed(seed)
    np.random.seed(seed % (2 ** 32))
    try:
        with warnings.catch_warnings():
            warnings.simplefilter("ignore")
            sc = scenic.scenarioFromString(src, mode2D=False)
            scene, _ = sc.generate(maxIterations=200, verbosity=0)
        return scene, None
    except Exception as e:  # every generated program is valid: a failure is a finding
        return None, e


def any_random(it):
    if it.get("rnd"):
        return True
    return any(isinstance(it.get(k), dict) and it[k].get("rnd") and it[k].get("t") != "ego"
               for k in ("a", "b"))


def item_cell(it):
    """Structural cell of an item that makes the program fail ('~' = some operand is random)."""
    r = "~" if any_random(it) else ""
    if it["k"] == "dir":
        return f"dir:{it['d'].split()[0]}:{it['ref']}{r}"
    return f"{it['k']}:{it['form']}{r}"


def isolate(case, items, out):
    """Group testing: which items make the program fail on their own?  Returns the good ones."""
    if not items:
        return []
    sub = dict(case, items=[it for _, it in items])
    _, e = build(emit(sub), case["seed"])
    if e is None:
        return list(items)
    if len(items) == 1:
        it = items[0][1]
        out.fail(f"{item_cell(it)}|" + core.exc_signature(e), error=repr(e)[:400], item=it,
                 source=emit(sub))
        out.cls("item-raises")
        return []
    h = len(items) // 2
    return isolate(case, items[:h], out) + isolate(case, items[h:], out)


def judge(case):
    startup()
    if case["kind"] == "algebra":
        return judge_algebra(case)
    out = core.Outcome()
    src = emit(case)
    scene, err = build(src, case["seed"])
    items = list(enumerate(case["items"]))
    if err is not None:
        # attribute the failure to the items that fail on their own, judge the others
        h = len(items) // 2
        good = isolate(case, items[:h], out) + isolate(case, items[h:], out)
        if len(good) == len(items):
            out.fail("program|" + core.exc_signature(err), error=repr(err)[:500], source=src)
            return out
        case = dict(case, items=[it for _, it in good])
        items = list(enumerate(case["items"]))
        src = emit(case)
        scene, err = build(src, case["seed"])
        if err is not None:
            out.fail("program|" + core.exc_signature(err), error=repr(err)[:500], source=src)
            return out
    env = Env(case, scene)
    nts = 0
    for i, it in items:
        try:
            nt, classes = JUDGE[it["k"]](i, it, env, out, emit(dict(case, items=[it])))
        except KeyError as e:
            raise core.HarnessError(f"item {i} not observable: {e!r}\n{src}")
        out.cls(*classes)
        out.cls("rnd" if it.get("rnd") else "const")
        if nt:
            nts += 1
            out.cls("item-nontrivial")
        else:
            out.cls("item-trivial")
    out.nontrivial = bool(items) and nts * 3 >= 2 * len(items)
    return out


def replay(case):
    return judge(case)


# --------------------------------------------------------------------------------------------
# strategies
# --------------------------------------------------------------------------------------------

def _grid(lo, hi, q=100):
    return st.integers(int(lo * q), int(hi * q)).map(lambda k: k / q)


SIGN = st.sampled_from([-1.0, 1.0])


@st.composite
def coord(draw):
    return draw(SIGN) * draw(_grid(1.0, 60.0))


@st.composite
def position(draw):
    return [draw(coord()), draw(coord()), draw(coord())]


@st.composite
def angle(draw, lim=3.0, zero_ok=True):
    if zero_ok and draw(st.integers(0, 5)) == 0:
        return 0.0
    return draw(SIGN) * draw(_grid(0.2, lim, 1000))


@st.composite
def euler3(draw, zero_ok=True):
    return [draw(angle(3.0, zero_ok)), draw(angle(1.35, zero_ok)), draw(angle(3.0, zero_ok))]


@st.composite
def pose(draw, plain=False):
    if plain:
        return {"pos": draw(position()), "par": [0.0, 0.0, 0.0], "loc": [0.0, 0.0, 0.0]}
    mode = draw(st.integers(0, 9))
    par = draw(euler3())
    loc = draw(euler3())
    if mode == 0:
        par = [0.0, 0.0, 0.0]
    elif mode == 1:
        loc = [0.0, 0.0, 0.0]
    elif mode == 2:
        par, loc = [par[0], 0.0, 0.0], [loc[0], 0.0, 0.0]  # planar
    # keep the composite away from gimbal lock
    y, p, r = G.to_euler(G.euler(*par) @ G.euler(*loc))
    if abs(p) > math.radians(78):
        loc = [loc[0], 0.0, loc[2]]
        y, p, r = G.to_euler(G.euler(*par) @ G.euler(*loc))
        if abs(p) > math.radians(78):
            par = [par[0], par[1] / 3, par[2]]
    return {"pos": draw(position()), "par": par, "loc": loc}


def yaw_pose(draw):
    return {"pos": draw(position()), "par": [draw(angle()), 0.0, 0.0],
            "loc": [draw(angle()), 0.0, 0.0]}


dims3 = st.lists(_grid(0.2, 5.0), min_size=3, max_size=3)
vec3 = st.lists(_grid(-8.0, 8.0), min_size=3, max_size=3)
RND = st.integers(0, 3).map(lambda k: k == 0)


@st.composite
def direction(draw):
    t = draw(st.sampled_from(["h", "o", "o", "f"]))
    if t == "h":
        return {"t": "h", "h": draw(angle(3.0, False))}
    if t == "o":
        return {"t": "o", "e": draw(euler3(False))}
    return {"t": "f", "f": draw(st.integers(0, 1))}


@st.composite
def operand(draw, kinds=("vec", "op", "obj", "ego")):
    t = draw(st.sampled_from(kinds))
    if t == "ego":
        return {"t": "ego"}
    a = {"t": t, "pose": draw(pose()), "rnd": draw(RND)}
    if t == "obj":
        a["dims"] = draw(dims3)
    return a


@st.composite
def item(draw):
    k = draw(st.sampled_from(["dir"] * 6 + ["facing"] * 5 + ["pos"] * 4 + ["on"] * 2 + ["op"] * 6))
    rnd = draw(RND)
    if k == "dir":
        ref = draw(st.sampled_from(["vec", "op", "obj", "obj"]))
        byk = draw(st.sampled_from(["none", "scalar", "scalar", "vector"]))
        by = None if byk == "none" else draw(_grid(0.0, 8.0)) if byk == "scalar" else \
            [draw(_grid(0.0, 8.0)) for _ in range(3)]
        if byk == "scalar" and draw(st.integers(0, 5)) == 0:
            by = 0.0  # an explicit distance of exactly 0 is a distance, not "no distance given"
        np_ = draw(pose())
        return {"k": "dir", "d": draw(st.sampled_from(sorted(DIRS))), "ref": ref,
                "rp": draw(pose()), "rd": draw(dims3), "by": by, "nd": draw(dims3),
                "ct": draw(_grid(0.02, 0.6, 1000)), "np": {"par": np_["par"], "loc": np_["loc"]},
                "rnd": rnd}
    if k == "facing":
        f = draw(st.sampled_from(["heading", "euler", "oobj", "field", "relfield", "fieldrel",
                                  "toward", "away", "dtoward", "daway", "apparent", "apparent"]))
        ps = draw(pose())
        ps["loc"] = [0.0, 0.0, 0.0]
        it = {"k": "facing", "form": f, "pose": ps, "rnd": rnd}
        if f in ("heading", "relfield", "fieldrel", "apparent"):
            it["h"] = draw(angle(3.0, False))
        if f in ("euler", "oobj"):
            it["e"] = draw(euler3(False))
            if draw(st.integers(0, 19)) == 0:
                # gimbal-lock slice: the local orientation has pitch = +-90 deg
                it["gimbal"] = True
                it["e"][1] = draw(SIGN) * math.pi / 2
                ps["par"] = [ps["par"][0], 0.0, 0.0]
        if f in ("field", "relfield", "fieldrel"):
            it["f"] = draw(st.integers(0, 1))
        if f in ("toward", "away", "dtoward", "daway"):
            it["t"] = draw(position())
            if f in ("toward", "away") and draw(st.booleans()):
                ps["loc"] = [0.0, draw(angle(1.2)), draw(angle(3.0))]
            elif draw(st.booleans()):
                ps["loc"] = [0.0, 0.0, draw(angle(3.0))]
            if f in ("dtoward", "daway") and draw(st.integers(0, 19)) == 0:
                it["gimbal"] = True  # target straight above/below in the (yaw-only) parent frame
                ps["par"] = [ps["par"][0], 0.0, 0.0]
                ps["loc"] = [0.0, 0.0, 0.0]
                it["t"] = [ps["pos"][0], ps["pos"][1], ps["pos"][2] + draw(SIGN) * 5.0]
        if f == "apparent":
            it["t"] = draw(st.one_of(st.none(), position()))
            if draw(st.booleans()):
                ps["loc"] = [0.0, draw(angle(1.2)), draw(angle(3.0))]
            if draw(st.integers(0, 2)) == 0:
                ps["par"] = [ps["par"][0], 0.0, 0.0]
        return it
    if k == "pos":
        f = draw(st.sampled_from(["offby", "offalong", "beyond", "beyond", "following"]))
        it = {"k": "pos", "form": f, "rnd": rnd}
        if f == "offby":
            it["v"] = draw(vec3)
        elif f == "offalong":
            it["v"] = draw(vec3)
            it["dir"] = draw(direction())
        elif f == "beyond":
            it["p"] = draw(position())
            it["by"] = draw(st.one_of(_grid(0.0, 8.0), vec3))
            it["q"] = draw(st.sampled_from(["ego", "vec", "op", "obj"]))
            it["qp"] = draw(pose())
            it["qd"] = draw(dims3)
            # keep the line of sight away from vertical
            if math.hypot(it["p"][0] - it["qp"]["pos"][0], it["p"][1] - it["qp"]["pos"][1]) < 0.5:
                it["qp"]["pos"][0] += 3.0
        else:
            it["f"] = draw(st.integers(0, 1))
            it["p"] = draw(st.one_of(st.none(), position()))
            it["dist"] = draw(_grid(0.5, 30.0))
        return it
    if k == "on":
        # (modifying `on` with a PolygonalRegion raises a documented NotImplementedError: not generated)
        f = draw(st.sampled_from(["vec", "region", "obj", "obj_mod", "obj_mod", "vol_dir_region",
                                  "vol_dir_obj"]))
        it = {"k": "on", "form": f, "rnd": rnd, "nd": draw(dims3),
              "ct": draw(_grid(0.02, 0.6, 1000)), "bo": None, "of": None}
        if draw(st.booleans()):
            # rotation about the (vertical) base offset: both readings of baseOffset coincide
            it["np"] = {"par": [draw(angle()), 0.0, 0.0], "loc": [draw(angle()), 0.0, 0.0]}
        else:
            it["np"] = {"par": [0.0, 0.0, 0.0], "loc": [0.0, 0.0, 0.0]}
            if draw(st.booleans()):
                it["bo"] = draw(vec3)
        if f == "vec":
            it["p"] = draw(position())
        elif f in ("vol_dir_region", "vol_dir_obj"):
            it["bc"] = draw(position())
            it["bd"] = [draw(_grid(2.0, 12.0)) for _ in range(3)]
            it["ax"] = draw(st.integers(0, 1))
            it["bo"] = None
            p = [it["bc"][k] + draw(_grid(-0.4, 0.4)) * it["bd"][k] for k in range(3)]
            p[it["ax"]] = it["bc"][it["ax"]] + draw(SIGN) * (it["bd"][it["ax"]] / 2
                                                          + draw(_grid(0.5, 20.0)))
            it["p"] = [float(x) for x in p]
        elif f in ("region", "region_mod"):
            w, l = draw(_grid(2.0, 20.0)), draw(_grid(2.0, 20.0))
            it["rect"] = [draw(coord()), draw(coord()), draw(angle()), w, l, draw(coord())]
            if draw(st.booleans()):
                it["of"] = 0  # heading-valued preferred orientation
                it["bo"] = None
                it["np"] = {"par": [0.0, 0.0, 0.0], "loc": [0.0, 0.0, 0.0]}
            if f == "region_mod":
                u, v = draw(_grid(-0.4, 0.4)), draw(_grid(-0.4, 0.4))
                q = np.array(it["rect"][:2] + [0.0]) + G.Rz(it["rect"][2]) @ np.array(
                    [u * w, v * l, 0.0])
                it["p"] = [float(q[0]), float(q[1]),
                           it["rect"][5] + draw(SIGN) * draw(_grid(0.5, 20.0))]
        else:
            it["rp"] = yaw_pose(draw)
            it["rd"] = [draw(_grid(2.0, 8.0)), draw(_grid(2.0, 8.0)), draw(_grid(0.5, 5.0))]
            if f == "obj_mod":
                u, v = draw(_grid(-0.35, 0.35)), draw(_grid(-0.35, 0.35))
                R = G.pose_R(it["rp"])
                q = np.array(it["rp"]["pos"]) + R @ np.array([u * it["rd"][0], v * it["rd"][1], 0.0])
                it["p"] = [float(q[0]), float(q[1]),
                           it["rp"]["pos"][2] + it["rd"][2] / 2 + draw(_grid(0.5, 20.0))]
        return it
    # operators
    f = draw(st.sampled_from(["dist", "angle", "alt", "relhead", "apphead", "deg", "fieldat",
                              "relvv", "relvop", "relvop", "offalong", "relhh", "reloo", "side",
                              "side"]))
    it = {"k": "op", "form": f, "rnd": rnd}
    if f in ("dist", "angle", "alt"):
        it["a"] = draw(st.one_of(st.none(), operand(("vec", "op", "obj"))))
        it["b"] = draw(operand(("vec", "op", "obj")))
        if it["a"] is not None and math.hypot(
                it["a"]["pose"]["pos"][0] - it["b"]["pose"]["pos"][0],
                it["a"]["pose"]["pos"][1] - it["b"]["pose"]["pos"][1]) < 0.5:
            it["b"]["pose"]["pos"][0] += 3.0
    elif f == "relhead":
        it["h"] = draw(angle(3.0, False))
        it["h2"] = draw(st.one_of(st.none(), angle(3.0, False)))
    elif f == "apphead":
        it["a"] = draw(operand(("op", "obj", "ego")))
        it["p"] = draw(st.one_of(st.none(), position())) if it["a"]["t"] != "ego" else \
            draw(position())
    elif f == "deg":
        it["h"] = draw(_grid(-720.0, 720.0))
    elif f == "fieldat":
        it["f"] = draw(st.integers(0, 1))
        it["p"] = draw(position())
    elif f == "relvv":
        it["v"], it["w"] = draw(vec3), draw(position())
        it["kw"] = draw(st.sampled_from(["relative to", "offset by"]))
    elif f == "relvop":
        it["a"] = draw(operand(("op", "obj", "ego")))
        it["v"] = draw(vec3)
        it["kw"] = draw(st.sampled_from(["rel", "off", "rev"]))
    elif f == "offalong":
        it["v"], it["w"], it["dir"] = draw(position()), draw(vec3), draw(direction())
    elif f == "relhh":
        it["h"], it["h2"] = draw(angle(3.0, False)), draw(angle(3.0, False))
    elif f == "reloo":
        it["e"], it["e2"] = draw(euler3(False)), draw(euler3(False))
    elif f == "side":
        it["a"] = draw(operand(("obj", "obj", "ego")))
        it["side"] = draw(st.sampled_from(SIDE_NAMES))
    return it


@st.composite
def cases(draw, nitems=20):
    if draw(st.integers(0, 19)) == 0:
        return {"kind": "algebra", "seed": draw(st.integers(0, 2 ** 31)), "n": 100,
                "gimbal": draw(st.integers(0, 4)) == 0}
    small = st.integers(-30, 30).map(lambda k: k / 1000)
    f0 = [draw(angle()), draw(small), draw(small), draw(small)]
    f1 = [draw(angle()), draw(small), draw(angle(0.8)), draw(small) / 6, draw(angle()), draw(small),
          draw(st.integers(2, 6)), draw(_grid(0.5, 6.0))]
    n = draw(st.integers(max(1, nitems - 6), nitems))
    return {"kind": "scene", "seed": draw(st.integers(0, 2 ** 31)), "f0": f0, "f1": f1,
            "ego": {"pose": draw(pose()), "dims": draw(dims3)},
            "items": [draw(item()) for _ in range(n)]}


def plan(tier, seed, jobs):
    n = 60 if tier == "quick" else 2500
    return [{"seed": seed * 1000 + k, "n": n} for k in range(jobs)]


def reduce_failures(col, known_sigs):
    """Cheap deterministic shrinking: a failing item fails alone (ego + that item)."""
    import fnmatch

    for sig, ent in list(col.failures.items()):
        if any(fnmatch.fnmatchcase(sig, k) for k in known_sigs):
            continue
        ex = ent["examples"][0]
        item, case = ex["detail"].get("item"), ex["case"]
        if not isinstance(item, dict) or "k" not in item or case.get("kind") != "scene":
            continue
        small = dict(case, items=[item])
        res = judge(small)
        for s2, d2 in res.failures:
            if s2 == sig:
                col.add_shrunk(sig, small, d2)
                break


def run_shard(shard, tier):
    startup()
    col = core.Collector(PROP, shard["id"])
    known = shard.get("known_sigs", ())
    core.hyp_search(cases(), judge, shard["n"], shard["seed"], col, known_sigs=known,
                    case_timeout=180, shrink=False)
    reduce_failures(col, known)
    return col.result()
