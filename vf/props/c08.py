"""C08 — pruning never changes which scenes can be generated.

Differential: every generated program is compiled twice (translator.usePruning False / True).
(1) every scene accepted by the unpruned program has its sampled base point inside the pruned
sampling region ("no feasible scene lost"); (2) base points drawn by the pruned program lie in
the original region ("no new scenes"); (3) a program that has an accepted scene must compile
with pruning; (4) non-positional properties are untouched; (5) compilation terminates.
"""

from __future__ import annotations

import math
import random

from hypothesis import strategies as st

from vf import core

PROP = "C08"
NEEDS_PARSER = True
FLOOR = 0.30
RULE = ("Hypothesis-generated programs placing 1-3 objects `in`/`on` rectangles, circles, non-convex "
        "polygons and boxes (larger than / shifted against the workspace or container), with "
        "baseOffset vectors whose coordinate ranges include negative values, random sizes, yaw, "
        "pitch/roll, requireVisible / visible-from observers, soft and hard requirements bounding "
        "distance / relative heading, 2D and 3D mode.  Compiled with and without pruning; up to 120 "
        "scenes accepted by the unpruned program are checked against the pruned regions and vice "
        "versa.  Non-trivial = pruning conditioned at least one position and the unpruned program "
        "both accepted and rejected samples; distinct = SHA-1 of the case.")
ASSUMPTIONS = [
    "membership of a point in a pruned region is decided with shapely/trimesh directly on the "
    "region's polygons/mesh (tolerance 1e-6 x scale), not with Scenic's containsPoint, except for "
    "region classes without such data (class `fallback-membership`)",
    "scenes accepted by the unpruned program are found by plain rejection sampling (<= 400 tries)",
]


# ------------------------------------------------------------------------------------------
# generator
# ------------------------------------------------------------------------------------------

def _num(draw, lo, hi):
    return draw(st.integers(int(lo * 4), int(hi * 4))) / 4


@st.composite
def region_spec(draw, allow3d, big):
    kinds = ["rect", "rect", "circle", "lpoly"] + (["box"] if allow3d else [])
    k = draw(st.sampled_from(kinds))
    s = _num(draw, 10, 30) if big else _num(draw, 6, 16)
    cx, cy = _num(draw, -6, 6), _num(draw, -6, 6)
    if k == "rect":
        return {"kind": k, "cx": cx, "cy": cy, "w": s, "l": _num(draw, 6, 30),
                "heading": draw(st.sampled_from([0, 0, 0.5, 1.25]))}
    if k == "circle":
        return {"kind": k, "cx": cx, "cy": cy, "r": s / 2}
    if k == "lpoly":
        return {"kind": k, "cx": cx, "cy": cy, "s": s, "z": 0}
    return {"kind": "box", "cx": cx, "cy": cy, "cz": _num(draw, -2, 2), "w": s,
            "l": _num(draw, 6, 30), "h": _num(draw, 4, 12)}


def region_src(r):
    k = r["kind"]
    if k == "rect":
        return f"RectangularRegion(({r['cx']}, {r['cy']}), {r['heading']}, {r['w']}, {r['l']})"
    if k == "circle":
        return f"CircularRegion(({r['cx']}, {r['cy']}), {r['r']})"
    if k == "lpoly":
        s, cx, cy = r["s"], r["cx"], r["cy"]
        pts = [(0, 0), (s, 0), (s, s / 3), (s / 3, s / 3), (s / 3, s), (0, s)]
        pts = ", ".join(f"({x + cx - s / 2}, {y + cy - s / 2})" for x, y in pts)
        return f"PolygonalRegion([{pts}])"
    if k == "box":
        return (f"BoxRegion(position=({r['cx']}, {r['cy']}, {r['cz']}), "
                f"dimensions=({r['w']}, {r['l']}, {r['h']}))")
    raise ValueError(k)


@st.composite
def rng_or_const(draw, lo, hi, allow_neg=True):
    a = _num(draw, lo, hi)
    if draw(st.booleans()):
        return a
    b = _num(draw, lo, hi)
    a, b = min(a, b), max(a, b)
    return [a, b] if a != b else a


def val_src(v):
    return f"Range({v[0]}, {v[1]})" if isinstance(v, list) else repr(v)


@st.composite
def cases(draw):
    mode2D = draw(st.sampled_from([False, False, True]))
    allow3d = not mode2D
    ws = draw(st.one_of(st.none(), region_spec(allow3d, False), region_spec(allow3d, False)))
    # (mostly one placed object: each further one multiplies the rejection rate, and a case
    # whose unpruned program never accepts decides nothing)
    nobj = draw(st.sampled_from([1, 1, 1, 2, 2, 3]))
    objs = []
    for i in range(nobj):
        o = {
            "place": draw(st.sampled_from(["in", "in", "on", "atoff"])),
            "region": draw(region_spec(allow3d, True)),
            "dims": [draw(rng_or_const(0.5, 4)), draw(rng_or_const(0.5, 4)),
                     draw(rng_or_const(0.5, 3))],
            "yaw": draw(st.one_of(st.none(), rng_or_const(-3, 3))),
            "pitchroll": (not mode2D) and draw(st.integers(0, 4)) == 0,
            "ptilt": (not mode2D) and draw(st.integers(0, 5)) == 0,
            "offset": None,
            "container": draw(st.one_of(st.none(), st.none(), region_spec(allow3d, False))),
            "vis": draw(st.sampled_from([None, None, None, "requireVisible", "visible"])),
        }
        if o["place"] == "atoff" or (o["place"] == "on" and draw(st.booleans())):
            o["offset"] = [draw(rng_or_const(-4, 4)), draw(rng_or_const(-4, 4)),
                           draw(st.one_of(rng_or_const(-1, 1), rng_or_const(-10, 2)))
                           if not mode2D else 0]
        if mode2D and o["region"]["kind"] == "box":
            o["region"]["kind"] = "rect"
            o["region"]["heading"] = 0
        objs.append(o)
    ego = {"x": _num(draw, -5, 5), "y": _num(draw, -5, 5),
           "visibleDistance": _num(draw, 4, 20),
           "viewAngle": draw(st.sampled_from([360, 360, 120, 60])),
           "yaw": _num(draw, -3, 3),
           "z": 0 if mode2D else draw(st.sampled_from([0, 0, 0, 4, 10]))}
    return {"mode2D": mode2D, "ws": ws, "objs": objs, "ego": ego,
            "seed": draw(st.integers(0, 10**6))}


HEADINGS = [-3.1, -3.0, -2.5, -1.5, -0.4, 0, 0.8, 1.6, 2.9, 3.1]
REQ_FORMS = ["X >= {c}", "{c} <= X", "{a} < X < {b}", "{b} > X", "X < {c}", "abs(X) <= {c}",
             "abs(X - {k}) < {c}", "abs(X + {k}) < {c}", "{c} >= abs(X)", "X != {c}",
             "{a} <= X <= {b}", "abs({k} + X) <= {c}", "{b} >= X >= {a}", "X != {a}", "{a} != X",
             "X > {a}", "{a} > X", "abs({k} - X) <= {c}", "abs({k} - X) < {c}", "{c} > abs(X - {k})",
             "{c} >= abs({k} - X)"]


FORM_KIND = ["lower_c", "lower_c", "between", "lt_b", "upper_c", "abs_c", "abs_minus_k",
             "abs_plus_k", "abs_c", "neq", "between", "abs_plus_k", "between", "neq", "neq", "gt_a",
             "lt_a", "abs_minus_k", "abs_minus_k", "abs_minus_k", "abs_minus_k"]
assert len(FORM_KIND) == len(REQ_FORMS)


@st.composite
def rh_cases(draw):
    ncell = draw(st.integers(2, 4))
    cells = [{"x": 12 * i + draw(st.sampled_from([0, 0, 3])), "y": draw(st.sampled_from([0, 0, 8])),
              "h": draw(st.sampled_from(HEADINGS))} for i in range(ncell)]
    def objspec():
        # "noise": the object is aligned to the field up to a bounded disturbance, written the
        # way pruning recognises it (a class default `yaw: vf[self.position].yaw + Range(..)`);
        # with the field headings near +/-pi the disturbed interval crosses the branch cut
        noise = None
        if draw(st.integers(0, 2)) == 0:
            lo = draw(st.sampled_from([-0.6, -0.3, -0.1, 0, 0.05]))
            noise = [lo, lo + draw(st.sampled_from([0.1, 0.3, 0.6]))]
        return {"rel": draw(st.one_of(st.none(), st.none(), rng_or_const(-0.5, 0.5))),
                "noise": noise,
                "vis": draw(st.sampled_from([None, "requireVisible", "visible"])),
                "size": draw(st.sampled_from([1, 1, 0.5, 3, 6]))}
    ego_spec, other_spec = objspec(), objspec()
    cut = None
    if (ego_spec["noise"] or other_spec["noise"]) and draw(st.integers(0, 3)):
        # a disturbed heading in a cell whose own heading is next to the branch cut
        cut = draw(st.integers(0, ncell - 1))
        h = cells[cut]["h"] = draw(st.sampled_from([-3.1, -3.0, 3.1, 3.0]))
        for spec in (ego_spec, other_spec):
            if spec["noise"]:
                # make the disturbed interval really cross the cut on this cell's side
                width = spec["noise"][1] - spec["noise"][0]
                if h < 0 and h + spec["noise"][0] > -math.pi:
                    spec["noise"] = [-0.3, round(-0.3 + width, 3)]
                if h > 0 and h + spec["noise"][1] < math.pi:
                    spec["noise"] = [round(0.3 - width, 3), 0.3]
    reqs = []
    for _ in range(draw(st.integers(1, 2))):
        a = _num(draw, -3, 2)
        form = draw(st.integers(0, len(REQ_FORMS) - 1))
        if cut is not None and not reqs and draw(st.integers(0, 3)):
            # two-sided forms: the admitted band can lie wholly beyond the cut
            form = draw(st.sampled_from([k for k, kind in enumerate(FORM_KIND)
                                         if kind in ("between", "abs_minus_k", "abs_plus_k")]))
        r = {"form": form, "a": a, "b": a + _num(draw, 0.25, 3), "c": _num(draw, 0, 3),
             "k": _num(draw, -2, 2), "soft": draw(st.sampled_from([None, None, None, 0.5])),
             "deg": draw(st.booleans()),
             # only `require` constrains scene generation: the same condition in a
             # `terminate when` / `record` statement must not influence pruning
             "stmt": draw(st.sampled_from(["require", "require", "require", "terminate",
                                           "record"]))}
        if draw(st.booleans()) or (cut is not None and not reqs):
            # targeted constants: the requirement admits (about) exactly the relative heading
            # d of one ordered pair of cells, so that any slip in the extracted bounds matters
            i = draw(st.integers(0, ncell - 1))
            j = draw(st.integers(0, ncell - 1))
            mid = lambda spec: sum(spec["noise"]) / 2 if spec["noise"] else 0.0
            if cut is not None and not reqs:
                # ... the band lies inside the relative headings the disturbed pair can take
                if other_spec["noise"]:
                    j = cut
                else:
                    i = cut
                r["stmt"] = "require"
            d = (cells[j]["h"] + mid(other_spec)) - (cells[i]["h"] + mid(ego_spec))
            while d > math.pi:
                d -= math.tau
            while d < -math.pi:
                d += math.tau
            d = round(d, 3)
            w = draw(st.sampled_from([0.25, 0.5, 1.0] if cut is None or reqs else [0.05, 0.1, 0.25]))
            r["deg"] = False
            r["target"] = [i, j]
            kind = FORM_KIND[form]
            if kind == "lower_c":
                r["c"] = round(d - w, 3)
            elif kind == "upper_c":
                r["c"] = round(d + w, 3)
            elif kind == "between":
                r["a"], r["b"] = round(d - w, 3), round(d + w, 3)
            elif kind == "abs_c":
                r["c"] = round(abs(d) + w, 3)
            elif kind == "abs_minus_k":
                r["k"], r["c"] = d, w
            elif kind == "abs_plus_k":
                r["k"], r["c"] = -d, w
            elif kind == "neq":
                r["a"] = r["c"] = round(d - w, 3)
            elif kind == "gt_a":
                r["a"] = round(d - w, 3)
            elif kind == "lt_a":
                r["a"] = round(d + w, 3)
            elif kind == "lt_b":
                r["b"] = round(d + w, 3)
        reqs.append(r)
    dist = draw(st.one_of(st.none(), st.integers(6, 40)))
    return {"family": "rh", "mode2D": draw(st.booleans()), "cells": cells,
            "ego": ego_spec, "other": other_spec, "reqs": reqs, "dist": dist,
            "distform": draw(st.integers(0, 2)),
            "visibleDistance": draw(st.sampled_from([8, 15, 30, 60])),
            "seed": draw(st.integers(0, 10**6))}


def emit_rh(c):
    L = []
    for i, cell in enumerate(c["cells"]):
        x, y = cell["x"], cell["y"]
        L.append(f"r{i} = PolygonalRegion([({x}, {y}), ({x + 10}, {y}), ({x + 10}, {y + 10}), "
                 f"({x}, {y + 10})])")
    L.append("vf = PolygonalVectorField('F', ["
             + ", ".join(f"[r{i}.polygons, {cell['h']}]" for i, cell in enumerate(c["cells"])) + "])")
    L.append("union = " + "r0" + "".join(f".union(r{i})" for i in range(1, len(c["cells"]))))

    for name in ("ego", "other"):
        nz = c[name].get("noise")
        if nz:
            L.append(f"class Noisy_{name}:\n    yaw: vf[self.position].yaw + Range({nz[0]}, {nz[1]})")

    def cls(name):
        return f"Noisy_{name}" if c[name].get("noise") else "Object"

    def facing(o):
        if o.get("noise"):
            return "with pitch 0"
        if o["rel"] is None:
            return "facing vf"
        return f"facing ({val_src(o['rel'])}) relative to vf"

    def size(o):
        sz = o.get("size", 1)
        return f", with width {sz}, with length {sz}" if sz != 1 else ""

    L.append(f"ego = new {cls('ego')} in union, {facing(c['ego'])}, with visibleDistance "
             f"{c['visibleDistance']}, with allowCollisions True, with requireVisible False"
             + size(c["ego"]))
    o = c["other"]
    vis = {"requireVisible": ", with requireVisible True", "visible": ", visible from ego",
           None: ", with requireVisible False"}[o["vis"]]
    if o["vis"] == "visible":
        vis += ", with requireVisible False"
    L.append(f"other = new {cls('other')} in union, {facing(o)}, with allowCollisions True{vis}"
             + size(o))
    for r in c["reqs"]:
        def num(v):
            return f"({v * 20} deg)" if r["deg"] else repr(v)
        txt = REQ_FORMS[r["form"]].format(a=num(r["a"]), b=num(r["b"]), c=num(r["c"]),
                                          k=num(r["k"]))
        txt = txt.replace("X", "(relative heading of other)")
        soft = f"[{r['soft']}]" if r["soft"] else ""
        if soft and txt.startswith("("):
            txt = "True and " + txt
        stmt = r.get("stmt", "require")
        if stmt == "terminate":
            L.append(f"terminate when {txt}")
        elif stmt == "record":
            L.append(f"record {txt} as rec{len(L)}")
        else:
            L.append(f"require{soft} {txt}")
    if c["dist"] is not None:
        d = c["dist"]
        L.append(["require (distance to other) <= {d}", "require {d} >= (distance to other)",
                  "require (distance from ego to other) < {d}"][c["distform"]].format(d=d))
    return "\n".join(L) + "\n"


def emit(c):
    if c.get("family") == "rh":
        return emit_rh(c)
    L = []
    if c["ws"] is not None:
        L.append(f"workspace = Workspace({region_src(c['ws'])})")
    e = c["ego"]
    L.append(f"ego = new Object at ({e['x']}, {e['y']}, {e.get('z', 0)}), facing {e['yaw']}, "
             f"with visibleDistance {e['visibleDistance']}, with viewAngle {e['viewAngle']} deg, "
             f"with allowCollisions True, with width 0.2, with length 0.2, with height 0.2, "
             f"with regionContainedIn everywhere, with requireVisible False")
    for i, o in enumerate(c["objs"]):
        L.append(f"reg{i} = {region_src(o['region'])}")
        if o["place"] == "atoff":
            # position = uniform point in the region + offset vector with known support
            ox, oy, oz = o["offset"]
            specs = [f"at (new Point in reg{i}) offset by ({val_src(ox)}, {val_src(oy)}, "
                     f"{val_src(oz)})"]
        else:
            specs = [f"{o['place']} reg{i}"]
        w, l, h = o["dims"]
        specs += [f"with width {val_src(w)}", f"with length {val_src(l)}",
                  f"with height {val_src(h)}", "with allowCollisions True"]
        if o["yaw"] is not None:
            specs.append(f"facing {val_src(o['yaw'])}")
        if o["pitchroll"]:
            specs += ["with pitch Range(0, 0.6)", "with roll Range(-0.4, 0.4)"]
        if o.get("ptilt"):
            # own pitch/roll stay 0, but they are relative to a tilted parent orientation
            specs += ["with parentOrientation (0.3, 0.2, 90 deg)"]
        if o["offset"] is not None and o["place"] != "atoff":
            ox, oy, oz = o["offset"]
            specs.append(f"with baseOffset ({val_src(ox)}, {val_src(oy)}, {val_src(oz)})")
            specs.append("with contactTolerance 0")
        if o["container"] is not None:
            specs.append(f"with regionContainedIn {region_src(o['container'])}")
        if o["vis"] == "requireVisible":
            specs.append("with requireVisible True")
        else:
            specs.append("with requireVisible False")
            if o["vis"] == "visible":
                specs.append("visible from ego")
        L.append(f"obj{i} = new Object " + ", ".join(specs))
    return "\n".join(L) + "\n"


# ------------------------------------------------------------------------------------------
# observation helpers
# ------------------------------------------------------------------------------------------

def find_pirs(value):
    """PointInRegionDistribution nodes reachable from a (possibly conditioned) position."""
    from scenic.core.distributions import Samplable
    from scenic.core.regions import PointInRegionDistribution

    out, seen, stack = [], set(), [value]
    while stack:
        v = stack.pop()
        if id(v) in seen or not isinstance(v, Samplable):
            continue
        seen.add(id(v))
        cond = getattr(v, "_conditioned", v)
        if cond is not v:
            stack.append(cond)
            continue
        if isinstance(v, PointInRegionDistribution):
            out.append(v)
            continue
        stack.extend(getattr(v, "_dependencies", ()))
    return out


def member(region, pt, tol):
    """(is pt in region within tol, how decided)."""
    import shapely.geometry as sg
    from scenic.core import regions as R
    from scenic.core.workspaces import Workspace

    if isinstance(region, Workspace):
        region = region.region
    x, y, z = float(pt[0]), float(pt[1]), float(pt[2])
    if isinstance(region, R.PolygonalRegion):
        return region.polygons.distance(sg.Point(x, y)) <= tol, "shapely"
    if isinstance(region, R.MeshVolumeRegion):
        import numpy as np
        import trimesh

        m = region.mesh
        if m.contains(np.array([[x, y, z]]))[0]:
            return True, "trimesh"
        d = abs(trimesh.proximity.signed_distance(m, np.array([[x, y, z]]))[0])
        return d <= tol, "trimesh"
    if isinstance(region, R.CircularRegion):
        c = region.center
        return math.hypot(x - c.x, y - c.y) <= region.radius + tol, "formula"
    if isinstance(region, R.AllRegion):
        return True, "all"
    if isinstance(region, R.EmptyRegion):
        return False, "empty"
    return bool(region.containsPoint(pt)) or region.distanceTo(pt) <= tol, "fallback-membership"


class LivelockProved(BaseException):
    """A deterministic helper was called > 32 times with identical arguments on unchanged
    state inside one compilation: the retry loop around it can never make progress."""


def compile_with(src, mode2D, prune):
    import scenic
    import scenic.syntax.translator as tr
    from scenic.core.regions import MeshVolumeRegion

    old = tr.usePruning
    tr.usePruning = prune
    saved = {}
    calls = {}

    def counting(name, fn):
        def wrapper(self, *args, **kwargs):
            key = (name, id(self), repr(args), repr(sorted(kwargs.items())))
            calls[key] = calls.get(key, 0) + 1
            if calls[key] > 32:
                raise LivelockProved(name)
            return fn(self, *args, **kwargs)

        return wrapper

    if prune:  # observation only: count calls of the voxel helpers used by the retry loops
        for name in ("_erodeOverapproximate", "_bufferOverapproximate"):
            saved[name] = MeshVolumeRegion.__dict__[name]
            setattr(MeshVolumeRegion, name, counting(name, saved[name]))
    try:
        return scenic.scenarioFromString(src, mode2D=mode2D)
    finally:
        tr.usePruning = old
        for name, fn in saved.items():
            setattr(MeshVolumeRegion, name, fn)


def circle_sliver_only(c, i, points):
    """True iff the object's base region is a circle and every given base point lies in the
    sliver between the circle and its inscribed 128-gon (CircularRegion's polygon)."""
    if c.get("family") == "rh" or i < 1 or not points:
        return False
    reg = c["objs"][i - 1]["region"]
    if reg["kind"] != "circle":
        return False
    r = reg["r"]
    inner = r * math.cos(math.pi / 128) - 1e-9
    return all(inner <= math.hypot(p[0] - reg["cx"], p[1] - reg["cy"]) <= r + 1e-9 for p in points)


def cell_of(c, i):
    if c.get("family") == "rh":
        which = "ego" if i == 0 else "other"
        parts = ["rh", which]
        o = c[which]
        if o.get("noise"):
            parts.append("noise")
        elif o["rel"] is not None:
            parts.append("reloffset")
        if c["other"]["vis"]:
            parts.append(c["other"]["vis"])
        parts.append("dist" if c["dist"] is not None else "nodist")
        parts += sorted({"form%d" % r["form"] + ("soft" if r["soft"] else "")
                         + ("" if r.get("stmt", "require") == "require" else ":" + r["stmt"])
                         for r in c["reqs"]})
        if any(abs(cell["h"]) > 2.8 for cell in c["cells"]):
            parts.append("near-pi")
        return ":".join(parts)
    i = i - 1
    if i < 0:
        return "ego"
    o = c["objs"][i]
    cont = o["container"]["kind"] if o["container"] else (c["ws"]["kind"] if c["ws"] else "none")
    parts = [o["place"], o["region"]["kind"], "in-" + cont]
    if o["offset"] is not None:
        parts.append("offset")
    if o["pitchroll"]:
        parts.append("pitchroll")
    if o.get("ptilt"):
        parts.append("tilted-parent")
    if o["vis"]:
        parts.append(o["vis"])
    if c["ego"].get("z"):
        parts.append("ego-elevated")
    if c["mode2D"]:
        parts.append("2D")
    return ":".join(parts)


def walk_nodes(roots, follow_conditioned):
    """All Samplable nodes reachable from roots through _dependencies (and, optionally,
    through _conditioned links)."""
    from scenic.core.distributions import Samplable

    seen, order, stack = set(), [], list(roots)
    while stack:
        v = stack.pop()
        if not isinstance(v, Samplable) or id(v) in seen:
            continue
        seen.add(id(v))
        order.append(v)
        stack.extend(getattr(v, "_dependencies", ()))
        cond = getattr(v, "_conditioned", v)
        if follow_conditioned and cond is not v:
            stack.append(cond)
    return order


class Unconditioned:
    """Temporarily undo all conditioning (the program as it is without pruning)."""

    def __init__(self, nodes):
        self.saved = [(n, n._conditioned) for n in nodes]

    def __enter__(self):
        for n, _ in self.saved:
            n._conditioned = n

    def __exit__(self, *a):
        for n, c in self.saved:
            n._conditioned = c


def draw_scenes(scenario, seed, tries, nscenes):
    import numpy
    from scenic.core.distributions import RejectionException

    random.seed(seed)
    numpy.random.seed(seed)
    accepted, pattern = [], []
    for _ in range(tries):
        if len(accepted) >= nscenes:
            break
        try:
            scene, _its = scenario.generate(maxIterations=1)
            accepted.append(scene)
            pattern.append(tuple(tuple(float(x).hex() for x in o.position) for o in scene.objects))
        except RejectionException:
            pattern.append(None)
    return accepted, pattern


def concrete(value, sample):
    """Value of a possibly random quantity under the given sample of the scenario."""
    from scenic.core.distributions import needsSampling
    from scenic.core.utils import DefaultIdentityDict

    if not needsSampling(value):
        return value
    sub = DefaultIdentityDict()
    sub.storage = dict(sample.storage)  # id-keyed copy; the scene's own sample is left untouched
    return value.sample(sub)


def judge(c, nscenes=120, tries=400):
    from scenic.core.distributions import RejectionException, Samplable
    from scenic.core.errors import InvalidScenarioError

    out = core.Outcome()
    out.cls("family:" + c.get("family", "contain"))
    if c.get("family") == "rh" and (c["ego"].get("noise") or c["other"].get("noise")):
        out.cls("heading-noise")
    src = emit(c)
    scale = 30.0
    tol = 1e-6 * scale
    try:
        plain = compile_with(src, c["mode2D"], False)
    except InvalidScenarioError as e:
        out.cls("discard:invalid-unpruned")
        return out
    except Exception as e:
        out.cls("discard:unpruned-" + type(e).__name__)
        return out

    accepted_plain, pattern_plain = draw_scenes(plain, c["seed"], tries, nscenes)
    rejected = sum(p is None for p in pattern_plain)
    if rejected:
        out.cls("unpruned-rejects")
    if not accepted_plain:
        out.cls("unpruned-never-accepts")

    try:
        pruned = compile_with(src, c["mode2D"], True)
    except LivelockProved as e:
        out.fail("nontermination|" + str(e), source=src)
        return out
    except InvalidScenarioError as e:
        if accepted_plain:
            out.fail("infeasible-reported|" + cell_of(c, 1) + "|" + core.exc_signature(e),
                     source=src, error=str(e)[:300], accepted=len(accepted_plain))
        else:
            out.cls("both-infeasible")
        return out
    except Exception as e:
        if accepted_plain:
            out.fail("prune-crash|" + core.exc_signature(e), source=src, error=repr(e)[:300],
                     accepted=len(accepted_plain))
        else:
            # an unsatisfiable program failing with an internal error instead of
            # InvalidScenarioError is not what C08 states; counted, not judged
            out.cls("unjudged:infeasible-program-crash:" + type(e).__name__)
        return out
    if len(pruned.objects) != len(plain.objects):
        raise core.HarnessError("object count differs between pruned and unpruned compile")

    nodes = walk_nodes(pruned.dependencies, follow_conditioned=True)
    conditioned = [n for n in nodes if n._conditioned is not n]
    if not conditioned:
        out.cls("no-pruning")
        return out
    out.cls("conditioned")

    # (4) only positions may be conditioned
    allowed = set()
    for o in pruned.objects:
        if isinstance(o.position, Samplable):
            allowed.update(id(n) for n in walk_nodes([o.position], follow_conditioned=True))
    for n in conditioned:
        if id(n) not in allowed:
            out.fail("nonpositional-conditioned|" + type(n).__name__, source=src, node=repr(n)[:200])

    # the program without conditioning, on the *same* objects (so that random pruned regions
    # can be evaluated under the very sample that produced an accepted scene)
    with Unconditioned(conditioned):
        accepted, pattern = draw_scenes(pruned, c["seed"], tries, nscenes)
    if pattern != pattern_plain:
        # resetting _conditioned did not give back the unpruned program: do not judge
        out.cls("unjudged:reset-mismatch")
        return out

    judged_any = False
    for i, pobj in enumerate(pruned.objects):
        pos = pobj.position
        if not isinstance(pos, Samplable):
            continue
        sub = walk_nodes([pos], follow_conditioned=True)
        if not any(n._conditioned is not n for n in sub):
            continue
        upirs = find_pirs_plain(pos)
        ppirs = find_pirs(pos)
        if len(ppirs) != 1 or len(upirs) != 1:
            out.cls("unjudged:position-shape")
            continue
        judged_any = True
        out.cls("pruned:" + type(ppirs[0].region).__name__)
        # (1) no feasible scene lost
        lost, example, how = 0, None, None
        lost_points = []
        for scene in accepted:
            bp = scene.sample[upirs[0]]
            try:
                reg = concrete(ppirs[0].region, scene.sample)
            except RejectionException:
                reg = None  # the pruned region is empty for this sample
            ok, how = (False, "empty") if reg is None else member(reg, bp, tol)
            if not ok:
                lost += 1
                example = example or [float(x) for x in bp]
                lost_points.append([float(x) for x in bp])
        if how:
            out.cls(how)
        if lost:
            sig = "lost-scene|" + cell_of(c, i)
            if circle_sliver_only(c, i, lost_points):
                # known finding: the sampler of a CircularRegion draws from the true disc, pruning
                # works on its inscribed 128-gon, so the sliver between the two is pruned away
                sig = "lost-scene-sliver|circle-base-approximated-by-inscribed-polygon"
            out.fail(sig, source=src, lost=lost, of=len(accepted),
                     base_point=example, pruned_region=repr(ppirs[0].region)[:200])
        # (2) no new scenes: base points drawn by the pruned program lie in the original region
        pscenes, _ = draw_scenes(pruned, c["seed"] + 1, 80, 40)
        new = 0
        holder = next((n for n in sub if n._conditioned is ppirs[0]), None)
        for scene in pscenes:
            # a value that *is* the conditioned replacement of a node is stored under that node
            if ppirs[0] in scene.sample:
                bp = scene.sample[ppirs[0]]
            elif holder is not None and holder in scene.sample:
                bp = scene.sample[holder]
            else:
                out.cls("unjudged:new-scene-basepoint")
                break
            reg = concrete(upirs[0].region, scene.sample)
            ok, _ = member(reg, bp, tol)
            if not ok:
                new += 1
                example = [float(x) for x in bp]
        if pscenes:
            out.cls("pruned-accepts")
        if new:
            out.fail("new-scene|" + cell_of(c, i), source=src, outside=new, base_point=example)
    out.nontrivial = bool(judged_any and accepted and rejected)
    return out


def find_pirs_plain(value):
    """PointInRegionDistribution nodes of the *original* position expression."""
    from scenic.core.regions import PointInRegionDistribution

    return [n for n in walk_nodes([value], follow_conditioned=False)
            if isinstance(n, PointInRegionDistribution)]


def replay(case):
    return judge(case)


def plan(tier, seed, jobs):
    n = 25 if tier == "quick" else 900
    return [{"seed": seed * 1000 + k, "n": n} for k in range(jobs)]


def run_shard(shard, tier):
    col = core.Collector(PROP, shard["id"])
    core.hyp_search(st.one_of(cases(), rh_cases()), judge, shard["n"], shard["seed"], col,
                    known_sigs=shard.get("known_sigs", ()), case_timeout=120,
                    shrink_s=60 if tier == "quick" else 240)
    return col.result()
