"""C09 — plain Python inside Scenic compiles to exactly what CPython would parse.

(a) Every file of the Python corpus (CPython's standard library + site-packages) that CPython 3.12
    parses and that does not use a Scenic hard keyword as an identifier is parsed and compiled by
    Scenic; the result must equal CPython's tree modulo the documented rewrites, including the
    line/column attributes of every node (vf.c09_diff).
(b) Hypothesis: expressions harvested from corpus files (ast.unparse of sub-trees) embedded in
    Scenic contexts (require / terminate when / param / with-specifier / property default /
    behavior body / record); the compiled sub-tree, located by a marker call or by its source
    span, must again equal CPython's tree for the same text at the same position.
"""

from __future__ import annotations

import ast
import functools
import os
import random
import re
import sys
import textwrap
import warnings

from hypothesis import strategies as st

from vf import c09_diff as D
from vf import core, corpus

PROP = "C09"
NEEDS_PARSER = True
FLOOR = 0.30
RULE = ("(c) one fragment case in four embeds a whole for/while statement of the corpus (with "
        "break/continue or nested loops) in a behavior body, the body or an interrupt handler of "
        "a try-interrupt statement, a monitor or a compose block; (a) files of the Python corpus (stdlib of /venv's interpreter + site-packages; quick: "
        "seed-rotated sample of ~400 files <= 120 KB plus a fixed set of syntax-dense stdlib test "
        "files; thorough: every file) that CPython 3.12 parses, that do not use one of at/by/do/"
        "new/of/on/require/to/until as a NAME token, do not store to ego/workspace/"
        "globalParameters/str/int/float and have no annotated assignment with a value directly in "
        "a class body; (b) Hypothesis-drawn (corpus file, sub-expression, Scenic context, padding) "
        "embeddings.  Non-trivial file = judged and contains at least one of: match, walrus, "
        "f-string conversion/format spec, decorator, starred target, async, lambda defaults, "
        "global/nonlocal, except*, type parameters/alias, chained comparison, slice with step; "
        "non-trivial fragment = judged sub-tree of >= 4 nodes containing a node that is not a "
        "Name/Constant/Attribute.  Distinct = file path, resp. (file, node index, context, pad).")
ASSUMPTIONS = [
    "CPython 3.12's ast.parse is the reference parser (differential oracle)",
    "documented rewrites are recognised by shape (vf.c09_diff): accessor calls for "
    "ego/workspace/globalParameters, lifted str/int/float callee, wrapped star arguments, default "
    "base class + one property-table assignment per class (bare class-level annotations are the "
    "documented `<property>: <value>` definitions), `X @ Y` is Scenic's documented vector "
    "constructor (judged for line numbers only)",
    "class bodies with `name: T = value` are not judged (Scenic rejects them on purpose; the "
    "reference is silent), nor are files Scenic cannot parse within the default recursion limit",
]

SOFT_HEADS = frozenset([
    "model", "param", "record", "mutate", "terminate", "take", "wait", "abort", "override",
    "simulator", "behavior", "monitor", "scenario", "setup", "compose", "precondition",
    "invariant", "interrupt"])

# every soft keyword listed by docs/reference/general.rst (docs/_build/keywords_soft.txt is
# generated from ScenicParser.SOFT_KEYWORDS); used only to keep *embedded fragments* free of the
# ambiguity that page warns about, never to excuse a whole-file difference
SOFT_KEYWORDS = frozenset("""_ abort above additive after ahead along altitude always angle apparent
apparently away back behavior behind below beyond bottom can case choose compose contained deg
directly distance dynamic ego eventually every facing final follow following from front heading
implies initial interrupt intersects invariant left match minimum model monitor mutate next not of
offset override param past position precondition record relative right scenario seconds see setup
shuffle simulation simulator steps take terminate top toward type visible wait when
workspace""".split())

CORE_FILES = [
    "test/test_grammar.py", "test/test_unpack_ex.py", "test/test_named_expressions.py",
    "test/test_type_params.py", "test/test_type_aliases.py", "test/test_decorators.py",
    "test/test_string_literals.py", "test/test_positional_only_arg.py",
    "test/test_keywordonlyarg.py", "test/test_genexps.py", "test/test_listcomps.py",
    "test/test_with.py", "test/test_fstring.py", "test/test_patma.py", "test/test_except_star.py",
    "test/test_coroutines.py",
]

_scenic = {}


def _front_end():
    if not _scenic:
        from scenic.core.errors import ScenicSyntaxError
        from scenic.syntax.compiler import compileScenicAST
        from scenic.syntax.parser import parse_string

        _scenic.update(parse=parse_string, compile=compileScenicAST, err=ScenicSyntaxError)
    return _scenic


def scenic_compile(src, filename="<string>"):
    fe = _front_end()
    tree = fe["parse"](src, "exec", filename=filename)
    return fe["compile"](tree, filename=filename)[0]


def _norm_msg(msg):
    msg = re.sub(r"'[^']*'|\"[^\"]*\"", "Q", str(msg))
    msg = re.sub(r"\d+", "N", msg)
    return msg[:60]


def _innermost(py, lineno, col):
    """(node, "Parent.field") of the smallest CPython node whose span contains (lineno, col)."""
    best = (py, "Module")
    node = py
    while True:
        nxt = None
        for f, v in ast.iter_fields(node):
            for c in (v if isinstance(v, list) else [v]):
                if not isinstance(c, ast.AST):
                    continue
                ln = getattr(c, "lineno", None)
                if ln is None or getattr(c, "end_lineno", None) is None:
                    # nodes without location (arguments, comprehension, ...): look inside
                    for g in ast.walk(c):
                        gl = getattr(g, "lineno", None)
                        if gl is not None and g.end_lineno is not None and \
                                (gl, g.col_offset) <= (lineno, col) < (g.end_lineno, g.end_col_offset):
                            nxt = (c, f"{type(node).__name__}.{f}")
                            break
                    continue
                start = (ln, c.col_offset)
                for dec in getattr(c, "decorator_list", []):
                    start = min(start, (dec.lineno, 0))  # decorators precede the def line
                if start <= (lineno, col) < (c.end_lineno, c.end_col_offset):
                    nxt = (c, f"{type(node).__name__}.{f}")
        if nxt is None:
            return best
        best = nxt
        node = nxt[0]


def _stmt_chain(py, lineno):
    """Statements of the CPython tree containing the line, outermost first."""
    chain = []
    body = py.body
    while True:
        hit = None
        for s in body:
            lo = min([s.lineno] + [d.lineno for d in getattr(s, "decorator_list", [])])
            if lo <= lineno <= s.end_lineno:
                hit = s
                break
        if hit is None:
            return chain
        chain.append(hit)
        nxt = None
        for f in ("body", "orelse", "finalbody", "handlers", "cases"):
            for s in getattr(hit, f, []) or []:
                if isinstance(s, (ast.stmt, ast.ExceptHandler, ast.match_case)):
                    if isinstance(s, ast.match_case):
                        lo, hi = s.pattern.lineno, s.body[-1].end_lineno
                    else:
                        lo = min([s.lineno] + [d.lineno for d in getattr(s, "decorator_list", [])])
                        hi = s.end_lineno
                    if lo <= lineno <= hi:
                        nxt = s
        if nxt is None:
            return chain
        if isinstance(nxt, (ast.ExceptHandler, ast.match_case)):
            body = nxt.body
            continue
        body = [nxt]


def _segment(lines, s):
    lo = min([s.lineno] + [d.lineno for d in getattr(s, "decorator_list", [])])
    return "\n".join(lines[lo - 1:s.end_lineno]) + "\n", lo


def _outcome_of(src):
    """('ok', tree) | ('reject', exc) | ('crash', exc) | ('recursion', exc) for a Scenic compile."""
    fe = _front_end()
    try:
        return "ok", scenic_compile(src)
    except fe["err"] as e:
        return "reject", e
    except RecursionError as e:
        return "recursion", e
    except Exception as e:  # an internal error escaping the front end
        return "crash", e


def _fail_kind(kind, e):
    if kind == "reject":
        return f"{type(e).__name__}:{_norm_msg(getattr(e, 'msg', e))}"
    return core.exc_signature(e)


def minimise(src, py, lineno, kind, exc):
    """Smallest statement of the file (dedented, alone) that fails in the same way."""
    lines = src.split("\n")
    want = _fail_kind(kind, exc)
    for s in reversed(_stmt_chain(py, lineno)):
        seg, _ = _segment(lines, s)
        seg = textwrap.dedent(seg)
        try:
            ast.parse(seg)
        except SyntaxError:
            continue  # e.g. `return` outside a function
        k2, e2 = _outcome_of(seg)
        if k2 == kind and _fail_kind(k2, e2) == want:
            return seg
    return None


def soft_head(py, lines, lineno):
    """The soft keyword heading the innermost expression statement at the line, if any."""
    chain = _stmt_chain(py, lineno)
    if not chain or not isinstance(chain[-1], ast.Expr):
        return None
    s = chain[-1]
    m = re.match(r"[A-Za-z_]\w*", lines[s.lineno - 1][s.col_offset:])
    if m and m.group(0) in SOFT_HEADS:
        return m.group(0)
    return None


def compare_trees(py, sc, out, src, prefix="", star_wrapping=True, behavior_locals=False):
    """Record every difference between the two trees as failures of `out`."""
    old = sys.getrecursionlimit()
    sys.setrecursionlimit(max(old, 20000))
    try:
        diffs, rewrites = D.diff_all(py, sc, star_wrapping, src, behavior_locals)
    finally:
        sys.setrecursionlimit(old)
    lines = None
    seen = set()
    for d in diffs:
        lines = lines or src.split("\n")
        ln = d.lineno or 1
        head = soft_head(py, lines, ln) if isinstance(py, ast.Module) else None
        cell = f"soft-keyword-head:{head}" if head else d.cell
        if not head and (d.field.startswith("type->") or (d.nodetype, d.field) == ("Name", "id")) \
                and d.col is not None \
                and 0 < ln <= len(lines):
            # a Python expression beginning with a Scenic soft keyword used as an identifier and
            # parsed as a Scenic operator instead (the ambiguity docs/reference/general.rst
            # warns about): named as such
            m = re.match(r"(?:not\s+)?([A-Za-z_]\w*)", lines[ln - 1][d.col:])
            if m and m.group(1) in SOFT_KEYWORDS and m.group(1) not in ("not", "_"):
                cell = f"soft-keyword-as-identifier:{m.group(1)}"
        sig = f"{prefix}{cell}|{d.field}"
        if sig in seen:
            continue
        seen.add(sig)
        ctxt = "\n".join(lines[max(0, ln - 2):ln + 1])[:400]
        out.fail(sig, where=d.path, line=ln, cpython=d.py, scenic=d.sc, source_lines=ctxt)
    return rewrites, len(diffs)


# ---------------------------------------------------------------------------------------------
# (a) whole files
# ---------------------------------------------------------------------------------------------

def judge_file(case):
    out = core.Outcome()
    path = case["path"]
    src = corpus.read_python(path)
    if src is None:
        out.cls("skip:undecodable")
        return out
    with warnings.catch_warnings():
        warnings.simplefilter("ignore")
        try:
            py = ast.parse(src)
        except (SyntaxError, ValueError, RecursionError, MemoryError):
            out.cls("skip:not-python-3.12")
            return out
    hk = D.hard_keyword_names(src)
    if hk:
        out.cls("excluded:hard-keyword")
        for k in sorted(hk):
            out.cls("hard-keyword:" + k)
        return out
    feats, excl = D.scan(py)
    if excl:
        for e in sorted(excl):
            out.cls("excluded:" + e)
        return out
    for f in sorted(feats):
        out.cls("feature:" + f)
    lines = src.split("\n")
    out.cls("judged-file")
    kind, res = _outcome_of(src)
    if kind == "recursion":
        out.inconclusive = True
        out.cls("unjudged:scenic-recursion-limit")
        return out
    out.nontrivial = bool(feats & D.NONTRIVIAL_FEATURES)
    if kind == "ok":
        rewrites, ndiff = compare_trees(py, res, out, src)
        if rewrites:
            out.cls("has-documented-rewrite")
        if not ndiff:
            out.cls("equal")
            if not D.has_rewrite_trigger(py):
                # cross-check of the walker: without rewrites the verdict is plain dump equality
                if ast.dump(py, include_attributes=True) != ast.dump(res, include_attributes=True):
                    raise core.HarnessError(f"c09: walker accepted trees whose dumps differ: {path}")
        return out
    # the file as a whole fails: judge every top-level statement on its own, so that one defect
    # does not hide the rest of the file and the failing statement is known
    out.cls("whole-file-failed:per-statement-fallback")
    if kind == "reject":
        _report_failure(out, kind, res, src, py, lines)
    whole = f"crash|{_fail_kind(kind, res)}" if kind == "crash" else None
    for s in py.body:
        seg, lo = _segment(lines, s)
        text = "\n" * (lo - 1) + seg
        k2, r2 = _outcome_of(text)
        if k2 == "ok":
            sub = ast.Module(body=[s], type_ignores=[])
            if len(r2.body) != 1:
                out.fail("Module|body[len]", source=seg[:300])
                continue
            compare_trees(sub, r2, out, src)
        elif k2 != "recursion":
            _report_failure(out, k2, r2, src, py, lines, stmt=s)
    if whole and not any(sig == whole for sig, _ in out.failures):
        _report_failure(out, kind, res, src, py, lines)  # only the file as a whole crashes
    return out


_MINIMISED = set()


def _report_failure(out, kind, e, src, py, lines, stmt=None):
    """One failure per signature and file; with the smallest statement that fails alike."""
    lineno = getattr(e, "lineno", None) if kind == "reject" else None
    cellname = "?"
    if kind == "reject" and isinstance(lineno, int):
        off = getattr(e, "offset", None) or 1
        n, where = _innermost(py, lineno, max(0, off - 1))
        if _norm_msg(getattr(e, "msg", "")) == "invalid syntax":
            # generic message: the cell is the syntactic position the parser gave up in
            cellname = where
        else:
            # specific message (names the rule): the cell is the kind of block it occurred in
            chain = _stmt_chain(py, lineno)
            owners = [c for c in chain[:-1] if isinstance(
                c, (ast.ClassDef, ast.FunctionDef, ast.AsyncFunctionDef))]
            cellname = "in-" + (type(owners[-1]).__name__ if owners else "Module")
        head = soft_head(py, lines, lineno)
        if head:
            cellname = f"soft-keyword-head:{head}"
    if kind == "reject":
        sig = f"reject:{cellname}|{_fail_kind(kind, e)}"
    else:
        sig = f"crash|{_fail_kind(kind, e)}"
    if any(s_ == sig for s_, _ in out.failures):
        return
    mini = None
    if sig in _MINIMISED:
        pass  # one minimal example per signature and worker process is enough
    elif kind == "reject" and isinstance(lineno, int):
        _MINIMISED.add(sig)
        mini = minimise(src, py, lineno, kind, e)
    elif kind == "crash" and stmt is not None:
        # the top-level statement crashes alone: descend into the first nested statement that
        # still crashes alone, as long as there is one
        _MINIMISED.add(sig)
        want = _fail_kind(kind, e)
        mini = _segment(lines, stmt)[0]
        cur = stmt
        for _ in range(12):
            nxt = None
            for child in ast.iter_child_nodes(cur):
                kids = [child] if isinstance(child, ast.stmt) else [
                    g for g in ast.iter_child_nodes(child) if isinstance(g, ast.stmt)] \
                    if isinstance(child, (ast.ExceptHandler, ast.match_case)) else []
                for n in kids:
                    seg2 = textwrap.dedent(_segment(lines, n)[0])
                    try:
                        ast.parse(seg2)
                    except SyntaxError:
                        continue
                    k3, e3 = _outcome_of(seg2)
                    if k3 == "crash" and _fail_kind(k3, e3) == want:
                        nxt, mini = n, seg2
                        break
                if nxt is not None:
                    break
            if nxt is None:
                break
            cur = nxt
    out.fail(sig, error=repr(e)[:300], line=lineno,
             source_lines="\n".join(lines[max(0, (lineno or 1) - 3):(lineno or 1) + 1])[:500],
             minimal=(mini or "")[:1500])


# ---------------------------------------------------------------------------------------------
# (b) embedded fragments
# ---------------------------------------------------------------------------------------------

CONTEXTS = ["require", "terminate-when", "param", "param-bare", "param-multiline", "with",
            "with-bare", "default", "behavior", "wait-until", "record", "require-bare"]
BEHAVIOR_CTX = ("behavior", "wait-until")
MARK = "_vf_mark"


def embed(ctx, e, pad):
    """(scenic source, line of E (1-based), column of E, marker used?)."""
    head = "".join("# pad\n" if k % 2 else "\n" for k in range(pad))
    m = f"{MARK}({e})"
    if ctx == "require":
        body, line, col, marked = f"require {m}\n", 0, len("require " + MARK + "("), True
    elif ctx == "terminate-when":
        body, line, col, marked = (f"terminate when {m}\n", 0,
                                   len("terminate when " + MARK + "("), True)
    elif ctx == "param":
        body, line, col, marked = f"param p = {m}\n", 0, len("param p = " + MARK + "("), True
    elif ctx == "param-bare":
        body, line, col, marked = f"param p = {e}\n", 0, len("param p = "), False
    elif ctx == "param-multiline":
        body, line, col, marked = f"param p = (\n      {e}\n)\n", 1, 6, False
    elif ctx == "with":
        pre = "ego = new Object with foo "
        body, line, col, marked = f"{pre}{m}, with bar 1\n", 0, len(pre + MARK + "("), True
    elif ctx == "with-bare":
        pre = "ego = new Object with foo "
        body, line, col, marked = f"{pre}{e}, with bar 1\n", 0, len(pre), False
    elif ctx == "default":
        body, line, col, marked = (f"class K:\n    foo: {m}\n", 1,
                                   len("    foo: " + MARK + "("), True)
    elif ctx == "behavior":
        pre = "    _vf_x = "
        body, line, col, marked = (f"behavior B():\n{pre}{m}\n    wait\n", 1,
                                   len(pre + MARK + "("), True)
    elif ctx == "wait-until":
        pre = "    wait until "
        body, line, col, marked = (f"behavior B():\n{pre}{m}\n", 1, len(pre + MARK + "("), True)
    elif ctx == "record":
        body, line, col, marked = f"record {m} as r\n", 0, len("record " + MARK + "("), True
    elif ctx == "require-bare":
        body, line, col, marked = f"require {e}\n", 0, len("require "), False
    else:
        raise core.HarnessError("unknown context " + ctx)
    return head + body, pad + line + 1, col, marked


def reference_expr(e, line, col):
    """CPython's tree for the text `e` placed at (line, col); col >= 1."""
    src = "\n" * (line - 1) + "(" + " " * (col - 1) + e + "\n)"
    return ast.parse(src).body[0].value


def _size(n):
    return sum(1 for _ in ast.walk(n))


_BAD_TYPES = (ast.Starred, ast.Yield, ast.YieldFrom, ast.Await, ast.Slice, ast.FormattedValue)


def _identifiers(n):
    for x in ast.walk(n):
        for f in ("id", "attr", "arg", "name", "asname"):
            v = getattr(x, f, None)
            if isinstance(v, str):
                yield v
        if isinstance(x, ast.Constant):
            pass


@functools.lru_cache(maxsize=32)
def eligible_fragments(path):
    """Unparsed single-line expressions of a corpus file usable as fragments."""
    src = corpus.read_python(path)
    if src is None:
        return ()
    with warnings.catch_warnings():
        warnings.simplefilter("ignore")
        try:
            tree = ast.parse(src)
        except (SyntaxError, ValueError, RecursionError, MemoryError):
            return ()
    banned = set(D.HARD_KEYWORDS) | SOFT_KEYWORDS
    out = []
    seen = set()
    # parents inside f-strings are skipped: their text is only meaningful inside the string
    skip = set()
    for n in ast.walk(tree):
        if isinstance(n, ast.JoinedStr):
            for c in ast.walk(n):
                if c is not n:
                    skip.add(id(c))
    for n in ast.walk(tree):
        if not isinstance(n, ast.expr) or isinstance(n, _BAD_TYPES) or id(n) in skip:
            continue
        if not isinstance(getattr(n, "ctx", ast.Load()), ast.Load):
            continue
        if n.end_lineno - n.lineno > 6:
            continue
        size = _size(n)
        if size < 3 or size > 40:
            continue
        if any(isinstance(c, (ast.Yield, ast.YieldFrom, ast.Await)) for c in ast.walk(n)):
            continue
        if any(i in banned for i in _identifiers(n)):
            continue
        try:
            text = ast.unparse(n)
        except Exception:
            continue
        if "\n" in text or len(text) > 240 or text in seen:
            continue
        seen.add(text)
        stores = any(isinstance(c, ast.Name) and not isinstance(c.ctx, ast.Load)
                     for c in ast.walk(n))
        rawself = any(isinstance(c, ast.Name) and c.id == "self" for c in ast.walk(n))
        # tops that the bare (marker-less) contexts cannot carry: and/or/not are proposition
        # operators in requirements, `require [1] ...` is the documented soft-requirement syntax,
        # and the node replacing `X @ Y` has no location of its own (reported at file level)
        topbool = (isinstance(n, ast.BoolOp) or isinstance(n, ast.List)
                   or (isinstance(n, ast.UnaryOp) and isinstance(n.op, ast.Not))
                   or (isinstance(n, ast.BinOp) and isinstance(n.op, ast.MatMult)))
        simple = all(isinstance(c, (ast.Name, ast.Constant, ast.Attribute, ast.expr_context))
                     for c in ast.walk(n))
        trigger = D.has_rewrite_trigger(n)
        out.append((text, size, stores, rawself, topbool, simple, type(n).__name__, trigger))
    return tuple(out)


def _find_marked(tree):
    return [n for n in ast.walk(tree) if isinstance(n, ast.Call)
            and isinstance(n.func, ast.Name) and n.func.id == MARK and len(n.args) == 1]


def _char_columns(ref, src):
    lines = src.split("\n")

    def conv(ln, col):
        raw = lines[ln - 1].encode("utf-8")
        return len(raw[:col].decode("utf-8", "ignore"))

    return (ref.lineno, conv(ref.lineno, ref.col_offset), ref.end_lineno,
            conv(ref.end_lineno, ref.end_col_offset))


def _find_span(tree, ref, want=None, kind=ast.expr):
    """Nodes of the compiled tree with exactly the reference's source span, deepest first."""
    want = want or tuple(getattr(ref, a) for a in D.ATTRS)
    hits = []
    stack = [(tree, 0)]
    while stack:
        n, depth = stack.pop()
        if isinstance(n, kind) and tuple(getattr(n, a, None) for a in D.ATTRS) == want:
            hits.append((depth, len(hits), n))
        for c in ast.iter_child_nodes(n):
            stack.append((c, depth + 1))
    return [n for _, _, n in sorted(hits, key=lambda h: (-h[0], h[1]))]


def _plain_python_failures(text, pad):
    """Signatures the same expression produces as a plain Python statement (no Scenic context):
    a fragment failure that is reproduced there is not about the embedding."""
    src = "".join("# pad\n" if k % 2 else "\n" for k in range(pad)) + f"_vf_x = {text}\n"
    out = core.Outcome()
    try:
        py = ast.parse(src)
    except SyntaxError:
        return set()
    kind, res = _outcome_of(src)
    if kind == "ok":
        compare_trees(py, res, out, src)
    elif kind != "recursion":
        _report_failure(out, kind, res, src, py, src.split("\n"),
                        stmt=py.body[-1] if py.body else None)
    return {sig for sig, _ in out.failures}


def judge_fragment(case):
    out = core.Outcome()
    frags = eligible_fragments(case["file"])
    if not frags:
        out.cls("frag:no-eligible-expression")
        return out
    if case.get("prefer_rewrite"):
        # half of the draws prefer sub-trees containing a documented-rewrite trigger
        # (ego/workspace/globalParameters, str/int/float, starred call argument, `@`)
        trig = [f for f in frags if f[7]]
        if trig:
            frags = trig
            out.cls("frag:with-rewrite-trigger")
    text, size, stores, rawself, topbool, simple, tname, _ = frags[case["node"] % len(frags)]
    ctx = case["ctx"]
    if ctx in BEHAVIOR_CTX and stores:
        ctx = "param"  # behaviors rewrite their local variables: keep such fragments outside
    if ctx == "default" and rawself:
        ctx = "with"  # a raw `self` is documented to be illegal in a default value
    if ctx.endswith("-bare") and topbool:
        ctx = ctx[:-5]  # use the marker form of the same context
    if ctx == "require-bare" and text.lstrip().startswith("["):
        ctx = "require"  # `require [0] * 3`: the bracket would be read as `require[p]`
    out.cls("frag:" + ctx, "frag-top:" + tname)
    src, line, col, marked = embed(ctx, text, case["pad"])
    try:
        ref = reference_expr(text, line, col)
    except SyntaxError:
        out.cls("frag:unparse-not-reparsable")
        return out
    out.nontrivial = size >= 4 and not simple
    kind, res = _outcome_of(src)
    if kind == "recursion":
        out.inconclusive = True
        return out
    tmp = core.Outcome()
    star = ctx not in BEHAVIOR_CTX
    if kind != "ok":
        lineno = getattr(res, "lineno", None)
        if kind == "reject":
            sig = f"frag:{ctx}:reject|{_fail_kind(kind, res)}"
        else:
            sig = f"frag:crash|{_fail_kind(kind, res)}"
        tmp.fail(sig, error=repr(res)[:300], line=lineno)
    elif marked:
        hits = _find_marked(res)
        if not hits:
            tmp.fail(f"frag:{ctx}|marker-call-lost")
        for h in hits:
            compare_trees(ref, h.args[0], tmp, src, prefix="frag:", star_wrapping=star)
    else:
        cands = _find_span(res, ref)
        if not cands and not src.isascii():
            # columns after non-ASCII text are known to be counted in characters: look for the
            # fragment at the span that defect model predicts; the comparison then reports the
            # column difference under its own signature
            cands = _find_span(res, ref, _char_columns(ref, src))
        if not cands:
            tmp.fail(f"frag:{ctx}|fragment-not-found-at-its-span",
                     expected_span=[getattr(ref, a) for a in D.ATTRS])
        best = None
        cands.sort(key=lambda c: type(c) is not type(ref))  # stable: same-type nodes first
        for c in cands:
            t2 = core.Outcome()
            compare_trees(ref, c, t2, src, prefix="frag:", star_wrapping=star)
            if best is None or len(t2.failures) < len(best.failures):
                best = t2
            if not t2.failures:
                break
        if best is not None:
            tmp.failures.extend(best.failures)
    if tmp.failures:
        plain = _plain_python_failures(text, case["pad"])
        for sig, detail in tmp.failures:
            bare = sig[len("frag:"):] if sig.startswith("frag:") else sig
            if kind != "ok":
                # a rejection/crash reproduced by the plain statement: report the plain signature
                same = [p for p in plain if p.split("|", 1)[-1] == sig.split("|", 1)[-1]]
                if same:
                    sig = sorted(same)[0]
            elif bare in plain:
                sig = bare
            detail = dict(detail, program=src, fragment=text)
            out.failures.append((sig, detail))
    return out


# ---------------------------------------------------------------------------------------------
# (c) Python loop statements inside behaviors, try-interrupt blocks and compose blocks
# ---------------------------------------------------------------------------------------------

STMT_CONTEXTS = {
    # name: (lines before the statement, indentation, lines after it)
    "stmt-behavior": (["behavior VfB():"], 4, ["    wait"]),
    "stmt-try-body": (["behavior VfB():", "    try:"], 8,
                      ["    interrupt when _vf_c:", "        wait"]),
    "stmt-interrupt": (["behavior VfB():", "    try:", "        wait", "    interrupt when _vf_c:"],
                       8, []),
    "stmt-monitor": (["monitor VfM():"], 4, ["    wait"]),
    "stmt-compose": (["scenario VfS():", "    compose:"], 8, ["        wait"]),
}


@functools.lru_cache(maxsize=32)
def eligible_statements(path):
    """Unparsed `for` / `while` statements of a corpus file that contain break/continue or a
    nested loop (the constructs whose compilation differs inside try-interrupt blocks)."""
    src = corpus.read_python(path)
    if src is None:
        return ()
    with warnings.catch_warnings():
        warnings.simplefilter("ignore")
        try:
            tree = ast.parse(src)
        except (SyntaxError, ValueError, RecursionError, MemoryError):
            return ()
    banned = set(D.HARD_KEYWORDS) | SOFT_KEYWORDS
    bad = (ast.Return, ast.Yield, ast.YieldFrom, ast.Await, ast.Global, ast.Nonlocal,
           ast.AsyncFor, ast.AsyncWith, ast.AsyncFunctionDef, ast.NamedExpr, ast.AnnAssign,
           ast.TypeAlias, ast.ClassDef, ast.Import, ast.ImportFrom)
    out = []
    seen = set()
    for n in ast.walk(tree):
        if not isinstance(n, (ast.For, ast.While)):
            continue
        inner = list(ast.walk(n))
        if len(inner) > 120 or n.end_lineno - n.lineno > 25:
            continue
        loops = sum(1 for c in inner if isinstance(c, (ast.For, ast.While)))
        jumps = sum(1 for c in inner if isinstance(c, (ast.Break, ast.Continue)))
        if loops < 2 and not jumps:
            continue
        if any(isinstance(c, bad) for c in inner):
            continue
        if any(i in banned for i in _identifiers(n)):
            continue
        if any(isinstance(c, ast.Name) and c.id in D.PROTECTED and not isinstance(c.ctx, ast.Load)
               for c in inner):
            continue  # builtin names "can be used but not overwritten"
        try:
            text = ast.unparse(n)
            ast.parse(text)
        except Exception:
            continue
        if text in seen or len(text) > 1500:
            continue
        seen.add(text)
        out.append((text, loops, jumps))
    return tuple(out)


def judge_statement(case):
    out = core.Outcome()
    # the drawn file may contain no suitable loop: take the next corpus file that does
    files = corpus.python_files()
    start = files.index(case["file"]) if case["file"] in files else 0
    stmts = ()
    for k in range(40):
        stmts = eligible_statements(files[(start + k) % len(files)])
        if stmts:
            break
    if not stmts:
        out.cls("stmt:no-eligible-loop")
        return out
    if case.get("prefer_nested"):
        nested = [t for t in stmts if t[1] >= 2 and t[2]]
        stmts = nested or stmts
    text, loops, jumps = stmts[case["node"] % len(stmts)]
    ctx = case["ctx"]
    before, indent, after = STMT_CONTEXTS[ctx]
    pad = ["# pad" if k % 2 else "" for k in range(case["pad"])]
    body = [" " * indent + ln if ln.strip() else ln for ln in text.split("\n")]
    src = "\n".join(pad + before + body + after) + "\n"
    # CPython's tree for the same text at the same lines and columns
    levels = indent // 4
    first = len(pad) + len(before)  # 0-based line index of the statement
    ref_lines = [""] * (first - levels) + [" " * (4 * k) + "if 1:" for k in range(levels)] + body
    try:
        ref = ast.parse("\n".join(ref_lines) + "\n")
        node = ref.body[0]
        for _ in range(levels - 1):
            node = node.body[0]
        ref_stmt = node.body[0]
    except (SyntaxError, IndexError):
        out.cls("stmt:reference-not-parsable")
        return out
    out.cls("stmt:" + ctx)
    if loops >= 2 and jumps:
        out.cls("stmt:nested-loops-with-jumps")
    out.nontrivial = True
    kind, res = _outcome_of(src)
    if kind == "recursion":
        out.inconclusive = True
        return out
    if kind != "ok":
        what = "reject" if kind == "reject" else "crash"
        out.fail(f"stmt:{ctx}:{what}|{_fail_kind(kind, res)}", program=src,
                 error=repr(res)[:300], line=getattr(res, "lineno", None))
        return out
    cands = _find_span(res, ref_stmt, kind=type(ref_stmt))
    if not cands:
        out.fail(f"stmt:{ctx}|statement-not-found-at-its-span", program=src)
        return out
    tmp = core.Outcome()
    compare_trees(ref_stmt, cands[0], tmp, src, prefix="stmt:",
                  star_wrapping=ctx in ("stmt-monitor", "stmt-compose"),  # "outside behaviors"
                  behavior_locals=True)
    if tmp.failures:
        # a difference the same statement shows as plain Python is not about the embedding
        plain = core.Outcome()
        ptxt = text + "\n"
        k2, r2 = _outcome_of(ptxt)
        if k2 == "ok":
            compare_trees(ast.parse(ptxt), r2, plain, ptxt)
        plain_sigs = {sig for sig, _ in plain.failures}
        for sig, detail in tmp.failures:
            bare = sig[len("stmt:"):]
            out.failures.append((bare if bare in plain_sigs else sig, dict(detail, program=src)))
    return out


def judge(case):
    if case.get("kind") == "file":
        return judge_file(case)
    if case.get("kind") == "stmt":
        return judge_statement(case)
    return judge_fragment(case)


def replay(case):
    D.selfcheck()
    return judge(case)


# ---------------------------------------------------------------------------------------------
# plan / shards
# ---------------------------------------------------------------------------------------------

QUICK_MAX_BYTES = 120_000


def _sizes(files):
    out = []
    for f in files:
        try:
            out.append(os.path.getsize(f))
        except OSError:
            out.append(0)
    return out


def _balance(items, nshards):
    """Longest-processing-time-first assignment of (weight, item) to shards."""
    shards = [[0, []] for _ in range(nshards)]
    for w, it in sorted(items, key=lambda x: (-x[0], x[1])):
        s = min(shards, key=lambda s: s[0])
        s[0] += w
        s[1].append(it)
    return [sorted(s[1]) for s in sorted(shards, key=lambda s: -s[0]) if s[1]]


def plan(tier, seed, jobs):
    files = corpus.python_files()
    sizes = dict(zip(files, _sizes(files)))
    jobs = max(1, jobs)
    if tier == "quick":
        rnd = random.Random(f"C09:{seed}")
        small = [f for f in files if 0 < sizes[f] <= QUICK_MAX_BYTES]
        chosen = set(rnd.sample(small, min(400, len(small))))
        for c in CORE_FILES:
            p = os.path.join(corpus.STDLIB, c)
            if p in sizes:
                chosen.add(p)
        nfile_shards = jobs * 2
        nfrag, nfrag_shards = 2000, jobs
    else:
        chosen = set(files)
        nfile_shards = jobs * 12
        nfrag, nfrag_shards = 50000, jobs
    groups = _balance([(sizes[f] + 2000, f) for f in chosen], nfile_shards)
    shards = [{"kind": "files", "files": g, "total_files": len(chosen)} for g in groups]
    per = max(1, nfrag // nfrag_shards)
    shards += [{"kind": "frags", "seed": seed * 1000 + k, "n": per} for k in range(nfrag_shards)]
    return shards


def statement_cases():
    files = corpus.python_files()
    return st.fixed_dictionaries({
        "kind": st.just("stmt"),
        "file": st.integers(0, len(files) - 1).map(lambda i: files[i]),
        "node": st.integers(0, 5000),
        "ctx": st.sampled_from(sorted(STMT_CONTEXTS) + ["stmt-interrupt", "stmt-try-body"]),
        "pad": st.integers(0, 3),
        "prefer_nested": st.booleans(),
    })


def all_fragment_cases():
    # one case in four embeds a whole loop statement in a dynamic block
    return st.integers(0, 3).flatmap(lambda k: statement_cases() if k == 0 else fragment_cases())


def fragment_cases():
    files = corpus.python_files()
    return st.fixed_dictionaries({
        "kind": st.just("frag"),
        "file": st.integers(0, len(files) - 1).map(lambda i: files[i]),
        "node": st.integers(0, 5000),
        "ctx": st.sampled_from(CONTEXTS),
        "pad": st.integers(0, 3),
        "prefer_rewrite": st.booleans(),
    })


def _resume_key():
    """Identifies the code under test and the oracle: results are only ever reused for the very
    same grammar, compiler and check."""
    import hashlib

    h = hashlib.sha1()
    repo = os.environ.get("VERIF_REPO", "/repo")
    here = os.path.dirname(os.path.abspath(__file__))
    for f in (os.path.join(repo, "src/scenic/syntax/scenic.gram"),
              os.path.join(repo, "src/scenic/syntax/compiler.py"),
              os.path.join(repo, "src/scenic/syntax/ast.py"),
              os.path.abspath(__file__), os.path.join(os.path.dirname(here), "c09_diff.py")):
        with open(f, "rb") as fh:
            h.update(fh.read())
    return h.hexdigest()[:16]


def _judge_file_resumable(case, limit, resume_dir, key):
    """Optional (env VERIF_C09_RESUME=<dir>): an interrupted thorough run can be restarted
    without recomputing the files already judged by the same code + oracle."""
    import json

    path = None
    if resume_dir:
        path = os.path.join(resume_dir, key, core.digest(case) + ".json")
        try:
            with open(path) as f:
                d = json.load(f)
            return core.Outcome(d["nontrivial"], d["classes"],
                                [(a, b) for a, b in d["failures"]], d["inconclusive"])
        except (OSError, ValueError, KeyError):
            pass
    try:
        with core.time_limit(limit):
            out = judge_file(case)
    except core.CaseTimeout:
        out = core.Outcome(inconclusive=True, classes=["timeout"])
    if path:
        core.write_json(path, {"nontrivial": out.nontrivial, "classes": out.classes,
                               "failures": out.failures, "inconclusive": out.inconclusive})
    return out


def run_shard(shard, tier):
    D.selfcheck()
    col = core.Collector(PROP, shard["id"])
    if shard["kind"] == "files":
        limit = 240 if tier == "quick" else 1500
        resume_dir = os.environ.get("VERIF_C09_RESUME") if tier == "thorough" else None
        key = _resume_key() if resume_dir else None
        for path in shard["files"]:
            case = {"kind": "file", "path": path}
            out = _judge_file_resumable(case, limit, resume_dir, key)
            col.add(case, out)
        col.extra["corpus_files_done"] = len(shard["files"])
        if tier == "thorough":
            col.extra["corpus_exhaustive_file_shards"] = 1
        col.extra["file_shards"] = 1
    else:
        core.hyp_search(all_fragment_cases(), judge, shard["n"], shard["seed"], col,
                        known_sigs=shard.get("known_sigs", ()), case_timeout=120,
                        shrink_s=40 if tier == "quick" else 120)
    return col.result()
